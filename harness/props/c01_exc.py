"""C01, part 2 — element operations that RAISE in the middle of a stream and a caller that goes on reading.

entries "exprE" / "bcastE" of the driver (lean/ALV/Model/C01Exc.lean, Spec/C01Exc.lean): the Lean model is handed a finite
oracle table `bad` = the applications f(args) (over atom ids) on which python raises, and answers with the outcome of every
next() call (item / exception / StopIteration), of a script of reads (next / take(k) / peek(k)) and with the applications it asked the
oracle about (`queried`).  The table is SETTLED by rounds: start from the empty table; evaluate every queried application
with python's operator.* on the real elements; add those that raise; ask again — until every queried application is in the
table iff python raises on it.  (`settle` does the rounds for a whole batch with one driver run per round; `compare`
re-checks the consistency of whatever table the case carries and settles a stale one on the spot.)

The real expression is read three ways: next() in a try/except loop, a `for` loop restarted after each exception, and a
script of next() / take(k) calls in try/except.
"""
import itertools as it
import json
import sys
from collections import deque
from fractions import Fraction

import common
from common import err_kind


def B():
    return sys.modules["props.c01"]


class Boom(object):
    """ an element on which EVERY operation raises the given exception (so that all 35 dunders, abs, call, attribute
        access and the broadcast functions can raise in the middle of a stream, whatever their number semantics) """
    __slots__ = ("exc",)
    EXC = {"ValueError": ValueError, "TypeError": TypeError, "ZeroDivisionError": ZeroDivisionError, "KeyError": KeyError,
           "OverflowError": OverflowError, "RuntimeError": RuntimeError}

    def __init__(self, exc):
        self.exc = exc

    def _boom(self, *a, **k):
        raise Boom.EXC[self.exc]("boom")

    def __repr__(self):
        return "Boom(%s)" % self.exc

    __hash__ = object.__hash__

    def __getattr__(self, name):
        if name.startswith("__") and name.endswith("__"):
            raise AttributeError(name)
        self._boom()


for _n in ["add", "sub", "mul", "truediv", "floordiv", "mod", "pow", "matmul", "rshift", "lshift", "and", "or", "xor"]:
    setattr(Boom, "__%s__" % _n, Boom._boom)
    setattr(Boom, "__r%s__" % _n, Boom._boom)
for _n in ["lt", "le", "eq", "ne", "gt", "ge", "pos", "neg", "invert", "abs", "call", "float", "int", "index", "bool",
           "complex", "round", "trunc", "floor", "ceil"]:
    setattr(Boom, "__%s__" % _n, Boom._boom)


# ------------------------------------------------------------------------------------------------
# term evaluation with a per-case cache: term (JSON text) -> ("i", value) | ("r", error kind)
# ------------------------------------------------------------------------------------------------
def tkey(t):
    return json.dumps(t, separators=(",", ":"))


class Evaluator(object):
    def __init__(self, env):
        self.env = env
        self.cache = {}

    def outcome(self, t):
        k = tkey(t)
        if k not in self.cache:
            try:
                self.cache[k] = ("i", B().eval_term(t, self.env))
            except Exception as e:
                self.cache[k] = ("r", err_kind(e))
        return self.cache[k]

    def raises(self, t):
        return self.outcome(t)[0] == "r"


def expect_out(ev, o):
    """ model/spec outcome -> what python must show: ["i", canon] | ["r", kind] | ["s"] """
    if o[0] == "s":
        return ["s"]
    kind, v = ev.outcome(o[1])
    if kind == "r":
        return ["r", v]
    return ["i", B().canon(v)]


def table_fixes(ev, table, queried):
    """ (terms to add, terms to drop): the table must say `raises` exactly for the queried applications python raises on """
    have = set(tkey(t) for t in table)
    add, seen = [], set()
    for call in queried:
        for t in call:
            k = tkey(t)
            if k not in have and k not in seen and ev.raises(t):
                seen.add(k)
                add.append(t)
    drop = [t for t in table if not ev.raises(t)]
    return add, drop


# ------------------------------------------------------------------------------------------------
# exprE
# ------------------------------------------------------------------------------------------------
def _env_of(c):
    if c["entry"] == "exprE":
        _req, env, _leaves = B().number(c["prog"], n=c["n"])
        return env
    return B().bcast_layout(dict(c, entry="bcast"))[1]


_meth_kinds = {}


def stream_meth_kinds():
    """ translator (source -> model parameter): is the Stream returned by `Stream.__getattr__` / `Stream.__call__` built on a
        GENERATOR EXPRESSION (`Stream(f(a) for a in self._data)`: finished by the first exception) or on a MAP OBJECT
        (`Stream(xmap(lambda a: ..., self._data))`: goes on)?  Read from the source text of lazy_stream.py of the repo under
        test; an unknown shape is reported by `extra_checks` (and treated as a generator expression). """
    if not _meth_kinds:
        import ast
        import os
        kinds = {"__getattr__": "unknown", "__call__": "unknown"}
        try:
            tree = ast.parse(open(os.path.join(common.REPO, "audiolazy", "lazy_stream.py")).read())
            cls = next(n for n in tree.body if isinstance(n, ast.ClassDef) and n.name == "Stream")
            for fn in cls.body:
                if isinstance(fn, ast.FunctionDef) and fn.name in kinds:
                    rets = [n for n in ast.walk(fn) if isinstance(n, ast.Return) and n.value is not None]
                    v = rets[-1].value if rets else None
                    if isinstance(v, ast.Call) and getattr(v.func, "id", None) == "Stream" and len(v.args) == 1 and not v.keywords:
                        a = v.args[0]
                        if isinstance(a, ast.GeneratorExp) and len(a.generators) == 1 and not a.generators[0].ifs:
                            kinds[fn.name] = "generator"
                        elif isinstance(a, ast.Call) and getattr(a.func, "id", None) in ("xmap", "map") and len(a.args) == 2 \
                                and isinstance(a.args[0], ast.Lambda):
                            kinds[fn.name] = "map"
        except Exception as e:
            kinds["error"] = repr(e)
        _meth_kinds.update(kinds)
    return _meth_kinds


def meth_is_gen(label):
    k = stream_meth_kinds()["__call__" if label == "call" else "__getattr__"]
    return k != "map"


def extra_checks(eng):
    k = stream_meth_kinds()
    ok = all(k.get(n) in ("generator", "map") for n in ("__getattr__", "__call__"))
    yield ("translator Stream.__getattr__/__call__ iterator kind (%s / %s)" % (k.get("__getattr__"), k.get("__call__")), ok,
           "unknown shape of the returned Stream in lazy_stream.py: %r" % (k,))
    try:
        n, bad = scalar_function_checks()
    except Exception as e:
        n, bad = 0, ["check could not run: %r" % (e,)]
    yield ("lazy_math element functions vs independent oracle (%d calls incl. error branches)" % n, not bad, "; ".join(bad[:4]))


def mark_gen(req, node):
    """ attribute access / call: generator expression (g = true in the model) or map object, as the source says """
    if not isinstance(node, dict):
        return
    if node.get("k") == "meth" and (node["l"].startswith("attr:") or node["l"] == "call"):
        req["g"] = meth_is_gen(node["l"])
    for ch in ("a", "b", "s", "o"):
        if ch in node and isinstance(node[ch], dict):
            sub = req[ch] if not (node[ch]["k"] == "iterable" and req[ch]["k"] == "stream1") else req[ch]
            mark_gen(sub, node[ch])


def request(c):
    if c["entry"] == "exprE":
        req = B().number(c["prog"], n=c["n"])[0]
        mark_gen(req, c["prog"])
        return {"entry": "exprE", "prog": req, "n": c["n"], "bad": c.get("bad", []), "reads": c.get("reads", [])}
    r = dict(B().bcast_layout(dict(c, entry="bcast"))[0])
    r["entry"] = "bcastE"
    r["bad"] = c.get("bad", [])
    return r


def _fresh(c):
    b = B()
    _req, env, _leaves = b.number(c["prog"], n=c["n"])
    st = {"next": 0, "env": env, "tags": 0, "reads": {}, "n": c["n"]}
    return b.build(c["prog"], st)


def read_next(res, n):
    """ next() in a try/except loop, at most n calls, until the first StopIteration """
    out = []
    itr = iter(res)
    for _ in range(n):
        try:
            out.append(["i", B().canon(next(itr))])
        except StopIteration:
            out.append(["s"])
            break
        except Exception as e:
            out.append(["r", err_kind(e)])
    return out


def read_for(res, n):
    """ a `for` loop restarted after each exception, at most n outcomes """
    out = []
    while len(out) < n:
        try:
            for x in res:
                out.append(["i", B().canon(x)])
                if len(out) >= n:
                    break
            else:
                out.append(["s"])
            break
        except Exception as e:
            out.append(["r", err_kind(e)])
    return out


def read_script(res, reads):
    out = []
    for r in reads:
        try:
            if r[0] == "next":
                out.append({"one": ["i", B().canon(next(iter(res)))]})
            elif r[0] == "peek":
                out.append({"took": {"ok": [B().canon(x) for x in res.peek(r[1])]}})
            else:
                out.append({"took": {"ok": [B().canon(x) for x in res.take(r[1])]}})
        except StopIteration:
            out.append({"one": ["s"]})
        except Exception as e:
            out.append({"one": ["r", err_kind(e)]} if r[0] == "next" else {"took": {"err": err_kind(e)}})
    return out


def impl_expr(c):
    b = B()
    try:
        res = _fresh(c)
    except b.NotImpl:
        return {"err": "NotImplemented"}
    except b.Unsupported as e:
        return {"err": "UNSUPPORTED:" + str(e)}
    except Exception as e:
        return {"err": err_kind(e)}
    obs = {"type_is_stream": isinstance(res, b.AL().Stream)}
    obs["next"] = read_next(res, c["n"])
    obs["for"] = read_for(_fresh(c), c["n"])
    if c.get("reads"):
        obs["script"] = read_script(_fresh(c), c["reads"])
    return obs


def _script_expect(ev, script):
    out = []
    for r in script:
        if "one" in r:
            out.append({"one": expect_out(ev, r["one"])})
        elif "ok" in r["took"]:
            out.append({"took": {"ok": [expect_out(ev, ["i", t])[1] for t in r["took"]["ok"]]}})
        else:
            out.append({"took": {"err": ev.outcome(r["took"]["err"])[1]}})
    return out


def _until_stop(script, reads):
    """ a script is compared up to and including the first read that meets the end of the data """
    out = []
    for r, rd in zip(script, reads):
        out.append(r)
        if r.get("one") == ["s"] or ("took" in r and "ok" in r["took"] and len(r["took"]["ok"]) < rd[1]):
            break
    return out


def _first_diff(a, b):
    return next((i for i, (x, y) in enumerate(zip(a, b)) if x != y), min(len(a), len(b)))


def _cmp_outs(label, want, n, got, how):
    """ want: outcomes without the final stop (model/spec), got: impl reading incl. ["s"] """
    exp = list(want) + ([["s"]] if len(want) < n else [])
    if exp != got:
        k = _first_diff(exp, got)
        return ["%s differs at next() #%d (%s): impl %s vs %s %s  [impl %d outcomes%s, %s %d%s]" % (
            label, k, how, got[k:k + 1], label, exp[k:k + 1], len([o for o in got if o != ["s"]]),
            ", then StopIteration" if got[-1:] == [["s"]] else "", label, len(want), ", then StopIteration" if len(want) < n else "")]
    return []


def compare_expr(c, io, drv):
    b = B()
    if str(io.get("err", "")).startswith(("UNSUPPORTED", "UNMAPPED")):
        return [("model", "harness problem: " + io["err"] + " " + io.get("trace", ""))]
    ev = Evaluator(_env_of(c))
    drv = ensure_settled(c, drv, ev)
    out = []
    m, spec = drv["model"], drv["spec"]
    head = "%s read after element exceptions: " % b.render(c["prog"])[:300]
    if "err" in m:
        if io.get("err") != m["err"]:
            out.append(("model", head + "model predicts %s, impl: %s" % (m["err"], io.get("err", "a value"))))
    elif "err" in io:
        out.append(("model", head + "impl raised %s, model predicts a %s" % (io["err"], m.get("kind"))))
    elif m.get("kind") != "stream":
        out.append(("model", head + "model: value is not a Stream (%s)" % m.get("kind")))
    else:
        want = [expect_out(ev, o) for o in m["outs"]]
        for d in _cmp_outs("model", want, c["n"], io["next"], "next() in try/except"):
            out.append(("model", head + d))
        for d in _cmp_outs("model", want, c["n"], io["for"], "for loop restarted after each exception"):
            out.append(("model", head + d))
        if c.get("reads"):
            # the model's script, cut by the model (`untilEnd`: through the first read that meets the end of the data)
            ws = _script_expect(ev, m["scriptEnd"])
            if ws != _until_stop(_script_expect(ev, m["script"]), c["reads"]):
                out.append(("model", head + "harness problem: `untilEnd` of the driver and `_until_stop` disagree on %r" % (c["reads"],)))
            gs = io["script"][:len(ws)]
            if ws != gs:
                k = _first_diff(ws, gs)
                out.append(("model", head + "script %r differs at read #%d: impl %s vs model %s" % (c["reads"], k, gs[k:k + 1], ws[k:k + 1])))
    if spec["sort"] != "stream":
        if "err" not in io:
            out.append(("spec", head + "spec: not a Stream expression (%s) but impl delivered %r" % (spec["sort"], io.get("next"))))
    elif "err" in io:
        out.append(("spec", head + "impl raised %s, spec: a Stream" % io["err"]))
    else:
        want = [expect_out(ev, o) for o in spec["outsP"]]
        for d in _cmp_outs("spec", want, c["n"], io["next"], "next() in try/except"):
            out.append(("spec", head + d))
        if c.get("reads") and spec.get("scriptCost", 0) <= c["n"]:
            # the script as a function of the element-by-element outcomes (`scriptOuts`, theorem exc_script_eval)
            ws = _script_expect(ev, spec["scriptP"])
            gs = io["script"][:len(ws)]
            if ws != gs:
                k = _first_diff(ws, gs)
                out.append(("spec", head + "script %r differs at read #%d: impl %s vs spec %s" % (c["reads"], k, gs[k:k + 1], ws[k:k + 1])))
    return out


# ------------------------------------------------------------------------------------------------
# settling the oracle table
# ------------------------------------------------------------------------------------------------
_driver = []


def _drv():
    if not _driver:
        _driver.append(common.Driver())
    return _driver[0]


def _queried(payload):
    return payload.get("model", {}).get("queried", [])


def settle(cases, rounds=12):
    """ fill c["bad"] for every exprE / bcastE case of the list (one driver run per round for all of them) """
    todo = [c for c in cases if c.get("entry") in ("exprE", "bcastE")]
    evs = {}
    for c in todo:
        c.setdefault("bad", [])
    for _ in range(rounds):
        if not todo:
            break
        reqs = []
        for c in todo:
            r = dict(request(c))
            r["id"] = "C01"
            reqs.append(r)
        outs = _drv().batch(reqs)
        nxt = []
        for c, do in zip(todo, outs):
            if "fail" in do:
                continue               # the engine will report the rejected request
            if id(c) not in evs:
                try:
                    evs[id(c)] = Evaluator(_env_of(c))
                except Exception:
                    continue
            add, drop = table_fixes(evs[id(c)], c["bad"], _queried(do.get("ok", do)))
            if add or drop:
                dk = set(tkey(t) for t in drop)
                c["bad"] = [t for t in c["bad"] if tkey(t) not in dk] + add
                nxt.append(c)
        todo = nxt
    return cases


def ensure_settled(c, drv, ev):
    """ the payload belongs to the table the case carries; a table python disagrees with (a case changed by shrinking, an old
        corpus entry) is settled now and the model asked again """
    add, drop = table_fixes(ev, c.get("bad", []), _queried(drv))
    if not add and not drop:
        return drv
    settle([c])
    r = dict(request(c))
    r["id"] = "C01"
    do = _drv().batch([r])[0]
    return do.get("ok", do)


# ------------------------------------------------------------------------------------------------
# bcastE
# ------------------------------------------------------------------------------------------------
def impl_bcast(c):
    """ like c01.impl_bcast, but the result is read with next() in try/except and the reading goes on after an exception """
    import types
    b = B()
    Stream, ControlStream, thub = b.AL().Stream, b.AL().ControlStream, b.AL().thub
    raw, items = b.bcast_items(c)
    k = c["kind"]
    reads = [0]

    def src():
        for x in raw:
            reads[0] += 1
            yield x
    mk = {"scalar": lambda: raw[0], "str": lambda: raw[0], "list": lambda: list(raw), "tuple": lambda: tuple(raw),
          "deque": lambda: deque(raw), "generator": src, "map": lambda: map(lambda v: v, src()),
          "filter": lambda: filter(lambda v: True, src()), "stream": lambda: Stream(src()),
          "thub": lambda: thub(Stream(src()), 1), "iter_list": lambda: iter(list(raw))}
    arg = mk[k]()
    f = b.bfun(c["func"])
    dn = b.BFUNCS[c["func"]][0]
    a = [b.dec_val(x) for x in c.get("before", [])]
    kw = dict((kn, b.dec_val(v)) for kn, v in c.get("kwargs", []))
    if c.get("route", "pos") == "pos":
        a = a + [arg] + [b.dec_val(x) for x in c.get("after", [])]
    else:
        kw[dn] = arg
    try:
        res = f(*a, **kw)
    except Exception as e:
        return {"call_err": err_kind(e), "reads0": reads[0]}
    obs = {"reads0": reads[0]}
    if isinstance(res, types.GeneratorType):
        obs["out"] = "generator"
    elif isinstance(res, Stream):
        obs["out"] = "stream"
    elif k in b.SIZED:
        obs["out"] = ("same:" + k) if type(res) is type(arg) else "other:" + type(res).__name__
    elif k in ("scalar", "str"):
        obs["out"] = "value"
    else:
        obs["out"] = "other:" + type(res).__name__
    if obs["out"] in ("generator", "stream"):
        obs["next"] = read_next(res, c.get("n", 8))
        obs["reads"] = reads[0]
    elif obs["out"] == "value":
        obs["value"] = b.canon(res)
    else:
        try:
            obs["items"] = [b.canon(v) for v in res]
        except Exception as e:
            obs["items_err"] = err_kind(e)
    return obs


def _cmp_bcast_side(c, io, side, label, ev):
    out = []
    exp_out = side["out"]
    n = c.get("n", 8)
    if exp_out == "keyError":
        return [] if io.get("call_err") == "KeyError" else ["%s: KeyError expected, impl %r" % (label, io.get("call_err", io.get("out")))]
    if exp_out == "value":
        o = expect_out(ev, side["outs"][0])
        got = ["r", io["call_err"]] if "call_err" in io else ["i", io.get("value")]
        if io.get("out", "value") != "value" or o != got:
            out.append("%s: scalar in, scalar out: %s expected, impl %s (%s)" % (label, o, got, io.get("out")))
        return out
    if exp_out.startswith("same:"):
        took = side["took"]
        if "err" in took:
            kind = ev.outcome(took["err"])[1]
            if io.get("call_err") != kind:
                out.append("%s: the function raises %s on an element while the call builds the container, impl: %r" % (
                    label, kind, io.get("call_err", io.get("out"))))
            return out
        if "call_err" in io:
            return ["impl raised %s at call time, %s predicts %s" % (io["call_err"], label, exp_out)]
        want = [expect_out(ev, ["i", t])[1] for t in took["ok"]]
        if io["out"] != exp_out or io.get("items") != want:
            out.append("%s: %s of %s expected, impl %s of %s" % (label, exp_out, want[:6], io["out"], (io.get("items") or io.get("items_err"))))
        return out
    # lazy
    if "call_err" in io:
        return ["impl raised %s at call time, %s predicts a lazy %s" % (io["call_err"], label, exp_out)]
    if io["out"] != exp_out:
        return ["kind of the result: impl %s, %s %s" % (io["out"], label, exp_out)]
    want = [expect_out(ev, o) for o in side["outs"]]
    out += _cmp_outs(label, want, n, io["next"], "next() in try/except")
    if label == "model":
        if io["reads0"] != 0:
            out.append("the source was read %d times before the first next()" % io["reads0"])
        total = len(B().bcast_items(c)[1])
        unread = dict((t, u) for t, u in side.get("unread", []))
        if 0 in unread and total - unread[0] != io.get("reads"):
            out.append("read count after the reading: impl %s, model %d" % (io.get("reads"), total - unread[0]))
    return out


def compare_bcast(c, io, drv):
    if str(io.get("err", "")).startswith(("UNSUPPORTED", "UNMAPPED")):
        return [("model", "harness problem: " + io["err"] + " " + io.get("trace", ""))]
    ev = Evaluator(_env_of(c))
    drv = ensure_settled(c, drv, ev)
    head = "%s(%s %s, route %s) " % (c["func"], c["kind"], [B().dec_val(x) for x in c["xs"]], c.get("route", "pos"))
    out = [("model", head + d) for d in _cmp_bcast_side(c, io, drv["model"], "model", ev)]
    out += [("spec", head + d) for d in _cmp_bcast_side(c, io, drv["spec"], "spec", ev)]
    return out


# ------------------------------------------------------------------------------------------------
# generators
# ------------------------------------------------------------------------------------------------
NONE = None
# element pools on which the operators of a class raise for SOME elements (python's own number semantics)
EXC_POOLS = {
    # pool -> (elements for self, scalars, dunders)
    "zero": ([1, 2, 0, 4, 0, 5, -3], [0, 1, 7, 10, {"F": [0, 1]}, 0.0, False],
             ["truediv", "rtruediv", "floordiv", "rfloordiv", "mod", "rmod", "pow", "rpow"]),
    "zero-frac": ([{"F": [1, 2]}, {"F": [0, 1]}, 2, 0.0, 3.5, 0, True, False], [7, {"F": [1, 3]}, 0, 2.5],
                  ["truediv", "rtruediv", "floordiv", "rfloordiv", "mod", "rmod"]),
    "shift": ([0, 1, -1, 2, -2, 3], [2, 1, -1, 0], ["lshift", "rlshift", "rshift", "rrshift", "pow", "rpow"]),
    "float-shift": ([1, 2.0, 3, True, 0.5, 4], [1, 2], ["lshift", "rlshift", "rshift", "rrshift", "and", "rand", "or", "ror", "xor", "rxor", "invert"]),
    "none": ([1, 2.5, None, 3, None, {"F": [5, 2]}, True], [1, 2, 0.5],
             ["add", "radd", "sub", "rsub", "mul", "rmul", "lt", "le", "gt", "ge", "neg", "pos", "invert", "and", "ror", "xor", "mod", "rfloordiv"]),
    "str": ([1, {"T": "x"}, 2.5, {"T": ""}, 3], [1, 2],
            ["add", "radd", "sub", "rsub", "lt", "ge", "neg", "pos", "truediv", "rtruediv", "pow", "and", "matmul", "rmatmul"]),
    "complex": ([1, 3, {"C": [0.0, 2.0]}, 0.5, {"F": [5, 2]}, {"C": [1.0, 0.0]}], [2, 1.5],
                ["lt", "le", "gt", "ge", "floordiv", "rfloordiv", "mod", "rmod", "lshift", "invert"]),
    "boom": ([1, {"B": "ValueError"}, 2, {"B": "KeyError"}, 3, {"S": "z"}], [2, {"S": "c"}],
             None),      # every dunder
    "boom-scalar": ([1, 2, 3], [{"B": "OverflowError"}], None),     # every position raises
}
EXC_NAMES = sorted(EXC_POOLS)


def _dunders_of(pool, bdn):
    ds = EXC_POOLS[pool][2]
    b = B()
    if ds is None:
        return [d for d in b.ALL_DUNDERS]
    return ["__%s__" % n for n in ds]


def rand_reads(rng, n):
    out, used = [], 0
    while used < n:
        if rng.random() < 0.45:
            out.append(["next"])
            used += 1
        else:
            k = rng.choice([1, 2, 2, 3, 4])
            if used + k > n:
                break
            # `peek(k)` = `copy().take(k)`: costs k calls of the budget like `take(k)` (theorem exc_script: readsCost)
            out.append(["peek" if rng.random() < 0.3 else "take", k])
            used += k
    return out


def expr_case(prog, n, rng=None, **kw):
    b = B()
    prog = b.fix_routes(prog)
    c = {"entry": "exprE", "prog": prog, "n": n}
    if rng is not None:
        c["reads"] = rand_reads(rng, n)
    c.update(kw)
    return c


SAFE_CTORS = ["Stream", "Stream", "Sub", "copy", "orig", "altee", "thub", "thubcopy"]     # (limit = islice and skip = a generator end at an exception)


def generate_expr(rng, tier, scale=1):
    b = B()
    cases = []
    leaf, stream_of = b.leaf, b.stream_of
    per = 2 if tier == "quick" else 6

    def elems(pool, m):
        base = EXC_POOLS[pool][0]
        return [rng.choice(base) for _ in range(m)]

    def sleaf(pool, m=None):
        xs = elems(pool, m if m is not None else rng.choice([3, 4, 5, 6, 7]))
        ctor = rng.choice(SAFE_CTORS)
        kind = rng.choice(["list", "tuple", "gen", "iter", "deque"])
        return stream_of(leaf(kind, xs), ctor)

    def routed(prog):
        if prog["k"] == "bin":
            rs = safe_routes(prog)
            return dict(prog, route=rng.choice(rs))
        if prog["k"] == "un":
            return dict(prog, route=rng.choice(["direct", "syntax"]))
        return prog

    def emit(prog, pool, shape, n=None):
        n = n if n is not None else rng.choice([6, 8, 10])
        cases.append(expr_case(routed(prog), n, rng, fam="exc:" + pool, shape=shape))

    if scale == 1:
        for pool in EXC_NAMES:
            sc = EXC_POOLS[pool][1]
            for d in _dunders_of(pool, None):
                base, refl = b.base_of(d)
                if base in b.UNARY:
                    for _ in range(per):
                        emit({"k": "un", "d": d, "s": sleaf(pool)}, pool, "unary")
                    continue
                for _ in range(per):
                    # scalar operand (either side is chosen by the dunder: plain or reflected)
                    emit({"k": "bin", "d": d, "s": sleaf(pool), "o": {"k": "scalar", "c": rng.choice(sc)}}, pool,
                         ("rbinary" if refl else "binary") + "/scalar")
                    # iterable operand: raw, in a Stream; the raising elements on self, on other, on both
                    okind = rng.choice(["list", "tuple", "gen", "deque", "Stream", "Stream"])
                    m = rng.choice([2, 4, 6])
                    o = b.other_operand(okind, elems(pool, m), None)
                    emit({"k": "bin", "d": d, "s": sleaf(pool), "o": o}, pool, ("rbinary" if refl else "binary") + "/iterable")
                # an endless self / an endless other: the finite operand decides the end, exceptions or not
                if rng.random() < 0.5:
                    cyc = {"k": "stream2", "a": {"k": "scalar", "c": rng.choice(sc)}, "b": {"k": "scalar", "c": rng.choice(sc)}}
                    emit({"k": "bin", "d": d, "s": cyc, "o": leaf(rng.choice(["list", "gen"]), elems(pool, 4))}, pool,
                         ("rbinary" if refl else "binary") + "/iterable/self-endless")
                else:
                    emit({"k": "bin", "d": d, "s": sleaf(pool, 4), "o": stream_of({"k": "scalar", "c": rng.choice(sc)})}, pool,
                         ("rbinary" if refl else "binary") + "/iterable/other-endless")
            # methods: map / abs (map objects) and attribute access / call (generator expressions)
            for l in ["abs", "map:neg", "map:float", "attr:real", "attr:numerator", "call"]:
                emit({"k": "meth", "l": l, "s": sleaf(pool)}, pool, "meth:" + l.split(":")[0])
    # nested trees: an inner operation raises, the outer ones go on
    ntree = (450 if tier == "quick" else 5000) * scale
    for _ in range(ntree):
        pool = rng.choice([p for p in EXC_NAMES if p != "boom-scalar"])
        ds = _dunders_of(pool, None)
        sc = EXC_POOLS[pool][1]
        safe_bin = ["__add__", "__radd__", "__mul__", "__rmul__", "__sub__", "__rsub__", "__eq__", "__ne__"]

        def tree(dpt):
            if dpt <= 0 or rng.random() < 0.2:
                return sleaf(pool)
            r = rng.random()
            d = rng.choice(ds if rng.random() < 0.6 else safe_bin)
            base, _refl = b.base_of(d)
            if base in b.UNARY:
                return {"k": "un", "d": d, "s": tree(dpt - 1)}
            if r < 0.08:
                return {"k": "meth", "l": rng.choice(["abs", "map:neg", "attr:real", "call"]), "s": tree(dpt - 1)}
            if r < 0.14:
                return {"k": "append", "s": tree(dpt - 1), "o": rng.choice([leaf("list", elems(pool, 2)), tree(dpt - 1)])}
            if r < 0.2:
                return {"k": "stream2", "a": leaf("gen", elems(pool, 2)), "b": tree(dpt - 1)}
            if r < 0.6:
                o = {"k": "scalar", "c": rng.choice(sc)}
            elif r < 0.8:
                o = leaf(rng.choice(["list", "tuple", "gen"]), elems(pool, rng.choice([2, 4, 6])))
            else:
                o = tree(dpt - 1)
            s_ = tree(dpt - 1)
            if base in ("pow", "lshift") and not (s_["k"] == "stream1" and o["k"] in ("scalar", "iterable", "stream1")):
                d = rng.choice(safe_bin)          # (towers of powers / shifts of computed values: astronomically large ints)
            return {"k": "bin", "d": d, "s": s_, "o": o}
        prog = tree(rng.choice([2, 3, 3, 4] if tier == "quick" else [2, 3, 4, 5]))
        if prog["k"] == "stream1":
            continue
        prog = _route_all(prog, rng)
        cases.append(expr_case(prog, rng.choice([5, 8, 12]), rng, fam="exc:" + pool, shape="tree"))
    return cases


def safe_routes(prog):
    """ the routes python's dispatch really ends in THIS dunder with THESE operands """
    b = B()
    rs = b.routes_for_nodes(prog["d"], prog["s"], prog["o"])
    c = prog["o"].get("c") if prog["o"]["k"] == "scalar" else None
    if isinstance(c, dict) and "B" in c:
        # `Boom <op> s` would raise in Boom's own method before python ever tries the Stream's reflected one
        rs = [r for r in rs if r == "direct" or (r == "syntax" and not b.base_of(prog["d"])[1])]
    if isinstance(c, dict) and "F" in c and prog["d"] == "__rpow__":
        rs = ["direct"]       # Fraction.__pow__(x, unknown) computes float(x) ** unknown: the Stream meets a float scalar
    return rs


def _route_all(node, rng):
    b = B()
    if not isinstance(node, dict):
        return node
    q = dict(node)
    for ch in ("a", "b", "s", "o"):
        if ch in q and isinstance(q[ch], dict):
            q[ch] = _route_all(q[ch], rng)
    if q["k"] == "bin":
        q["route"] = rng.choice(safe_routes(q))
    elif q["k"] == "un":
        q["route"] = rng.choice(["direct", "syntax"])
    return q


# broadcast functions: value pools with elements on which the function raises (domain errors, wrong types)
BC_POOLS = {
    "sqrt": [4.0, -1.0, 2.25, None, 9.0], "log": [1.0, 8.0, {"T": "x"}, 0.5, None, 2.0], "log1p": [0.0, -1.0, 1.0, -3.0, 0.5],
    "acos": [0.5, 2.0, -0.25, -7.0, 0.0], "acosh": [1.0, 0.5, 2.0, 0.0, 4.0], "exp": [0.5, 1000.0, -1.0, None, 0.0],
    "factorial": [3, -1, 5, 2.5, 0, -2.0, 4.0], "dB10": [1.0, None, 10.0, {"T": "a"}, 100.0], "dB20": [1.0, None, 10.0, 0.5],
    "sign": [2, None, -3, {"C": [0.0, 1.0]}, 0.5], "absolute": [-2, None, 3, {"T": "s"}, -0.5], "gamma": [1.0, 0.0, 2.5, -1.0, 4.0],
    "midi2freq": [69, None, 60, {"T": "A4"}, 61.5], "freq2midi": [440.0, -1.0, 220.0, None, 0.0, 55.0],
    "midi2str": [69, None, 60, {"T": "x"}, 61], "str2midi": [{"T": "C4"}, 5, {"T": "A4"}, {"T": "H9"}, {"T": "Bb3"}, None],
    "str2freq": [{"T": "C4"}, 5, {"T": "A4"}, {"T": "H9"}, {"T": "Bb3"}], "freq2str": [440.0, -1.0, 220.0, None, 55.0],
    "erb.gm90": [1000.0, None, 440.0, {"T": "f"}, 20.0], "ceil": [0.5, {"C": [1.0, 1.0]}, 1.5, None, -0.25],
    "trace.x0": [{"S": "u0"}, {"S": "u1"}, {"S": "u2"}], "sin": [0.5, None, 0.25, {"T": "q"}, 0.0],
}
BC_KINDS = ["scalar", "list", "tuple", "deque", "generator", "map", "filter", "stream", "thub"]


def bcast_case(func, kind, xs, route="pos", n=8, **kw):
    c = {"entry": "bcastE", "func": func, "kind": kind, "xs": xs, "route": route, "n": n}
    c.update(kw)
    return c


def generate_bcast(rng, tier, scale=1):
    b = B()
    cases = []
    reps = (2 if tier == "quick" else 10) * scale
    for fn in sorted(BC_POOLS):
        if fn not in b.BFUNCS:
            continue
        dn, dp, _pool, _r0, composite = b.BFUNCS[fn]
        pool = BC_POOLS[fn]
        for _ in range(reps):
            for kind in BC_KINDS:
                m = 1 if kind == "scalar" else rng.choice([3, 4, 5, 6])
                xs = [rng.choice(pool) for _ in range(m)]
                route = "kw" if (dn and not composite and rng.random() < 0.35) else "pos"
                cases.append(bcast_case(fn, kind, xs, route, n=rng.choice([m + 2, m + 2, 2, 4])))
    # secondary arguments that make EVERY call raise / some calls raise: invalid logarithm bases, by position and by keyword
    for kind in BC_KINDS:
        for base in (1, 0, -2, 2, 10, 0.5):
            xs = [rng.choice([1.0, 8.0, 0.0, 0.5, -1.0, 4.0]) for _ in range(1 if kind == "scalar" else rng.choice([2, 3, 4]))]
            r = rng.random()
            if r < 0.34:
                cases.append(bcast_case("log", kind, xs, "pos", after=[base]))
            elif r < 0.67:
                cases.append(bcast_case("log", kind, xs, "pos", kwargs=[["base", base]]))
            else:
                cases.append(bcast_case("log", kind, xs, "kw", kwargs=[["base", base]]))
        cases.append(bcast_case("midi2str", kind, [rng.choice([60, None, 61, 69]) for _ in range(1 if kind == "scalar" else 4)],
                                rng.choice(["pos", "kw"]), kwargs=[["sharp", False]]))
        cases.append(bcast_case("factorial", kind, [rng.choice([3, -1, 0, -4, 5]) for _ in range(1 if kind == "scalar" else 5)],
                                rng.choice(["pos", "kw"])))
    return cases


def generate(rng, tier, scale=1):
    cases = generate_expr(rng, tier, scale) + generate_bcast(rng, tier, scale) + generate_meta(rng, tier, scale) + generate_opget(rng, tier, scale)
    try:
        settle(cases)
    except Exception:
        pass                      # (no driver yet: `compare` settles case by case)
    return cases


# ------------------------------------------------------------------------------------------------
# tally / shrink / classify
# ------------------------------------------------------------------------------------------------
def _has_raise(outs):
    return any(o[0] == "r" for o in outs)


def tally(eng, c, io):
    if c["entry"] == "exprE":
        b = B()
        p = c["prog"]
        eng.count("exc_family", c.get("fam", "?"))
        eng.count("exc_shape", c.get("shape", "?"))
        eng.count("exc_root", p.get("d", p["k"] + (":" + p["l"] if p["k"] == "meth" else "")))
        eng.count("exc_oracle_table_size", min(len(c.get("bad", [])), 12))
        for r, o in zip(c.get("reads", []), io.get("script", []) if isinstance(io, dict) else []):
            eng.count("exc_script_read_kind", r[0] + (": raised" if "err" in o.get("took", {}) or o.get("one", [""])[0] == "r" else ""))
        if "err" in io:
            eng.count("exc_impl_refusal", io["err"])
            return
        nx = io["next"]
        nr = len([o for o in nx if o[0] == "r"])
        eng.count("exc_exceptions_per_reading", min(nr, 6))
        first = next((i for i, o in enumerate(nx) if o[0] == "r"), None)
        after = 0 if first is None else len([o for o in nx[first + 1:] if o[0] == "i"])
        eng.count("exc_items_after_first_exception", "no exception" if first is None else min(after, 6))
        eng.count("exc_end", "StopIteration" if nx[-1:] == [["s"]] else "limit")
        for o in nx:
            if o[0] == "r":
                eng.count("exc_kind", o[1])
        for nd in b.nodes(p):
            if nd["k"] in ("bin", "un"):
                eng.count("exc_dunder_anywhere", nd["d"])
            if nd["k"] == "bin":
                base, refl = b.base_of(nd["d"])
                eng.count("exc_builder_branch", ("rbinary" if refl else "binary") + "/" + ("scalar" if nd["o"]["k"] == "scalar" else "iterable"))
            if nd["k"] == "stream1":
                eng.count("exc_stream_ctor", nd.get("ctor", "Stream"))
            if nd["k"] == "meth":
                eng.count("exc_method", nd["l"])
        for r in io.get("script", []):
            eng.count("exc_script_read", "next" if "one" in r else "take:" + ("raised" if "err" in r["took"] else "ok"))
    else:
        eng.count("excb_func", c["func"])
        eng.count("excb_kind", c["kind"])
        eng.count("excb_route", c.get("route", "pos") + ("+extra" if c.get("after") or c.get("kwargs") else ""))
        if "call_err" in io:
            eng.count("excb_out", "call raised:" + io["call_err"])
        else:
            eng.count("excb_out", io.get("out", "?"))
            if "next" in io:
                nx = io["next"]
                first = next((i for i, o in enumerate(nx) if o[0] == "r"), None)
                eng.count("excb_lazy_reading", "no exception" if first is None else
                          "exception then %s" % ("StopIteration" if nx[first + 1:first + 2] == [["s"]] else "more" if nx[first + 1:] else "limit"))


def nontrivial(c, io):
    if c["entry"] == "exprE":
        return bool(io.get("next"))
    return "err" not in io


def shrink(c):
    """ the candidates' oracle tables are settled here, all together (one driver run per round) """
    cands = list(_shrink(c))[:200]
    try:
        settle(cands)
    except Exception:
        pass
    return cands


def _shrink(c):
    b = B()
    if c["entry"] == "bcastE":
        if len(c["xs"]) > 1 and c["kind"] != "scalar":
            yield dict(c, xs=c["xs"][:-1], bad=[])
            yield dict(c, xs=c["xs"][1:], bad=[])
        for k in ("after", "kwargs"):
            if c.get(k):
                yield dict(c, bad=[], **{k: []})
        return
    base = dict(c, entry="expr", finite=False)
    for q in b.shrink(dict((k, v) for k, v in base.items() if k not in ("bad", "reads", "shape"))):
        if q.get("entry") == "expr" and "prog" in q:
            yield {"entry": "exprE", "prog": q["prog"], "n": q.get("n", c["n"]), "reads": c.get("reads", []), "bad": [],
                   "fam": c.get("fam"), "shape": c.get("shape")}
    if c.get("reads"):
        yield dict(c, reads=c["reads"][:-1])
        yield dict(c, reads=[])


def classify(c, io, drv):
    b = B()
    if c["entry"] == "bcastE":
        head = "bcastE:%s/%s" % (b._kind_class(c["kind"]) if c["kind"] != "iter_list" else "lazy", c.get("route", "pos"))
        if "call_err" in io:
            return head + ":call-raised:" + io["call_err"]
        return head + ":" + ("kind" if io.get("out") != drv.get("spec", {}).get("out") else "outcomes")
    p = c["prog"]
    what = b._op_class(p["d"]) if p["k"] in ("bin", "un") else p["k"] + (":" + p["l"].split(":")[0] if p["k"] == "meth" else "")
    osort = ""
    if p["k"] == "bin":
        osort = "/scalar" if p["o"]["k"] in ("scalar", "ignored") else "/iterable"
    if "err" in io:
        return "exprE:%s%s:refused:%s" % (what, osort, io["err"])
    gen_nodes = [nd for nd in b.nodes(p) if nd["k"] == "meth" and (nd["l"].startswith("attr:") or nd["l"] == "call") and meth_is_gen(nd["l"])]
    nx = io.get("next", [])
    first = next((i for i, o in enumerate(nx) if o[0] == "r"), None)
    spec = drv.get("spec", {})
    if gen_nodes and spec.get("outs") != spec.get("outsP"):
        # the code's reading (generator expressions end at an exception) differs from the property's reading on this input, and
        # the real code does exactly what the code-shaped model says: the recorded finding, wherever the node sits in the tree
        try:
            model_ok = not any(k == "model" for k, _d in compare_expr(c, io, drv))
        except Exception:
            model_ok = False
        if model_ok:
            return "exprE:attribute-or-call:ends-at-first-element-exception"
    if first is not None and nx[first + 1:first + 2] == [["s"]]:
        return "exprE:%s%s:ends-at-first-element-exception" % (what, osort)
    return "exprE:%s%s:wrong-outcome" % (what, osort)


# ------------------------------------------------------------------------------------------------
# entry "meta": any class built with a user's subclass of AbstractOperatorOverloaderMeta
#   case = {"entry": "meta", "ops": [query strings], "without": [query strings], "form": "str" | "list",
#           "have": subset of ["unary", "binary", "rbinary"], "ns": [dunder names bound in the class body]}
# ------------------------------------------------------------------------------------------------
def impl_meta(c):
    import re
    b = B()
    from audiolazy.lazy_core import AbstractOperatorOverloaderMeta as AOM

    def builder(kind):
        def build(cls, op):
            def dunder(self, *a):
                return None
            dunder._made_by = (kind, op.func)
            return dunder
        return build
    as_query = (lambda l: " ".join(l)) if c.get("form", "list") == "str" else list
    mns = {"__operators__": as_query(c["ops"]), "__without__": as_query(c["without"]) if c["without"] else None}
    for kind in c["have"]:
        mns["__%s__" % kind] = builder(kind)
    try:
        M = type(AOM)("M", (AOM,), mns)
        X = M("X", (object,), dict((n, (lambda self, *a: None)) for n in c["ns"]))
    except Exception as e:
        m = re.search(r"operator method '([^']*)'", str(e))
        return {"err": err_kind(e), "op": m.group(1) if m else None}
    inst = []
    for name, f in sorted(vars(X).items()):
        mb = getattr(f, "_made_by", None)
        if mb is not None:
            inst.append({"dname": name, "builder": mb[0], "func": b._opfunc_name(mb[1]), "name_ok": f.__name__ == name})
    return {"installed": inst}


def compare_meta(c, io, drv):
    m = drv["model"]
    head = "class X(metaclass=M), M(__operators__=%r, __without__=%r, builders %r), body binds %r: " % (
        c["ops"], c["without"], c["have"], c["ns"])
    if "err" in m:
        want = {"err": m["err"], "op": m.get("op")}
        got = {"err": io.get("err"), "op": io.get("op")} if "err" in io else "a class"
        return [] if want == got else [("model", head + "model predicts %r, impl: %r" % (want, got))]
    if "err" in io:
        return [("model", head + "impl raised %s (%s), model predicts a class" % (io["err"], io.get("op")))]
    want = sorted(({"dname": d["dname"], "builder": d["builder"], "func": d["func"], "name_ok": True} for d in m["installed"]), key=lambda d: d["dname"])
    if want != io["installed"]:
        diff = [x for x in io["installed"] if x not in want][:2] + [x for x in want if x not in io["installed"]][:2]
        return [("model", head + "dunders made by the builders differ from the model: %r" % diff)]
    return []


def generate_meta(rng, tier, scale=1):
    ops_pool = [["all"], ["+"], ["+", "-"], ["add"], ["__add__", "radd"], ["r"], ["1"], ["2"], ["<", ">="], ["**"], ["~"], ["@"],
                ["div"], ["foo"], [], ["pos", "neg"], ["rshift", "rrshift"], [">>"], ["all", "+"], ["__invert__"], ["rdiv"], ["=="]]
    wo_pool = [[], [], ["r"], ["1"], ["2"], ["+"], ["radd"], ["bogus"], ["rshift"], ["~", "-"], ["all"]]
    ns_pool = [[], [], ["__radd__"], ["__pos__", "__neg__", "__invert__"], ["__add__"], ["__rshift__", "__rrshift__"],
               ["__r%s__" % n for n in B().ARITH], ["__radd__", "__pos__"]]
    kinds = ["unary", "binary", "rbinary"]
    cases = []
    for have in ([], ["binary"], ["unary"], ["rbinary"], ["binary", "rbinary"], ["unary", "binary"], kinds):
        for ops in ops_pool[:8]:
            cases.append({"entry": "meta", "ops": ops, "without": [], "form": "list", "have": have, "ns": []})
    for _ in range((120 if tier == "quick" else 1500) * scale):
        cases.append({"entry": "meta", "ops": rng.choice(ops_pool), "without": rng.choice(wo_pool), "form": rng.choice(["str", "list"]),
                      "have": [k for k in kinds if rng.random() < 0.65], "ns": rng.choice(ns_pool)})
    return cases


# ------------------------------------------------------------------------------------------------
# opget: the lookup API `OpMethod.get(key, without)` against `getOpsK` (model) and the "entries filed under the keys,
# minus those under a `without` key" (spec, theorem opget_spec); keys: {"s": string} | {"f": operator dunder} | {"i": int}
# ------------------------------------------------------------------------------------------------
def _opkey(k):
    import operator
    if "s" in k:
        return k["s"]
    if "f" in k:
        return getattr(operator, k["f"])
    return k["i"]


def _opquery(keys, form, rng_ws=" "):
    vals = [_opkey(k) for k in keys]
    if form == "str" and vals and all(isinstance(v, str) for v in vals):
        return rng_ws.join(vals)
    if form == "bare" and len(vals) == 1:
        return vals[0]
    if form == "tuple":
        return tuple(vals)
    if form == "gen":
        return (v for v in vals)
    return vals


def impl_opget(c):
    from audiolazy.lazy_core import OpMethod
    key = _opquery(c["keys"], c.get("form", "list"), c.get("ws", " "))
    wo = _opquery(c["without"], c.get("wform", "list")) if (c["without"] or c.get("wform") == "list0") else None
    try:
        g = OpMethod.get(key, without=wo)
        res = list(g)
    except Exception as e:
        return {"err": err_kind(e)}
    return {"ops": [[op.dname, op.name, op.symbol] for op in res],
            "all_opmethod": all(isinstance(op, OpMethod) for op in res)}


def compare_opget(c, io, drv):
    out = []
    head = "list(OpMethod.get(%r, without=%r)) [%s/%s]: " % (c["keys"], c["without"], c.get("form", "list"), c.get("wform", "list"))
    for label in ("model", "spec"):
        side = drv[label]
        if "err" in side:
            if io.get("err") != side["err"]:
                out.append((label, head + "%s predicts %s, impl: %r" % (label, side["err"], io.get("err", io.get("ops")))))
        elif "err" in io:
            out.append((label, head + "impl raised %s, %s predicts %r" % (io["err"], label, [o[0] for o in side["ops"]])))
        elif side["ops"] != io["ops"]:
            k = _first_diff(side["ops"], io["ops"])
            out.append((label, head + "differs at #%d: impl %r (%d entries) vs %s %r (%d entries)" % (
                k, io["ops"][k:k + 1], len(io["ops"]), label, side["ops"][k:k + 1], len(side["ops"]))))
    return out


OPGET_STR = ["all", "r", "1", "2", "+", "-", "*", "/", "//", "%", "**", "@", ">>", "<<", "~", "&", "|", "^", "<", "<=", "==", "!=",
             ">", ">="]
OPGET_BAD = ["div", "__div__", "rdiv", "__rdiv__", "foo", "__add", "add__", "3", "0", "", "rlt", "__rlt__", "rpos", "R", "All",
             "__radd", "rrrshift", "abs", "__abs__", "not", "++"]
OPGET_FUNCS_BAD = ["__abs__", "__not__", "__index__", "__concat__", "__contains__", "__iadd__"]


def generate_opget(rng, tier, scale=1):
    from audiolazy.lazy_core import OpMethod
    names = []
    for op in OpMethod.get("all"):
        names += [op.name, op.dname]
    funcs = sorted(set("__%s__" % n for n in B().ARITH) | set(["__lt__", "__le__", "__eq__", "__ne__", "__gt__", "__ge__", "__pos__",
                                                               "__neg__", "__invert__"]))
    import operator
    funcs = [f for f in funcs if hasattr(operator, f)]
    good = [{"s": k} for k in OPGET_STR + names] + [{"f": f} for f in funcs] + [{"i": 1}, {"i": 2}]
    bad = [{"s": k} for k in OPGET_BAD if k.split() == [k]] + [{"f": f} for f in OPGET_FUNCS_BAD] + [{"i": 0}, {"i": 3}, {"i": 35}]
    cases = []
    if scale == 1:
        # exhaustive: every documented key alone (every form), every known-bad key alone, every key as `without` of "all"
        for k in good + bad:
            for form in ("list", "bare", "str"):
                cases.append({"entry": "opget", "keys": [k], "without": [], "form": form, "wform": "list"})
            cases.append({"entry": "opget", "keys": [{"s": "all"}], "without": [k], "form": "bare", "wform": "bare"})
        cases.append({"entry": "opget", "keys": [], "without": [], "form": "list", "wform": "list"})
        cases.append({"entry": "opget", "keys": [], "without": [], "form": "list", "wform": "list0"})
        # the docstring's examples
        for keys, wo in [(["*"], []), ([">>"], []), (["__add__"], []), (["rsub"], []), (["%"], []), (["+"], []), (["<<", ">>"], []),
                         (["<<", ">>"], ["r"]), (["all"], [])]:
            cases.append({"entry": "opget", "keys": [{"s": k} for k in keys], "without": [{"s": k} for k in wo], "form": "str", "wform": "str"})
        cases.append({"entry": "opget", "keys": [{"s": "+"}, {"s": "&"}], "without": [{"f": "__add__"}, {"s": "r"}], "form": "list", "wform": "list"})
        cases.append({"entry": "opget", "keys": [{"i": 2}], "without": [{"s": "-"}, {"s": "+"}, {"s": "*"}, {"s": "%"}, {"s": "r"}],
                      "form": "bare", "wform": "list"})
        cases.append({"entry": "opget", "keys": [{"f": "__add__"}], "without": [], "form": "bare", "wform": "list"})
    for _ in range((250 if tier == "quick" else 4000) * scale):
        nk = rng.choice([1, 2, 2, 3, 4])
        keys = [rng.choice(good) if rng.random() < 0.93 else rng.choice(bad) for _ in range(nk)]
        wo = [rng.choice(good) if rng.random() < 0.93 else rng.choice(bad) for _ in range(rng.choice([0, 0, 1, 1, 2, 3]))]
        cases.append({"entry": "opget", "keys": keys, "without": wo, "form": rng.choice(["list", "str", "tuple", "gen", "bare"]),
                      "wform": rng.choice(["list", "str", "tuple", "bare"]), "ws": rng.choice([" ", "  ", "\t", " \n "])})
    return cases


def tally_opget(eng, c, io):
    eng.count("opget_outcome", ("raised:%s" % io["err"]) if "err" in io else "%d entries" % min(len(io["ops"]), 36))
    for k in c["keys"]:
        eng.count("opget_key_kind", "str" if "s" in k else "func" if "f" in k else "int")
    eng.count("opget_without", len(c["without"]))
    eng.count("opget_form", c.get("form", "list") + "/" + c.get("wform", "list"))
    if "ops" in io and len(io["ops"]) != len(set(tuple(o) for o in io["ops"])):
        eng.count("opget_duplicates", "an entry matched twice comes twice")


def tally_meta(eng, c, io):
    eng.count("meta_builders", "+".join(c["have"]) or "none")
    eng.count("meta_outcome", ("raised:%s" % io["err"]) if "err" in io else "class with %s dunders" % min(len(io["installed"]), 35))
    eng.count("meta_query", " ".join(c["ops"]) or "(empty)")


# ------------------------------------------------------------------------------------------------
# the element functions lazy_math DEFINES itself (log, log1p, log10, log2, factorial, dB10, dB20, sign), incl. their error
# branches, against an independent oracle written here from their docstrings / the mathematics (values through math / cmath,
# tolerance 1e-12).  Not modelled in Lean (the Lean model is about wiring, not about python's numbers): a structural check.
# ------------------------------------------------------------------------------------------------
def _oracle_log(x, base=None):
    import cmath
    import math
    if base is not None and (base <= 0 or base == 1):
        raise ValueError("invalid base")
    if x == 0:
        return -float("inf")
    if isinstance(x, complex) or x < 0:
        return cmath.log(x) if base is None else cmath.log(x) / cmath.log(base)
    return math.log(x) if base is None else math.log(x) / math.log(base)


def _oracle_factorial(n):
    if isinstance(n, float) and n.is_integer():
        n = int(n)
    if isinstance(n, bool) or not isinstance(n, int):
        if isinstance(n, bool):
            n = int(n)
        else:
            raise TypeError("non-integer")
    if n < 0:
        raise ValueError("negative")
    r = 1
    for k in range(2, n + 1):
        r *= k
    return r


def _oracle_db(mult):
    import math

    def f(data):
        return mult * math.log10(abs(data)) if data != 0 else -float("inf")
    return f


def _oracle_log1p(x):
    import cmath
    import math
    if x == -1:
        return -float("inf")
    if isinstance(x, complex) or x < -1:
        return cmath.log(1 + x)
    return math.log1p(x)


def _oracle_sign(x):
    return 1 if x > 0 else -1 if x < 0 else 0


def scalar_function_checks():
    b = B()
    X = [1.0, 8.0, 0.5, 0, 0.0, -1.0, -8, 2, 10, 1000, 3 + 4j, -2j, True, Fraction(1, 8), 1e-300, float("inf"), None, "x"]
    BASES = [None, 2, 10, 0.5, 1, 1.0, 0, -2, True, Fraction(1, 2), 1e-9, float("inf")]
    grid = []
    for x in X:
        for base in BASES:
            grid.append(("log", _oracle_log, (x,) if base is None else (x, base)))
            if base is not None:
                grid.append(("ln", _oracle_log, (x, base)))
        grid.append(("log10", lambda v: _oracle_log(v, 10), (x,)))
        grid.append(("log2", lambda v: _oracle_log(v, 2), (x,)))
        grid.append(("log1p", _oracle_log1p, (x,)))
        grid.append(("dB10", _oracle_db(10), (x,)))
        grid.append(("dB20", _oracle_db(20), (x,)))
        if not isinstance(x, complex):
            grid.append(("sign", _oracle_sign, (x,)))
    for n in [0, 1, 2, 5, 10, 20, -1, -5, 3.0, -2.0, 2.5, True, 0.0, None, "3", Fraction(3), 1 + 0j, 25]:
        grid.append(("factorial", _oracle_factorial, (n,)))

    def run(f, args):
        try:
            return ("v", f(*args))
        except Exception as e:
            return ("r", err_kind(e))

    def same(a, c):
        if a[0] != c[0]:
            return False
        if a[0] == "r":
            return a[1] == c[1]
        u, v = a[1], c[1]
        if isinstance(u, bool) or isinstance(v, bool):
            u, v = int(u), int(v)
        if isinstance(u, (int, Fraction)) and isinstance(v, (int, Fraction)):
            return u == v
        try:
            if u != u and v != v:
                return True
            if u == v:
                return True
            return abs(u - v) <= 1e-12 * max(1.0, abs(u), abs(v))
        except Exception:
            return False
    bad, n = [], 0
    for name, oracle, args in grid:
        try:
            f = b.bfun_scalar(name)
        except Exception as e:
            bad.append("%s: not available (%s)" % (name, err_kind(e)))
            continue
        n += 1
        got, want = run(f, args), run(oracle, args)
        if not same(got, want):
            bad.append("%s%r: impl %r, oracle %r" % (name, args, got, want))
    return n, bad
