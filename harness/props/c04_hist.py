"""C04 — histories: lazily consumed filter outputs, arguments shared / mutated by the caller, several streams.

A history case is

    {"entry": "hist", "shape": <template name>, "steps": [step, …]}

steps (names are strings; every object is built ONCE and then shared by the steps naming it):

    {"op":"new",  "cell":X, "vals":[num…]}                       X = [ … ]           (a caller's python list)
    {"op":"mut",  "cell":X, "how":"set","i":i,"v":num}           X[i] = v            (no-op when out of range)
                            "append","v" | "pop" | "pop0" | "insert0","v" | "assign","vals" (X[:] = …) |
                            "clear" | "reverse" | "extend","vals"
    {"op":"newc", "cell":C, "kind":"list","vals":[num…]}         C = [c0, c1, …]     (coefficient list)
    {"op":"newc", "cell":C, "kind":"dict","pairs":[[k,num]…]}    C = {k: c, …}       (coefficient dict)
    {"op":"mutc", "cell":C, …}                                   list: as "mut"; dict: "set","k","v" | "del","k" |
                                                                 "assign","pairs" (clear + update)
    {"op":"build","f":F, "num":C1, "den":C2, "cls":"ZFilter"|"LinearFilter", "via":"direct"|"poly"|"cast"}
    {"op":"call", "s":S, "f":F, "x":X, "x_as":…, "mem":M|None, "mem_as":…, "zero":num}
                                                                 S = iter(F(<X>, memory=<M>, zero=zero))
    {"op":"take", "s":S, "k":k, "how":"next"|"islice"|"list"}    k more outputs of S (k = BIG: all of them)

Numbers are tagged as in c04.py (int | "p/q" Fraction | {"f": x} float).

Oracle.  The Lean driver entry "hist" (ALV/Model/C04Hist.lean, ALV/Spec/C04Hist.lean) gets the same history in
terms of CONTENTS: each caller mutation is sent as "the list now holds …" (the mirror kept by `walk`, pristine
python values that are never handed to the library), a flavoured argument that is a copy made by the caller
(tuple(X), list(X), deque(X)) as a fresh anonymous list.  Model and spec answer every request from the
coefficients at construction, the memory contents at the call and the items the input iterator delivers.
Besides the per-step comparison: after every step every caller object must still equal its mirror (no
argument is modified), every call must generate exactly one source, structurally equal to the model's
(`compile`), a callable memory must be asked exactly once for exactly the needed size.

Isolation.  Every history runs in a child forked from a zygote whose audiolazy is freshly imported, so a
failing history is self-contained: it fails on pristine library state (no cache / module state left by
earlier cases of the run can produce or hide it), and its replay reproduces.
"""
import importlib
import itertools
import json
import os
from fractions import Fraction

import common
from common import enc, dec, err_kind

BIG = 10 ** 6      # "all the remaining outputs"


def _base():
    return importlib.import_module("props.c04")


def _cx():
    return importlib.import_module("props.c04_cx")


def val(j):
    if isinstance(j, dict):
        if "f" in j:
            return float(j["f"])
        return _cx().val(j)                  # {"c": [re, im]} complex | {"b": bool}   (entry "ghist")
    if isinstance(j, str):
        return Fraction(j)
    return int(j)


def exact(j):
    if isinstance(j, dict) and "f" not in j:
        return _cx().exact(j)                # a Gaussian rational: bare when im = 0, else [re, im]
    return enc(val(j))


# ---------------------------------------------------------------------------------------------
# mutations (the same code drives the real object and its mirror)
# ---------------------------------------------------------------------------------------------
def _mut_list(l, st, conv):
    how = st["how"]
    if how == "set":
        if 0 <= st["i"] < len(l):
            l[st["i"]] = conv(st["v"])
    elif how == "append":
        l.append(conv(st["v"]))
    elif how == "pop":
        if l:
            l.pop()
    elif how == "pop0":
        if l:
            l.pop(0)
    elif how == "insert0":
        l.insert(0, conv(st["v"]))
    elif how == "assign":
        l[:] = [conv(v) for v in st["vals"]]
    elif how == "clear":
        del l[:]
    elif how == "reverse":
        l.reverse()
    elif how == "extend":
        l.extend([conv(v) for v in st["vals"]])


def _mut_dict(d, st, conv):
    """d: a real dict, or the mirror (a dict of tagged values; python dicts keep insertion order)"""
    how = st["how"]
    if how == "set":
        d[st["k"]] = conv(st["v"])
    elif how == "del":
        d.pop(st["k"], None)
    elif how == "assign":
        d.clear()
        for k, v in st["pairs"]:
            d[k] = conv(v)
    elif how == "clear":
        d.clear()


def _ident(x):
    return x


# ---------------------------------------------------------------------------------------------
# the history in terms of contents: driver ops + facts about every step
# ---------------------------------------------------------------------------------------------
X_COPIES = ("tuple", "copy", "deque")          # the caller hands over its own copy of the list


def walk(c):
    """-> {"ops": driver ops, "at": [index in ops of the observation of step i], "facts": [dict per step],
           "streams": {S: {...}}, "filters": {F: {...}}}"""
    ids = {"n": {}, "c": {}, "f": {}, "s": {}}

    def nid(kind, name):
        d = ids[kind]
        if name not in d:
            d[name] = len(d)
        return d[name]

    nums, conts, filts, strms = {}, {}, {}, {}
    ops, at, facts = [], [], []
    anon = [0]
    all_frac = [True]

    def note(vs):
        for v in vs:
            if not isinstance(v, str):
                all_frac[0] = False

    for i, st in enumerate(c["steps"]):
        op = st["op"]
        fact = {"op": op}
        if op == "new":
            nums[st["cell"]] = list(st["vals"])
            note(st["vals"])
            ops.append(["nums", nid("n", st["cell"]), [exact(v) for v in nums[st["cell"]]]])
        elif op == "mut":
            if st["cell"] not in nums:
                at.append(None)
                facts.append({"op": "skip"})
                continue
            _mut_list(nums[st["cell"]], st, _ident)
            note(nums[st["cell"]])
            ops.append(["nums", nid("n", st["cell"]), [exact(v) for v in nums[st["cell"]]]])
            # which live streams does it concern?
            fact["pending_mem"] = sorted(s for s, r in strms.items() if r["live"] and r["mem"] == st["cell"])
            fact["pending_x"] = sorted(s for s, r in strms.items() if r["live"] and r["x"] == st["cell"] and r["x_shared"])
        elif op == "newc":
            if st["kind"] == "list":
                conts[st["cell"]] = {"kind": "list", "vals": list(st["vals"])}
            else:
                d = {}
                for k, v in st["pairs"]:
                    d[k] = v
                conts[st["cell"]] = {"kind": "dict", "d": d}
            ops.append(["coefs", nid("c", st["cell"]), _pairs(conts[st["cell"]])])
        elif op == "mutc":
            if st["cell"] not in conts:
                at.append(None)
                facts.append({"op": "skip"})
                continue
            co = conts[st["cell"]]
            if co["kind"] == "list":
                _mut_list(co["vals"], st, _ident)
            else:
                _mut_dict(co["d"], st, _ident)
            ops.append(["coefs", nid("c", st["cell"]), _pairs(co)])
            fact["built_from"] = sorted(f for f, r in filts.items() if st["cell"] in (r["num"], r["den"]))
        elif op == "build":
            if st["num"] not in conts or st["den"] not in conts:
                at.append(None)
                facts.append({"op": "skip"})
                filts.pop(st["f"], None)
                continue
            tagged = [v for _, v in _tagged_pairs(conts[st["num"]])] + [v for _, v in _tagged_pairs(conts[st["den"]])]
            filts[st["f"]] = {"num": st["num"], "den": st["den"],
                              "coef_exact": all(_coef_exact(v) for v in tagged),
                              "ctypes": sorted({_ctype(v) for v in tagged}),
                              "value": json.dumps([_pairs(conts[st["num"]]), _pairs(conts[st["den"]])])}
            ops.append(["build", nid("f", st["f"]), nid("c", st["num"]), nid("c", st["den"])])
        elif op == "call":
            bad = st["f"] not in filts or st["x"] not in nums or (st.get("mem") is not None and st["mem"] not in nums)
            if bad:
                at.append(None)
                facts.append({"op": "skip"})
                strms.pop(st["s"], None)
                continue
            note([st["zero"]])
            x = st["x"]
            shared = st.get("x_as", "list") not in X_COPIES
            if not shared:
                anon[0] += 1
                xid = nid("n", "@anon%d" % anon[0])
                ops.append(["nums", xid, [exact(v) for v in nums[x]]])
            else:
                xid = nid("n", x)
            m = st.get("mem")
            fr = filts[st["f"]]
            fact.update({"f": st["f"], "twice": any(r["f"] == st["f"] for r in strms.values()),
                         "twin_before": [r2["ctypes"] for f2, r2 in filts.items()
                                         if f2 != st["f"] and r2["value"] == fr["value"] and r2["ctypes"] != fr["ctypes"]
                                         and any(r["f"] == f2 for r in strms.values())],
                         "mem_len": None if m is None else len(nums[m]),
                         "x_is_mem": m is not None and m == x})
            strms[st["s"]] = {"f": st["f"], "x": x, "x_shared": shared, "mem": m, "live": True,
                              "zero": st["zero"], "coef_exact": fr["coef_exact"], "call_step": i}
            ops.append(["call", nid("s", st["s"]), nid("f", st["f"]), xid, None if m is None else nid("n", m),
                        exact(st["zero"])])
        elif op == "take":
            if st["s"] not in strms:
                at.append(None)
                facts.append({"op": "skip"})
                continue
            fact["others_live"] = sorted(s for s, r in strms.items() if r["live"] and s != st["s"])
            ops.append(["take", nid("s", st["s"]), st["k"]])
        else:
            raise ValueError("unknown step %r" % (st,))
        at.append(len(ops) - 1)
        facts.append(fact)
    return {"ops": ops, "at": at, "facts": facts, "streams": strms, "filters": filts, "all_frac": all_frac[0]}


def _tagged_pairs(co):
    if co["kind"] == "list":
        return [[k, v] for k, v in enumerate(co["vals"])]
    return [[k, v] for k, v in co["d"].items()]


def _pairs(co):
    return [[k, exact(v)] for k, v in _tagged_pairs(co)]


def _coef_exact(v):
    """is the coefficient formatted into the source as an exact literal?  (int, integer-valued Fraction)"""
    if isinstance(v, dict):
        return False
    return Fraction(val(v)).denominator == 1


def _ctype(v):
    if isinstance(v, dict):
        return "float" if "f" in v else "complex" if "c" in v else "bool"
    return "frac" if isinstance(v, str) else "int"


def request(c):
    return {"entry": c.get("entry", "hist"), "ops": walk(c)["ops"]}


# ---------------------------------------------------------------------------------------------
# the real code (runs in a forked child, on freshly imported audiolazy)
# ---------------------------------------------------------------------------------------------
class _Holder(object):
    def __init__(self, l, log):
        self.l, self.log = l, log

    def get(self, n):
        self.log.append(n)
        return self.l


def _same(real, mirror):
    if type(real) is not list or len(real) != len(mirror):
        return False
    for a, t in zip(real, mirror):
        b = val(t)
        if type(a) is not type(b) or a != b:
            return False
    return True


def _same_dict(real, mirror):
    if type(real) is not dict or list(real.keys()) != list(mirror.keys()):
        return False
    return all(type(real[k]) is type(val(v)) and real[k] == val(v) for k, v in mirror.items())


def _safe_enc(y):
    try:
        if isinstance(y, complex):
            return _cx().genc(_cx().g_of(y))
        return enc(y)
    except Exception:
        return "unencodable:" + type(y).__name__


def run_here(c):
    import functools
    from collections import deque, OrderedDict
    import audiolazy.lazy_filters as lf
    from audiolazy import ZFilter, LinearFilter, Stream, Poly
    base = _base()
    nums, mnums = {}, {}
    conts, mconts = {}, {}
    filts, strms = {}, {}
    obs, modified, reported = [], [], set()
    captured = []
    orig = lf._exec_eval

    def spy(data, expr):
        captured.append(data)
        return orig(data, expr)

    lf._exec_eval = spy
    try:
        for i, st in enumerate(c["steps"]):
            op = st["op"]
            o = {"k": "stored"}
            if op == "new":
                nums[st["cell"]] = [val(v) for v in st["vals"]]
                mnums[st["cell"]] = list(st["vals"])
            elif op == "mut":
                if st["cell"] not in nums:
                    obs.append({"k": "skip"})
                    continue
                _mut_list(nums[st["cell"]], st, val)
                _mut_list(mnums[st["cell"]], st, _ident)
            elif op == "newc":
                if st["kind"] == "list":
                    conts[st["cell"]] = [val(v) for v in st["vals"]]
                    mconts[st["cell"]] = list(st["vals"])
                else:
                    conts[st["cell"]] = dict((k, val(v)) for k, v in st["pairs"])
                    mconts[st["cell"]] = dict((k, v) for k, v in st["pairs"])
            elif op == "mutc":
                if st["cell"] not in conts:
                    obs.append({"k": "skip"})
                    continue
                if isinstance(conts[st["cell"]], list):
                    _mut_list(conts[st["cell"]], st, val)
                    _mut_list(mconts[st["cell"]], st, _ident)
                else:
                    _mut_dict(conts[st["cell"]], st, val)
                    _mut_dict(mconts[st["cell"]], st, _ident)
            elif op == "build":
                if st["num"] not in conts or st["den"] not in conts:
                    filts.pop(st["f"], None)
                    obs.append({"k": "skip"})
                    continue
                n, d = conts[st["num"]], conts[st["den"]]
                cls = LinearFilter if st.get("cls") == "LinearFilter" else ZFilter
                via = st.get("via", "direct")
                try:
                    if via == "poly":
                        filts[st["f"]] = cls(Poly(n), Poly(d))
                    elif via == "cast":
                        filts[st["f"]] = cls(LinearFilter(n, d))
                    elif via == "odict" and isinstance(n, dict) and isinstance(d, dict):
                        filts[st["f"]] = cls(OrderedDict(n), OrderedDict(d))
                    else:
                        filts[st["f"]] = cls(n, d)
                    o = {"k": "ok"}
                except Exception as e:
                    filts.pop(st["f"], None)
                    o = {"k": "err", "err": err_kind(e), "msg": str(e)[:80]}
            elif op == "call":
                if st["f"] not in filts and st["f"] in [s2.get("f") for s2 in c["steps"] if s2["op"] == "build"] \
                        and st["x"] in nums and (st.get("mem") is None or st["mem"] in nums):
                    strms.pop(st["s"], None)
                    obs.append({"k": "unbound"})
                    continue
                if st["f"] not in filts or st["x"] not in nums or (st.get("mem") is not None and st["mem"] not in nums):
                    strms.pop(st["s"], None)
                    obs.append({"k": "skip"})
                    continue
                filt = filts[st["f"]]
                X = nums[st["x"]]
                xa = st.get("x_as", "list")
                xobj = (X if xa == "list" else iter(X) if xa == "iter" else (v for v in X) if xa == "gen"
                        else Stream(X) if xa == "stream" else tuple(X) if xa == "tuple" else list(X) if xa == "copy"
                        else deque(X) if xa == "deque" else X)
                kw = {"zero": val(st["zero"])}
                asked = []
                if st.get("mem") is not None:
                    M = nums[st["mem"]]
                    ma = st.get("mem_as", "list")
                    if ma == "list":
                        mobj = M
                    elif ma == "tuple":
                        mobj = tuple(M)
                    elif ma == "copy":
                        mobj = list(M)
                    elif ma == "gen":
                        mobj = (v for v in M)
                    elif ma == "iter":
                        mobj = iter(M)
                    elif ma == "stream":
                        mobj = Stream(M)
                    elif ma == "deque":
                        mobj = deque(M)
                    elif ma == "callable_same":
                        mobj = lambda n, M=M: (asked.append(n), M)[1]
                    elif ma == "callable_copy":
                        mobj = lambda n, M=M: (asked.append(n), list(M))[1]
                    elif ma == "callable_gen":
                        mobj = lambda n, M=M: (asked.append(n), (v for v in M))[1]
                    elif ma == "callable_tuple":
                        mobj = lambda n, M=M: (asked.append(n), tuple(M))[1]
                    elif ma == "bound":
                        mobj = _Holder(M, asked).get
                    elif ma == "partial":
                        mobj = functools.partial(lambda M, log, n: (log.append(n), M)[1], M, asked)
                    else:
                        mobj = M
                    kw["memory"] = mobj
                n0 = len(captured)
                try:
                    numdict = [[k, _safe_enc(v)] for k, v in sorted(filt.numdict.items())]
                    dendict = [[k, _safe_enc(v)] for k, v in sorted(filt.dendict.items())]
                    res = filt(xobj, **kw)
                    strms[st["s"]] = iter(res)
                    srcs = captured[n0:]
                    o = {"k": "ok", "n_exec": len(srcs), "numdict": numdict, "dendict": dendict,
                         "src": srcs[-1] if srcs else None,
                         "ir": base.parse_source(srcs[-1]) if srcs else {"kind": "unparsed", "why": "no source generated at this call"},
                         "asked": asked, "callable_mem": st.get("mem_as", "list") in
                         ("callable_same", "callable_copy", "callable_gen", "callable_tuple", "bound", "partial")
                         and st.get("mem") is not None}
                except Exception as e:
                    strms.pop(st["s"], None)
                    o = {"k": "err", "err": err_kind(e), "msg": str(e)[:80]}
            elif op == "take":
                if st["s"] not in strms:
                    obs.append({"k": "unbound" if any(s2["op"] == "call" and s2["s"] == st["s"] for s2 in c["steps"][:i]) else "skip"})
                    continue
                it_ = strms[st["s"]]
                how, k = st.get("how", "next"), st["k"]
                ys, ended = [], False
                try:
                    if how == "list" or k >= BIG:
                        ys = list(it_)
                        ended = True
                    elif how == "islice":
                        ys = list(itertools.islice(it_, k))
                        ended = len(ys) < k
                    else:
                        for _ in range(k):
                            try:
                                ys.append(next(it_))
                            except StopIteration:
                                ended = True
                                break
                    o = {"k": "outs", "ys": [_safe_enc(y) for y in ys], "ended": ended,
                         "float": any(isinstance(y, float) for y in ys),
                         "exact_types": [isinstance(y, (int, Fraction)) and not isinstance(y, bool) for y in ys]}
                except Exception as e:
                    o = {"k": "err", "err": err_kind(e), "msg": str(e)[:80], "got": [_safe_enc(y) for y in ys]}
            obs.append(o)
            # no caller object may have been modified by the library
            for name in sorted(nums):
                if ("n", name) not in reported and not _same(nums[name], mnums[name]):
                    reported.add(("n", name))
                    modified.append({"after_step": i, "obj": name, "kind": "list",
                                     "now": [_safe_enc(v) for v in nums[name]][:12], "should": [exact(v) for v in mnums[name]][:12]})
            for name in sorted(conts):
                okc = _same(conts[name], mconts[name]) if isinstance(mconts[name], list) else _same_dict(conts[name], mconts[name])
                if ("c", name) not in reported and not okc:
                    reported.add(("c", name))
                    modified.append({"after_step": i, "obj": name, "kind": "coefficients", "now": repr(conts[name])[:120]})
    finally:
        lf._exec_eval = orig
    return {"steps": obs, "modified": modified}


# ---- isolation ---------------------------------------------------------------------------------
_ISO = {"zygote": None, "failed": False}


def _fresh_audiolazy():
    import sys
    for k in [k for k in sys.modules if k == "audiolazy" or k.startswith("audiolazy.")]:
        del sys.modules[k]


def _zygote_start():
    if _ISO["zygote"] is not None or _ISO["failed"]:
        return
    try:
        req_r, req_w = os.pipe()
        res_r, res_w = os.pipe()
        pid = os.fork()
    except Exception:
        _ISO["failed"] = True
        return
    if pid:
        os.close(req_r)
        os.close(res_w)
        _ISO["zygote"] = (pid, os.fdopen(req_w, "w"), os.fdopen(res_r, "r"))
        return
    try:                                             # ---- zygote: never runs a case itself
        os.close(req_w)
        os.close(res_r)
        _fresh_audiolazy()
        import audiolazy                              # noqa: pristine; the children inherit it
        _base()
        inp = os.fdopen(req_r, "r")
        while True:
            line = inp.readline()
            if not line:
                break
            child = os.fork()
            if child == 0:
                try:
                    try:
                        cj = json.loads(line)
                        ob = run_here(cj) if cj.get("entry") in ("hist", "ghist") else dict(_base().impl_call(cj), isolated=True)
                    except Exception as e:
                        import traceback
                        ob = {"err": "UNMAPPED:" + err_kind(e), "trace": traceback.format_exc()[-800:]}
                    data = (json.dumps(ob) + "\n").encode()
                    while data:
                        n = os.write(res_w, data)
                        data = data[n:]
                finally:
                    os._exit(0)
            # the child's answer may be larger than the pipe buffer: the parent reads while we wait
            _, status = os.waitpid(child, 0)
            if status != 0:
                os.write(res_w, (json.dumps({"err": "UNMAPPED:child-died", "status": status}) + "\n").encode())
    finally:
        os._exit(0)


def isolated(c):
    """a non-history case as the only case of a fresh process (None when no child can be forked)"""
    _zygote_start()
    z = _ISO["zygote"]
    if z is None:
        return None
    _, out, inp = z
    out.write(json.dumps(c) + "\n")
    out.flush()
    line = inp.readline()
    if not line:
        _ISO["zygote"], _ISO["failed"] = None, True
        return None
    return json.loads(line)


def impl(c):
    _zygote_start()
    z = _ISO["zygote"]
    if z is None:
        return dict(run_here(c), isolated=False)
    _, out, inp = z
    out.write(json.dumps(c) + "\n")
    out.flush()
    line = inp.readline()
    if not line:
        _ISO["zygote"], _ISO["failed"] = None, True
        return dict(run_here(c), isolated=False)
    return json.loads(line)


# ---------------------------------------------------------------------------------------------
# the history as text (for messages)
# ---------------------------------------------------------------------------------------------
def _pv(v):
    x = val(v)
    if isinstance(x, Fraction):
        return "F(%d,%d)" % (x.numerator, x.denominator) if x.denominator != 1 else "F(%d)" % x.numerator
    return repr(x)


def _plist(vs):
    return "[" + ", ".join(_pv(v) for v in vs) + "]"


def describe(c, upto=None):
    out = []
    for i, st in enumerate(c["steps"]):
        if upto is not None and i > upto:
            break
        op = st["op"]
        if op == "new":
            out.append("%s = %s" % (st["cell"], _plist(st["vals"])))
        elif op in ("mut", "mutc"):
            how = st["how"]
            n = st["cell"]
            out.append({"set": lambda: "%s[%s] = %s" % (n, st.get("i", st.get("k")), _pv(st["v"])),
                        "append": lambda: "%s.append(%s)" % (n, _pv(st["v"])),
                        "pop": lambda: "%s.pop()" % n, "pop0": lambda: "%s.pop(0)" % n,
                        "insert0": lambda: "%s.insert(0, %s)" % (n, _pv(st["v"])),
                        "assign": lambda: ("%s[:] = %s" % (n, _plist(st["vals"])) if "vals" in st else
                                           "%s.clear(); %s.update({%s})" % (n, n, ", ".join("%s: %s" % (k, _pv(v)) for k, v in st["pairs"]))),
                        "clear": lambda: "%s.clear()" % n, "reverse": lambda: "%s.reverse()" % n,
                        "extend": lambda: "%s.extend(%s)" % (n, _plist(st["vals"])),
                        "del": lambda: "%s.pop(%s, None)" % (n, st["k"])}[how]())
        elif op == "newc":
            out.append("%s = %s" % (st["cell"], _plist(st["vals"]) if st["kind"] == "list" else
                                    "{" + ", ".join("%s: %s" % (k, _pv(v)) for k, v in st["pairs"]) + "}"))
        elif op == "build":
            arg = {"poly": "Poly(%s), Poly(%s)", "cast": "LinearFilter(%s, %s)", "odict": "OrderedDict(%s), OrderedDict(%s)"}.get(
                st.get("via", "direct"), "%s, %s") % (st["num"], st["den"])
            out.append("%s = %s(%s)" % (st["f"], st.get("cls", "ZFilter"), arg))
        elif op == "call":
            xa = {"list": "%s", "iter": "iter(%s)", "gen": "(v for v in %s)", "stream": "Stream(%s)", "tuple": "tuple(%s)",
                  "copy": "list(%s)", "deque": "deque(%s)"}.get(st.get("x_as", "list"), "%s") % st["x"]
            m = ""
            if st.get("mem") is not None:
                m = ", memory=" + {"list": "%s", "tuple": "tuple(%s)", "copy": "list(%s)", "gen": "(v for v in %s)",
                                   "iter": "iter(%s)", "stream": "Stream(%s)", "deque": "deque(%s)",
                                   "callable_same": "lambda n: %s", "callable_copy": "lambda n: list(%s)",
                                   "callable_gen": "lambda n: (v for v in %s)", "callable_tuple": "lambda n: tuple(%s)",
                                   "bound": "Holder(%s).get", "partial": "partial(lambda l, n: l, %s)"}.get(
                    st.get("mem_as", "list"), "%s") % st["mem"]
            out.append("%s = iter(%s(%s%s, zero=%s))" % (st["s"], st["f"], xa, m, _pv(st["zero"])))
        elif op == "take":
            out.append("list(%s)" % st["s"] if st["k"] >= BIG or st.get("how") == "list" else
                       "list(islice(%s, %d))" % (st["s"], st["k"]) if st.get("how") == "islice" else
                       "[next(%s) for _ in range(%d)]" % (st["s"], st["k"]))
    return "; ".join(out)


# ---------------------------------------------------------------------------------------------
# comparison
# ---------------------------------------------------------------------------------------------
def _problems(c, io, drv):
    """-> list of (kind, code, step index, detail)"""
    base = _base()
    if "err" in io and "steps" not in io:
        return [("model", "harness", -1, "history could not be run: %s %s" % (io["err"], io.get("trace", "")[-300:]))]
    w = walk(c)
    out = []
    cx = c.get("entry") == "ghist"                    # numbers are Gaussian rationals (c04_cx.G)
    X = _cx()
    D = X.gdec if cx else dec
    ys_all = {}     # stream -> spec outputs so far
    callinfo = {}   # stream -> model call observation
    for i, st in enumerate(c["steps"]):
        o = io["steps"][i] if i < len(io["steps"]) else {"k": "missing"}
        j = w["at"][i]
        if j is None:
            if o.get("k") not in ("skip", "unbound"):
                out.append(("model", "harness", i, "step %d not runnable in the model but ran: %r" % (i, o)))
            continue
        mo, so = drv["model"][j], drv["spec"][j]
        op = st["op"]
        if op in ("new", "mut", "newc", "mutc"):
            continue
        if o.get("k") == "err" and op != "take":
            for kind, ref in (("model", mo), ("spec", so)):
                if ref.get("k") != "err" or ref.get("err") != o["err"]:
                    out.append((kind, "%s-raises-%s" % (op, o["err"]), i,
                                "%s raised %s (%s), %s says %s" % (op, o["err"], o.get("msg"), "the model" if kind == "model" else "the property",
                                                                   ref.get("err", ref.get("k")))))
            continue
        if o.get("k") != mo.get("k"):
            out.append(("model", "%s-%s-vs-%s" % (op, o.get("k"), mo.get("k")), i, "%s: impl %s, model %s" % (op, o.get("k"), mo)))
        if o.get("k") != so.get("k"):
            out.append(("spec", "%s-%s-vs-%s" % (op, o.get("k"), so.get("k")), i,
                        "%s: impl %s (%s), the property says %s" % (op, o.get("k"), o.get("err", ""), so.get("err", so.get("k")))))
        if o.get("k") != mo.get("k") or o.get("k") != so.get("k"):
            continue
        if op == "call" and o["k"] == "ok":
            callinfo[st["s"]] = mo
            ys_all[st["s"]] = []
            for name, dense in (("numdict", mo["b"]), ("dendict", mo["a"])):
                want = [[k, v] for k, v in enumerate(dense) if D(v) != 0]
                try:
                    same = [(k, D(v)) for k, v in o[name]] == [(k, D(v)) for k, v in want]
                except Exception:
                    same = False
                if not same:
                    out.append(("model", "call-coefficients", i, "%s of %s at the call is %r, model %r" % (name, st["f"], o[name], want)))
            if o.get("n_exec") != 1 or o["ir"] != mo["ir"]:
                out.append(("model", "call-ir", i, "the call generated %s source(s); impl IR %r, model IR %r; source:\n%s" % (
                    o.get("n_exec"), o["ir"], mo["ir"], o.get("src"))))
            if o.get("callable_mem"):
                # "asked" is what the callable had been asked by the END of the history (when it is asked is not
                # observable through the outputs unless the caller changes its list in between — which the
                # histories do); a stream nothing was requested from need not have asked at all
                lm = len(mo["a"]) - 1
                used = any(s2["op"] == "take" and s2["s"] == st["s"] and s2["k"] > 0 for s2 in c["steps"][i + 1:])
                if o["asked"] != [lm] and (used or o["asked"] != []):
                    out.append(("spec", "call-callable-memory-asked", i,
                                "the callable memory was asked %r, the property says once for the needed size %d" % (o["asked"], lm)))
        if op == "take" and o["k"] == "outs":
            s = st["s"]
            info = callinfo.get(s)
            sr = w["streams"].get(s, {})
            ys_all.setdefault(s, []).extend(D(v) for v in so["ys"])
            # exact regime: integer coefficients are formatted as exact literals and all data are Fractions; the
            # all-zero filter formats the ZERO VALUE into its source (`yield 1/3` is a float)
            zero_lit = info is not None and info.get("ir", {}).get("kind") == "const" and not cx and \
                Fraction(val(sr.get("zero", "0/1"))).denominator != 1
            isexact = bool(sr.get("coef_exact")) and w["all_frac"] and not zero_lit
            for kind, ref in (("model", mo), ("spec", so)):
                d = None
                try:
                    got = [D(v) for v in o["ys"]]
                except Exception:
                    got = None
                    d = "an output is not a number: %r" % (o["ys"][:6],)
                want = [D(v) for v in ref["ys"]]
                if got is not None:
                    if len(got) != len(want):
                        d = "%d outputs instead of %d" % (len(got), len(want))
                    else:
                        if isexact or info is None:
                            tol = [0] * len(want)
                        elif cx:
                            gb, ga, gm = ([X.gdec(v) for v in info[f]] for f in ("b", "a", "mem"))
                            full = ys_all[s]
                            seen = [X.gdec(v) for v in so.get("seen", [])]
                            gz = X.g_of(val(sr["zero"]))
                            tol, mags = X.bounds(gb, ga, gm, gz, seen, full)
                            if all(v.is_gint() for v in gb + ga + gm + seen + [gz]) and ga and ga[0] in (X.G(1), X.G(-1)) \
                                    and (not mags or max(mags) < 2 ** 52):
                                tol = [0] * len(full)         # Gaussian integers, no division: floats are exact too
                            tol = tol[len(full) - len(want):]
                        else:
                            b = [dec(v) for v in info["b"]]
                            a = [dec(v) for v in info["a"]]
                            mem = [dec(v) for v in info["mem"]]
                            full = ys_all[s]
                            tol = base.err_bounds(b, a, mem, dec(exact(sr["zero"])), [dec(v) for v in so.get("seen", [])], full)
                            tol = tol[len(full) - len(want):]
                        et = o.get("exact_types") or [False] * len(got)
                        for n, (g, x, t) in enumerate(zip(got, want, tol)):
                            if g is None or x is None or isinstance(g, float) or isinstance(x, float):
                                d = "non-finite output"
                                break
                            if cx and et[n]:
                                t = 0                          # computed in int / Fraction arithmetic
                            if ((g - x).abs1() if cx else abs(g - x)) > t:
                                d = "output %d of this request is %s instead of %s" % (n, g, x)
                                break
                if d is None and o["ended"] != ref["ended"]:
                    d = "end of the stream %s, expected %s" % ("met" if o["ended"] else "not met", "met" if ref["ended"] else "not met")
                    out.append((kind, "take-ended", i, d))
                elif d is not None:
                    out.append((kind, "take-output", i, d))
        if op == "take" and o.get("k") == "err":
            out.append(("spec", "take-raises-%s" % o["err"], i, "consuming %s raised %s (%s)" % (st["s"], o["err"], o.get("msg"))))
            out.append(("model", "take-raises-%s" % o["err"], i, "consuming %s raised %s" % (st["s"], o["err"])))
    for m in io.get("modified", []):
        out.append(("spec", "argument-modified-" + m["kind"], m["after_step"],
                    "the caller's %s %s was modified by the library (after step %d): %r" % (m["kind"], m["obj"], m["after_step"], m.get("now"))))
    return out


def compare(c, io, drv):
    probs = _problems(c, io, drv)
    if not probs:
        return []
    text = describe(c)
    w = walk(c)
    out = []
    for n, (kind, code, i, d) in enumerate(probs[:6]):
        ctx = _context(c, w, i) if 0 <= i < len(c["steps"]) else ""
        out.append((kind, ("history {%s}: " % text if n == 0 else "") + "step %d (%s%s): %s" % (
            i, code, " after " + ctx if ctx else "", d)))
    return out


def _context(c, w, i):
    """what happened between the call of the stream consumed at step i and step i (for signatures)"""
    st = c["steps"][i]
    if st["op"] != "take":
        return ""
    sr = w["streams"].get(st["s"])
    if not sr:
        return ""
    tags = set()
    for j in range(sr["call_step"] + 1, i):
        f = w["facts"][j]
        sj = c["steps"][j]
        if sj["op"] == "mut":
            if sj["cell"] == sr["mem"]:
                tags.add("memory-list-mutated-after-call")
            if sj["cell"] == sr["x"] and sr["x_shared"]:
                tags.add("input-list-mutated-after-call")
        elif sj["op"] == "mutc" and sj["cell"] in (w["filters"].get(sr["f"], {}).get("num"), w["filters"].get(sr["f"], {}).get("den")):
            tags.add("coefficient-container-mutated-after-call")
        elif sj["op"] == "call":
            tags.add("same-filter-called-again" if sj.get("f") == sr["f"] else "other-filter-called")
        elif sj["op"] == "take" and sj["s"] != st["s"]:
            tags.add("other-stream-consumed")
    cs = c["steps"][sr["call_step"]]
    fact = w["facts"][sr["call_step"]]
    if fact.get("twice"):
        tags.add("filter-called-before")
    if fact.get("twin_before"):
        tags.add("twin-of-other-type-called-before")
    for j in range(0, sr["call_step"]):
        sj = c["steps"][j]
        if sj["op"] == "mutc" and sj["cell"] in (w["filters"].get(sr["f"], {}).get("num"), w["filters"].get(sr["f"], {}).get("den")):
            # only after the build
            bj = max([k for k in range(sr["call_step"]) if c["steps"][k]["op"] == "build" and c["steps"][k]["f"] == sr["f"]] or [-1])
            if j > bj:
                tags.add("coefficient-container-mutated-after-build")
    return "+".join(sorted(tags))


def classify(c, io, drv):
    """signature = the kind of the first step (in history order) that violates the property; the circumstances
    (what was shared / mutated in between) are deliberately not part of it, so that the shrinker may remove
    every step the failure does not need — the minimal history then shows the circumstances itself"""
    probs = _problems(c, io, drv)
    if not probs:
        return "hist:agrees"
    spec = [p for p in probs if p[0] == "spec"] or probs
    kind, code, i, d = min(spec, key=lambda p: p[2])
    return "hist:" + code


def context(c, i):
    """circumstances of the request at step i, for the message of a minimised history"""
    return _context(c, walk(c), i)


def nontrivial(c, io):
    return any(o.get("k") == "outs" and o.get("ys") for o in io.get("steps", []))


# ---------------------------------------------------------------------------------------------
# histograms
# ---------------------------------------------------------------------------------------------
def tally(eng, c, io):
    w = walk(c)
    steps = c["steps"]
    eng.count("hist_shape", c.get("shape", "?"))
    eng.count("hist_steps", min(len(steps), 24) // 4 * 4)
    eng.count("hist_isolated", io.get("isolated", True))
    calls = [s for s in steps if s["op"] == "call"]
    eng.count("hist_calls", len(calls))
    for s in calls:
        eng.count("hist_memory_flavour", "none" if s.get("mem") is None else s.get("mem_as", "list"))
        eng.count("hist_input_flavour", s.get("x_as", "list"))
    for s in steps:
        if s["op"] == "build":
            eng.count("hist_build", "%s/%s" % (s.get("cls", "ZFilter"), s.get("via", "direct")))
        if s["op"] == "take":
            eng.count("hist_take", "all" if s["k"] >= BIG else s.get("how", "next"))
    shared = set()
    for i, st in enumerate(steps):
        f = w["facts"][i]
        if st["op"] == "mut":
            if f.get("pending_mem"):
                shared.add("memory list mutated between call and consumption")
            if f.get("pending_x"):
                shared.add("input list mutated between call and consumption")
        if st["op"] == "mutc" and f.get("built_from"):
            shared.add("coefficient container mutated after a filter was built from it")
        if st["op"] == "call":
            if f.get("twice"):
                shared.add("same filter object called again")
            if f.get("twin_before"):
                shared.add("equal filter of another coefficient type called before")
            if f.get("x_is_mem"):
                shared.add("one list as input and memory")
            if f.get("mem_len") is not None:
                eng.count("hist_memory_len", f["mem_len"] if f["mem_len"] < 4 else "4+")
        if st["op"] == "take" and f.get("others_live"):
            shared.add("several live streams")
    xs_cells = [s["x"] for s in calls]
    if len(set(xs_cells)) < len(xs_cells):
        shared.add("one input list for several calls")
    ms = [s["mem"] for s in calls if s.get("mem") is not None]
    if len(set(ms)) < len(ms):
        shared.add("one memory list for several calls")
    for s in sorted(shared) or ["nothing"]:
        eng.count("hist_shared", s)
    # interleaving: takes alternate between streams
    order = [s["s"] for s in steps if s["op"] == "take"]
    alt = sum(1 for a, b in zip(order, order[1:]) if a != b)
    eng.count("hist_interleaving", "no" if alt < 2 else "yes")
    ended = sum(1 for o in io.get("steps", []) if o.get("k") == "outs" and o.get("ended"))
    eng.count("hist_stream_ends_seen", min(ended, 3))
    nout = sum(len(o.get("ys", [])) for o in io.get("steps", []) if o.get("k") == "outs")
    eng.count("hist_outputs", "0" if nout == 0 else "1-7" if nout < 8 else "8-31" if nout < 32 else "32+")
    for f, r in w["filters"].items():
        eng.count("hist_coefficient_types", "+".join(r["ctypes"]) or "none")
    for o in io.get("steps", []):
        if o.get("k") == "err":
            eng.count("hist_error", o["err"])


# ---------------------------------------------------------------------------------------------
# generation
# ---------------------------------------------------------------------------------------------
SAMPLE_DENS = [1, 2, 3, 3, 5, 7, 10]
COEF_INTS = [0, 1, -1, 2, -2, 3, -3, 5, 4]
MEM_ALIAS = ["list", "list", "list", "callable_same", "bound", "partial"]
MEM_OTHER = ["tuple", "copy", "gen", "iter", "stream", "deque", "callable_copy", "callable_gen", "callable_tuple"]
X_FLAVOURS = ["list", "list", "list", "iter", "gen", "stream", "tuple", "copy", "deque"]


_MODE = {"cx": False}      # True while the complex histories (entry "ghist") are generated


def _gi(re, im):
    return {"c": [float(re), float(im)]}


CX_COEFS = [0, 1, -1, _gi(0, 1), _gi(0, -1), _gi(1, 1), 2, -2, _gi(0, 2), _gi(1, 0), _gi(-1, 0), _gi(0, 0), _gi(2, -1), {"b": True}, 3]
CX_LEADS = [1, 1, -1, _gi(1, 0), _gi(-1, 0), _gi(0, 1), _gi(0, -1), 2, {"b": True}]


def _frac(rng):
    if _MODE["cx"]:
        r = rng.random()
        if r < 0.7:
            return _gi(rng.randint(-4, 4), rng.randint(-4, 4))
        return rng.randint(-9, 9) if r < 0.9 else "%d/1" % rng.randint(-9, 9)
    return "%d/%d" % (rng.randint(-9, 9), rng.choice(SAMPLE_DENS))


def _samples(rng, n):
    return [_frac(rng) for _ in range(n)]


def _coefs(rng, n, lead_nonzero=False):
    if _MODE["cx"]:
        v = [rng.choice(CX_COEFS) for _ in range(n)]
        if lead_nonzero and v:
            v[0] = rng.choice(CX_LEADS)
        return v
    v = [rng.choice(COEF_INTS) for _ in range(n)]
    if lead_nonzero and v:
        v[0] = rng.choice([1, 1, -1, 2, -2, 3])
    return v


def _twin(v, ctype):
    if ctype == "complex":
        return _gi(val(v), 0)
    if ctype == "float":
        return {"f": float(val(v))}
    if ctype == "frac":
        return "%d/1" % val(v)
    return int(val(v))


class _B(object):
    """history builder: keeps the mirrors so that memories are long enough at the calls"""

    def __init__(self, rng, shape):
        self.rng, self.shape = rng, shape
        self.steps = []
        self.nums, self.conts, self.filts = {}, {}, {}
        self.live = []
        self.n = {"x": 0, "m": 0, "b": 0, "a": 0, "f": 0, "s": 0}

    def name(self, p):
        self.n[p] += 1
        return "%s%d" % (p, self.n[p] - 1)

    def new(self, p, vals):
        c = self.name(p)
        self.nums[c] = list(vals)
        self.steps.append({"op": "new", "cell": c, "vals": list(vals)})
        return c

    def mut(self, c, **kw):
        st = dict({"op": "mut", "cell": c}, **kw)
        _mut_list(self.nums[c], st, _ident)
        self.steps.append(st)

    def newc(self, p, kind, data):
        c = self.name(p)
        if kind == "list":
            self.conts[c] = {"kind": "list", "vals": list(data)}
            self.steps.append({"op": "newc", "cell": c, "kind": "list", "vals": list(data)})
        else:
            self.conts[c] = {"kind": "dict", "d": dict((k, v) for k, v in data)}
            self.steps.append({"op": "newc", "cell": c, "kind": "dict", "pairs": [list(p_) for p_ in data]})
        return c

    def mutc(self, c, **kw):
        st = dict({"op": "mutc", "cell": c}, **kw)
        co = self.conts[c]
        if co["kind"] == "list":
            _mut_list(co["vals"], st, _ident)
        else:
            _mut_dict(co["d"], st, _ident)
        self.steps.append(st)

    def lm_of(self, den):
        ps = [(k, v) for k, v in _tagged_pairs(self.conts[den]) if val(v) != 0]
        if not ps:
            return 0
        ks = [k for k, _ in ps]
        return max(ks) - min(ks)

    def build(self, num, den, cls=None, via=None):
        f = self.name("f")
        rng = self.rng
        both_dict = self.conts[num]["kind"] == "dict" and self.conts[den]["kind"] == "dict"
        via = via or rng.choice(["direct", "direct", "direct", "poly", "cast"] + (["odict"] if both_dict else []))
        self.filts[f] = {"lm": self.lm_of(den), "num": num, "den": den}
        self.steps.append({"op": "build", "f": f, "num": num, "den": den,
                           "cls": cls or rng.choice(["ZFilter", "ZFilter", "LinearFilter"]), "via": via})
        return f

    def call(self, f, x, mem=None, mem_as="list", x_as="list", zero="0/1"):
        s = self.name("s")
        self.steps.append({"op": "call", "s": s, "f": f, "x": x, "x_as": x_as, "mem": mem, "mem_as": mem_as, "zero": zero})
        self.live.append(s)
        return s

    def take(self, s, k, how=None):
        self.steps.append({"op": "take", "s": s, "k": k, "how": how or ("list" if k >= BIG else self.rng.choice(["next", "next", "islice"]))})

    def case(self):
        return {"entry": "hist", "shape": self.shape, "steps": self.steps}


def _rand_filter(B, rng, kind=None, order=None):
    """containers of a random small filter -> (num cell, den cell)"""
    kind = kind or rng.choice(["list", "list", "list", "dict"])
    la = (order + 1) if order is not None else rng.choice([1, 2, 2, 3, 3, 4])
    lb = rng.choice([0, 1, 2, 2, 3, 4])
    a = _coefs(rng, la, lead_nonzero=True)
    if la > 1 and rng.random() < 0.8:
        a[-1] = rng.choice([1, -1, 2, -2, 3, 5])
    b = _coefs(rng, lb)
    if kind == "list":
        return B.newc("b", "list", b), B.newc("a", "list", a)
    off = rng.choice([0, 0, 0, 1, 2])
    bp = [[k + off, v] for k, v in enumerate(b) if val(v) != 0 or rng.random() < 0.3]
    ap = [[k + off, v] for k, v in enumerate(a) if val(v) != 0 or rng.random() < 0.3]
    rng.shuffle(bp)
    rng.shuffle(ap)
    return B.newc("b", "dict", bp), B.newc("a", "dict", ap)


def _zero(rng):
    if _MODE["cx"]:
        return rng.choice(["0/1", 0, _gi(0, 0), _gi(0, 1), 7, _gi(2, -1), {"f": 0.0}])
    return rng.choice(["0/1", "0/1", "0/1", "7/1", "-5/2", "1/3"])


def _mem_for(B, rng, f, exact_p=0.7):
    lm = B.filts[f]["lm"]
    n = lm if rng.random() < exact_p else lm + rng.choice([1, 2])
    return B.new("m", _samples(rng, n))


def _rand_mut_list(B, rng, c, keep_len=None):
    """a random in-place mutation of the caller's list c (keep_len: never make it shorter than that)"""
    l = B.nums[c]
    choices = ["set", "set", "assign", "assign", "reverse", "append", "insert0", "extend"]
    if keep_len is None or len(l) > keep_len:
        choices += ["pop", "pop0"]
    if keep_len in (None, 0):
        choices += ["clear"]
    how = rng.choice(choices)
    if how == "set":
        if not l:
            how = "append"
        else:
            B.mut(c, how="set", i=rng.randrange(len(l)), v=_frac(rng))
            return
    if how in ("append", "insert0"):
        B.mut(c, how=how, v=_frac(rng))
    elif how == "assign":
        n = len(l) if rng.random() < 0.7 else max(keep_len or 0, len(l) + rng.choice([-1, 1, 2]))
        B.mut(c, how="assign", vals=_samples(rng, max(n, 0)))
    elif how == "extend":
        B.mut(c, how="extend", vals=_samples(rng, rng.randint(1, 3)))
    else:
        B.mut(c, how=how)


def _rand_mut_cont(B, rng, c):
    co = B.conts[c]
    if co["kind"] == "list":
        l = co["vals"]
        how = rng.choice(["set", "set", "assign", "append", "pop", "reverse"])
        if how == "set" and l:
            B.mutc(c, how="set", i=rng.randrange(len(l)), v=rng.choice([2, -3, 5, 7, 0, 1]))
        elif how == "assign":
            B.mutc(c, how="assign", vals=_coefs(rng, max(1, len(l) + rng.choice([0, 0, 1, -1])), lead_nonzero=True))
        elif how == "append":
            B.mutc(c, how="append", v=rng.choice([2, -3, 5, 1]))
        elif how == "pop" and len(l) > 1:
            B.mutc(c, how="pop")
        else:
            B.mutc(c, how="reverse")
    else:
        d = co["d"]
        how = rng.choice(["set", "set", "del", "assign"])
        if how == "set":
            B.mutc(c, how="set", k=rng.choice(list(d.keys()) + [rng.randint(0, 4)]), v=rng.choice([2, -3, 5, 7, 1]))
        elif how == "del" and len(d) > 1:
            B.mutc(c, how="del", k=rng.choice(list(d.keys())))
        else:
            B.mutc(c, how="assign", pairs=[[k, rng.choice([2, -3, 5, 1, -1])] for k in sorted(set(rng.randint(0, 3) for _ in range(3)))])


def _drain(B, rng, streams=None, chunky=True):
    """consume the live streams, interleaved, in random chunks, then completely"""
    live = list(streams if streams is not None else B.live)
    if chunky:
        for _ in range(rng.randint(0, 2 * len(live))):
            B.take(rng.choice(live), rng.choice([0, 1, 1, 2, 3]))
    rng.shuffle(live)
    for s in live:
        if rng.random() < 0.85:
            B.take(s, BIG)
        else:
            B.take(s, rng.choice([8, 12]))


def _h_memalias(rng):
    """the memory list handed over is overwritten by the caller before the output is consumed"""
    B = _B(rng, "memory mutated after call")
    nb, na = _rand_filter(B, rng, order=rng.choice([1, 2, 2, 3]))
    f = B.build(nb, na)
    x = B.new("x", _samples(rng, rng.randint(3, 6)))
    m = _mem_for(B, rng, f, exact_p=0.8)
    alias = rng.random() < 0.75
    s0 = B.call(f, x, mem=m, mem_as=rng.choice(MEM_ALIAS if alias else MEM_OTHER), x_as=rng.choice(X_FLAVOURS), zero=_zero(rng))
    if rng.random() < 0.3:
        B.take(s0, rng.choice([0, 1]))
    for _ in range(rng.choice([1, 1, 2])):
        _rand_mut_list(B, rng, m, keep_len=B.filts[f]["lm"])
    if rng.random() < 0.6:                          # the two-channel schedule: the scratch list is used again
        x2 = x if rng.random() < 0.5 else B.new("x", _samples(rng, rng.randint(3, 6)))
        B.call(f, x2, mem=m, mem_as=rng.choice(MEM_ALIAS + MEM_OTHER), x_as=rng.choice(X_FLAVOURS), zero=_zero(rng))
        if rng.random() < 0.5:
            _rand_mut_list(B, rng, m, keep_len=B.filts[f]["lm"])
    _drain(B, rng)
    return B.case()


def _h_twice(rng):
    """one filter object called several times, every call with its own memory; streams interleaved"""
    B = _B(rng, "same filter called again, interleaved")
    nb, na = _rand_filter(B, rng)
    f = B.build(nb, na)
    xs = [B.new("x", _samples(rng, rng.randint(2, 7))) for _ in range(rng.choice([1, 1, 2]))]
    for _ in range(rng.choice([2, 2, 3])):
        r = rng.random()
        if r < 0.25:
            B.call(f, rng.choice(xs), x_as=rng.choice(X_FLAVOURS), zero=_zero(rng))
        else:
            m = _mem_for(B, rng, f)
            B.call(f, rng.choice(xs), mem=m, mem_as=rng.choice(MEM_ALIAS + MEM_OTHER), x_as=rng.choice(X_FLAVOURS), zero=_zero(rng))
        if rng.random() < 0.5:
            B.take(rng.choice(B.live), rng.choice([1, 2, 3]))
    _drain(B, rng)
    return B.case()


def _h_twins(rng):
    """numerically equal filters of different coefficient types, called in both orders"""
    B = _B(rng, "equal filters of different coefficient types")
    kind = rng.choice(["list", "list", "dict"])
    la, lb = rng.choice([1, 2, 3]), rng.choice([1, 2, 3])
    a = [rng.choice([1, 1, 2, -2, 4])] + [rng.choice([2, -2, 3, -3, 5, 0, 6]) for _ in range(la - 1)]
    b = [rng.choice([2, 3, -3, 5, 6, 0, 7, 12]) for _ in range(lb)]
    if all(v == 0 for v in b):
        b[-1] = 3
    types = rng.choice([["float", "int"], ["int", "float"], ["float", "frac"], ["frac", "float"], ["float", "int", "frac"],
                        ["float", "int", "float"], ["int", "int"], ["int", "frac"]])     # also equal-but-not-identical filters
    if _MODE["cx"]:                          # … and the complex twins `c + 0j` of the real coefficients
        types = rng.choice([["complex", "int"], ["int", "complex"], ["complex", "float"], ["float", "complex"], ["complex", "frac"],
                            ["complex", "int", "complex"], ["int", "complex", "float"], ["complex", "complex"]])
    x = B.new("x", _samples(rng, rng.randint(3, 6)) if not _MODE["cx"] or rng.random() < 0.5
              else ["%d/%d" % (rng.randint(-9, 9), rng.choice(SAMPLE_DENS)) for _ in range(rng.randint(3, 6))])
    fs = []
    for t in types:
        bb, aa = [_twin(v, t) for v in b], [_twin(v, t) for v in a]
        if kind == "list":
            nb, na = B.newc("b", "list", bb), B.newc("a", "list", aa)
        else:
            off = 0
            nb = B.newc("b", "dict", [[k + off, v] for k, v in enumerate(bb) if val(v) != 0])
            na = B.newc("a", "dict", [[k + off, v] for k, v in enumerate(aa) if val(v) != 0])
        fs.append(B.build(nb, na, via=rng.choice(["direct", "direct", "poly"])))
    early = rng.random() < 0.5
    for f in fs:
        m = _mem_for(B, rng, f) if rng.random() < 0.6 else None
        s = B.call(f, x, mem=m, mem_as=rng.choice(["list", "tuple", "callable_copy"]), x_as=rng.choice(["list", "tuple", "iter"]),
                   zero=rng.choice(["0/1", "0/1", "7/1", "-2/1"]))
        if early:
            B.take(s, BIG)
    if not early:
        _drain(B, rng, chunky=rng.random() < 0.5)
    return B.case()


def _h_coefmut(rng):
    """the lists / dicts a filter was built from are changed afterwards; a filter built later sees the change"""
    B = _B(rng, "coefficient containers mutated after build")
    nb, na = _rand_filter(B, rng)
    f = B.build(nb, na)
    x = B.new("x", _samples(rng, rng.randint(3, 6)))
    _rand_mut_cont(B, rng, rng.choice([nb, na]))
    m = _mem_for(B, rng, f) if rng.random() < 0.5 else None
    B.call(f, x, mem=m, mem_as=rng.choice(MEM_ALIAS + MEM_OTHER), x_as=rng.choice(X_FLAVOURS), zero=_zero(rng))
    if rng.random() < 0.6:
        _rand_mut_cont(B, rng, rng.choice([nb, na]))
    if rng.random() < 0.6:
        f2 = B.build(nb, na)
        m2 = _mem_for(B, rng, f2) if rng.random() < 0.5 else None
        B.call(f2, x, mem=m2, mem_as=rng.choice(MEM_ALIAS + MEM_OTHER), x_as=rng.choice(X_FLAVOURS), zero=_zero(rng))
    if rng.random() < 0.4:
        B.call(f, x, x_as=rng.choice(X_FLAVOURS), zero=_zero(rng))
    _drain(B, rng)
    return B.case()


def _h_inputmut(rng):
    """the input list is changed while outputs are pending: the list iterator reads it item by item"""
    B = _B(rng, "input list mutated while pending")
    nb, na = _rand_filter(B, rng)
    f = B.build(nb, na)
    x = B.new("x", _samples(rng, rng.randint(3, 6)))
    m = _mem_for(B, rng, f) if rng.random() < 0.5 else None
    if m is not None and rng.random() < 0.25 and len(B.nums[x]) >= B.filts[f]["lm"]:
        m = x                                            # one list as input and as memory
    s = B.call(f, x, mem=m, mem_as=rng.choice(MEM_ALIAS + MEM_OTHER), x_as=rng.choice(X_FLAVOURS), zero=_zero(rng))
    for _ in range(rng.randint(1, 3)):
        if rng.random() < 0.6:
            B.take(rng.choice(B.live), rng.choice([1, 1, 2, 3]))
        _rand_mut_list(B, rng, x)
        if rng.random() < 0.3:
            B.call(f, x, x_as=rng.choice(X_FLAVOURS), zero=_zero(rng))
    _drain(B, rng)
    return B.case()


def _h_random(rng):
    """anything goes"""
    B = _B(rng, "random")
    fs, xs, ms, cs = [], [], [], []
    for _ in range(rng.choice([1, 2])):
        nb, na = _rand_filter(B, rng)
        cs += [nb, na]
        fs.append(B.build(nb, na))
    xs.append(B.new("x", _samples(rng, rng.randint(0, 6))))
    for _ in range(rng.randint(4, 10)):
        r = rng.random()
        if r < 0.3 and len(B.live) < 4:
            f = rng.choice(fs)
            if rng.random() < 0.3:
                xs.append(B.new("x", _samples(rng, rng.randint(0, 6))))
            if rng.random() < 0.6:
                lm = B.filts[f]["lm"]
                ok = [m for m in ms + xs if len(B.nums[m]) >= lm]
                m = rng.choice(ok) if ok and rng.random() < 0.5 else _mem_for(B, rng, f)
                if m not in ms and m not in xs:
                    ms.append(m)
            else:
                m = None
            B.call(f, rng.choice(xs), mem=m, mem_as=rng.choice(MEM_ALIAS + MEM_OTHER), x_as=rng.choice(X_FLAVOURS), zero=_zero(rng))
        elif r < 0.55 and B.live:
            B.take(rng.choice(B.live), rng.choice([0, 1, 1, 2, 3, 5, BIG]))
        elif r < 0.7 and ms:
            _rand_mut_list(B, rng, rng.choice(ms))
        elif r < 0.8:
            _rand_mut_list(B, rng, rng.choice(xs))
        elif r < 0.9:
            _rand_mut_cont(B, rng, rng.choice(cs))
        else:
            i = rng.randrange(len(cs) // 2)
            fs.append(B.build(cs[2 * i], cs[2 * i + 1]))
    if B.live:
        _drain(B, rng, chunky=False)
    return B.case()


def _h_malformed(rng):
    """non-causal / empty-denominator filters and unknown names inside a history"""
    B = _B(rng, "malformed")
    r = rng.random()
    if r < 0.4:
        nb = B.newc("b", "dict", [[rng.choice([-1, -2]), rng.choice([1, 2, 3])], [0, 1]])
        na = B.newc("a", "dict", [[0, 1], [1, rng.choice([2, -1])]])
    elif r < 0.7:
        nb = B.newc("b", "list", _coefs(rng, 2))
        na = B.newc("a", "list", [0] * rng.choice([0, 1, 2]))
    else:
        nb = B.newc("b", "dict", [[0, 1]])
        na = B.newc("a", "dict", [[1, 2], [2, 1]])
        nb2 = nb
    f = B.build(nb, na)
    x = B.new("x", _samples(rng, 3))
    s = B.call(f, x, zero="0/1")
    B.take(s, 2)
    # repaired afterwards: the container is fixed and a new filter is built from it
    if B.conts[na]["kind"] == "list":
        B.mutc(na, how="assign", vals=[1, rng.choice([2, -1])])
    else:
        B.mutc(na, how="assign", pairs=[[0, 1], [1, rng.choice([2, -1])]])
    if B.conts[nb]["kind"] == "dict":
        B.mutc(nb, how="assign", pairs=[[0, 1], [1, 3]])
    f2 = B.build(nb, na)
    s2 = B.call(f2, x, zero="0/1")
    B.take(s, 1)
    B.take(s2, BIG)
    return B.case()


CX_TEMPLATES = [(_h_memalias, 2), (_h_twice, 3), (_h_twins, 4), (_h_coefmut, 2), (_h_inputmut, 1), (_h_random, 2)]
TEMPLATES = [(_h_memalias, 5), (_h_twice, 3), (_h_twins, 3), (_h_coefmut, 3), (_h_inputmut, 3), (_h_random, 4), (_h_malformed, 1)]


def generate(rng, tier, scale=1):
    n = (800 if tier == "quick" else 4500) * scale
    pool = [t for t, wgt in TEMPLATES for _ in range(wgt)]
    out = []
    for i in range(n):
        t = pool[i % len(pool)] if i < 2 * len(pool) else rng.choice(pool)
        out.append(t(rng))
    # complex histories (entry "ghist": the same templates over Q(i): Gaussian-integer coefficients / samples / memories,
    # complex twins `c + 0j` of int / float / Fraction filters in both orders)
    rcx = __import__("random").Random(rng.random())
    ncx = (260 if tier == "quick" else 1300) * scale
    pool_cx = [t for t, wgt in CX_TEMPLATES for _ in range(wgt)]
    _MODE["cx"] = True
    try:
        for i in range(ncx):
            t = pool_cx[i % len(pool_cx)] if i < 2 * len(pool_cx) else rcx.choice(pool_cx)
            h = t(rcx)
            h["entry"] = "ghist"
            out.append(h)
    finally:
        _MODE["cx"] = False
    return out


# ---------------------------------------------------------------------------------------------
# shrinking
# ---------------------------------------------------------------------------------------------
def _simpler_num(v):
    x = val(v)
    outs = []
    if isinstance(v, str):
        if x not in (0, 1):
            outs.append("1/1")
        if x != 0:
            outs.append("0/1")
        if x.denominator != 1 and x != Fraction(1, 3):
            outs.append("1/3")
    elif isinstance(v, dict):
        if x not in (0.0, 1.0, 2.0):
            outs.append({"f": 2.0})
    else:
        if x not in (0, 1, 2):
            outs.append(2)
        if x not in (0, 1):
            outs.append(1)
    return outs


def shrink(c):
    steps = c["steps"]
    n = len(steps)
    # 1. drop a step (anything that named what it created is skipped by both sides)
    for i in range(n - 1, -1, -1):
        yield dict(c, steps=steps[:i] + steps[i + 1:])
    # 2. plainer flavours, smaller requests
    for i, st in enumerate(steps):
        def rep(**kw):
            return dict(c, steps=steps[:i] + [dict(st, **kw)] + steps[i + 1:])
        if st["op"] == "call":
            if st.get("x_as", "list") != "list":
                yield rep(x_as="list")
            if st.get("mem") is not None:
                if st.get("mem_as", "list") != "list":
                    yield rep(mem_as="list")
                yield rep(mem=None)
            if st["zero"] != "0/1":
                yield rep(zero="0/1")
        elif st["op"] == "build":
            if st.get("via", "direct") != "direct":
                yield rep(via="direct")
            if st.get("cls") != "ZFilter":
                yield rep(cls="ZFilter")
        elif st["op"] == "take":
            if st["k"] >= BIG:
                yield rep(k=8, how="next")
                yield rep(k=3, how="next")
            elif st["k"] > 1:
                yield rep(k=st["k"] - 1)
                yield rep(k=1)
            if st.get("how") not in ("next", None) and st["k"] < BIG:
                yield rep(how="next")
        elif st["op"] in ("new", "newc") or (st["op"] in ("mut", "mutc") and st["how"] in ("assign", "extend")):
            key = "vals" if "vals" in st else "pairs"
            vs = st[key]
            if vs:
                yield rep(**{key: vs[:-1]})
                if len(vs) > 1 and not (key == "vals" and st["op"] == "newc"):
                    yield rep(**{key: vs[1:]})
            for j, v in enumerate(vs):
                if key == "vals":
                    for s_ in _simpler_num(v)[:2]:
                        yield rep(vals=vs[:j] + [s_] + vs[j + 1:])
                else:
                    for s_ in _simpler_num(v[1])[:2]:
                        yield rep(pairs=vs[:j] + [[v[0], s_]] + vs[j + 1:])
        elif st["op"] in ("mut", "mutc") and "v" in st:
            for s_ in _simpler_num(st["v"])[:2]:
                yield rep(v=s_)
        if st["op"] == "mut" and st["how"] not in ("set", "assign"):
            yield rep(how="assign", vals=["1/1"])


def neighbours(c):
    return []
