"""C09 — translator of function BODIES: reads `overlap_add.list` and the `wrapper` / `blk_gen` (window paragraph) of
`stft` from audiolazy/lazy_analysis.py of the repo under test with `ast` (nothing is imported from the repo) and writes
`lean/ALV/Gen/C09Src.lean`: one Lean definition per source paragraph, in the vocabulary of ALV/Model/C09.lean and
ALV/Model/C09Wnd.lean.  `ALV.Props.C09.src_*_is_model` prove each generated definition equal to the hand-written model
function, so every theorem about the model is a theorem about what the source says NOW.

Python subset understood (everything else in a translated function is a TranslationError = broken obligation):
  names, the constants 0 / 0. / 1 / 1. / None / True / False / string literals, `a - b` and `a / b`, `[c] * n`, `l + [c]`,
  `l[a:]` / `l[:a]`, `len`, `ceil`, `max`, `sum`, `abs`, `xmap` / `map`, `xzip(*x)`, `iter`, `list`, `tuple`, `Stream(x).map(f).blocks(h)`,
  generator expressions over one variable, `operator.add` / `operator.mul` aliases, `x is None` / `is not None`, `callable`,
  `isinstance(x, Stream | Iterable)`, `and` / `not`, `!=` / `==` / `>` / `>=` / `<` / `<=`, `if / elif / else`,
  `raise Exc("message")`, `try: … except StopIteration: return`, slice assignment `l[:a] = …` / `l[a:] = …` / `l[:] = …`,
  `for … in …:` with a straight-line body, a `raise` guard and `for el in …: yield el`, dict statements `d.copy()`,
  `d.update(e)`, `d.pop(k[, default])`, `d[k] = v`, `{k: v}`, `k in d`, `for k, v in d.items()`, `k.startswith(s)`, `k[len(s):]`.
"""
import ast
import os

import common

GEN_REL = os.path.join("ALV", "Gen", "C09Src.lean")
SRC_REL = os.path.join("audiolazy", "lazy_analysis.py")


class TranslationError(Exception):
    pass


def fail(msg, node=None):
    where = " (line %d)" % node.lineno if node is not None and hasattr(node, "lineno") else ""
    raise TranslationError(msg + where)


def D(node):
    """structural text of a node (Load / Store contexts are not told apart)"""
    if not isinstance(node, ast.AST):
        return repr([D(n) for n in node])
    return ast.dump(node).replace("ctx=Store()", "ctx=Load()")


def P(src, mode="exec"):
    """ast of a pattern: a statement (mode exec) or an expression (mode eval)"""
    t = ast.parse(src, mode=mode)
    return t.body if mode == "eval" else t.body[0]


def same(node, src, mode="exec"):
    return D(node) == D(P(src, mode))


def need(node, src, what, mode="exec"):
    if not same(node, src, mode):
        fail("%s: expected `%s`, found `%s`" % (what, src.replace("\n", "; "), ast.unparse(node).replace("\n", "; ")[:160]), node)


def body_of(fn):
    b = list(fn.body)
    if b and isinstance(b[0], ast.Expr) and isinstance(b[0].value, ast.Constant) and isinstance(b[0].value.value, str):
        b = b[1:]          # docstring
    return b


# ------------------------------------------------------------------------------------------------------------------
# finding the functions
# ------------------------------------------------------------------------------------------------------------------
def _strategy(dec, dname):
    if (isinstance(dec, ast.Call) and isinstance(dec.func, ast.Attribute) and dec.func.attr == "strategy"
            and isinstance(dec.func.value, ast.Name) and dec.func.value.id == dname):
        return [a.value for a in dec.args if isinstance(a, ast.Constant)]
    return None


def find_functions(tree):
    ola = stft = None
    for node in tree.body:
        if isinstance(node, ast.FunctionDef):
            for dec in node.decorator_list:
                if "list" in (_strategy(dec, "overlap_add") or []):
                    if ola is not None:
                        fail("two overlap_add.list strategies", node)
                    ola = node
                if "rfft" in (_strategy(dec, "stft") or []):
                    if stft is not None:
                        fail("two stft.rfft strategies", node)
                    stft = node
    if ola is None:
        fail("strategy overlap_add.list not found")
    if stft is None:
        fail("strategy stft.rfft not found")
    if [D(d) for d in ola.decorator_list] != [D(P('overlap_add.strategy("list")', "eval")), D(P("tostream", "eval"))]:
        fail("decorators of overlap_add.list changed", ola)
    wrapper = [n for n in body_of(stft) if isinstance(n, ast.FunctionDef) and n.name == "wrapper"]
    if len(wrapper) != 1:
        fail("stft: nested function `wrapper` not found", stft)
    blk_gen = [n for n in body_of(wrapper[0]) if isinstance(n, ast.FunctionDef) and n.name == "blk_gen"]
    if len(blk_gen) != 1:
        fail("stft.wrapper: nested function `blk_gen` not found", wrapper[0])
    return ola, stft, wrapper[0], blk_gen[0]


# ------------------------------------------------------------------------------------------------------------------
# errors
# ------------------------------------------------------------------------------------------------------------------
ERRS = {("TypeError", "Window should be an iterable or a callable"): ".windowType",
        ("ValueError", "Incompatible window size"): ".windowSize",
        ("ValueError", "Wrong block size or declared"): ".blockSize"}
PLAN_ERRS = {("TypeError", "Missing 'size' argument"): ".missingSize",
             ("ValueError", "Hop value can't be higher than size"): ".hopGtSize"}
PLAN_ERRS_K = {("TypeError", "Extra '{}' argument with no overlap-add strategy"): ".olaOptionWithoutOla",
               ("TypeError", "Unknown '{}' extra argument"): ".unknownKey"}


def raised(node, table, fmt_var=None):
    """`raise Exc("message")` (or `raise Exc("message {}".format(k))` when fmt_var is given) -> Lean constructor"""
    if not (isinstance(node, ast.Raise) and node.cause is None and isinstance(node.exc, ast.Call)
            and isinstance(node.exc.func, ast.Name) and len(node.exc.args) == 1 and not node.exc.keywords):
        fail("not a `raise Exc(message)`", node)
    arg = node.exc.args[0]
    if fmt_var is not None:
        if not (isinstance(arg, ast.Call) and isinstance(arg.func, ast.Attribute) and arg.func.attr == "format"
                and len(arg.args) == 1 and isinstance(arg.args[0], ast.Name) and arg.args[0].id == fmt_var):
            fail("message is not `\"…{}…\".format(%s)`" % fmt_var, node)
        arg = arg.func.value
    if not (isinstance(arg, ast.Constant) and isinstance(arg.value, str)):
        fail("exception message is not a string literal", node)
    key = (node.exc.func.id, arg.value)
    if key not in table:
        fail("exception %s(%r) is not in the model's vocabulary" % key, node)
    return table[key]


CMP = {ast.NotEq: "≠", ast.Eq: "=", ast.Gt: ">", ast.GtE: "≥", ast.Lt: "<", ast.LtE: "≤"}


def cmpop(op, node):
    if type(op) not in CMP:
        fail("comparison operator %s" % type(op).__name__, node)
    return CMP[type(op)]


# ------------------------------------------------------------------------------------------------------------------
# expressions of `overlap_add.list`
# ------------------------------------------------------------------------------------------------------------------
# env: python name -> (lean text, type); types: nat, int, num, list, blocks, iter (a list being consumed), op+ / op*
class Env(dict):
    def fork(self, **kw):
        e = Env(self)
        e.update(kw)
        return e


def const(node):
    v = node.value
    if isinstance(v, bool) or not isinstance(v, (int, float)) or v not in (0, 1):
        fail("constant %r (only 0 and 1 have a meaning over every carrier)" % (v,), node)
    return str(int(v))


def as_int(t):
    text, ty = t
    if ty == "nat":
        return "(%s : Int)" % text
    if ty == "int":
        return text
    fail("%s is not an integer" % text)


def operator_alias(node):
    """`operator.add` / `operator.mul` -> op+ / op*"""
    if same(node, "operator.add", "eval"):
        return "op+"
    if same(node, "operator.mul", "eval"):
        return "op*"
    return None


def expr(node, env):
    """-> (lean text, type, guards) ; guards = conditions (in evaluation order) under which a ZeroDivisionError is raised"""
    if isinstance(node, ast.Name):
        if node.id not in env:
            fail("name `%s` has no meaning here" % node.id, node)
        t = env[node.id]
        return t[0], t[1], []
    if isinstance(node, ast.Constant):
        return const(node), "const", []
    if isinstance(node, ast.Call) and isinstance(node.func, ast.Name) and not node.keywords:
        f, args = node.func.id, node.args
        if f == "len" and len(args) == 1:
            a, ty, g = expr(args[0], env)
            if ty not in ("list", "iter"):
                fail("len() of %s" % ty, node)
            return "%s.length" % a, "nat", g
        if f in ("xmap", "map") and len(args) == 3:
            op = env.get(args[0].id, (None, None))[1] if isinstance(args[0], ast.Name) else operator_alias(args[0])
            if op not in ("op+", "op*"):
                fail("xmap with a function that is not operator.add / operator.mul", node)
            a, ta, ga = expr(args[1], env)
            b, tb, gb = expr(args[2], env)
            if ta not in ("list", "iter") or tb not in ("list", "iter"):
                fail("xmap over %s, %s" % (ta, tb), node)
            return "List.zipWith (· %s ·) %s %s" % (op[2], atom(a), atom(b)), "list", ga + gb
        if f == "ceil" and len(args) == 1 and isinstance(args[0], ast.BinOp) and isinstance(args[0].op, ast.Div):
            a, ta, ga = expr(args[0].left, env)
            b, tb, gb = expr(args[0].right, env)
            if ta != "nat" or tb != "nat":
                fail("ceil(a / b) with a, b not both sizes", node)
            return "ceilDiv %s %s" % (a, b), "nat", ga + gb + ["%s = 0" % b]
        if f == "max" and len(args) == 1:
            a, ta, ga = expr(args[0], env)
            if ta != "list":
                fail("max() of %s" % ta, node)
            return "pyMax %s" % atom(a), "optnum", ga
        fail("call of `%s` with %d arguments" % (f, len(args)), node)
    if isinstance(node, ast.BinOp):
        if isinstance(node.op, ast.Sub):
            a = expr(node.left, env)
            b = expr(node.right, env)
            if a[1] in ("nat", "int") and b[1] in ("nat", "int"):
                return "%s - %s" % (as_int(a[:2]), as_int(b[:2])), "int", a[2] + b[2]
            fail("subtraction of %s and %s" % (a[1], b[1]), node)
        if isinstance(node.op, ast.Mult) and isinstance(node.left, ast.List) and len(node.left.elts) == 1:
            c, tc, gc = expr(node.left.elts[0], env)
            n, tn, gn = expr(node.right, env)
            if tn != "nat" or tc not in ("const", "num"):
                fail("[c] * n with n not a size", node)
            return "List.replicate %s %s" % (n, atom(c)), "list", gc + gn
        if isinstance(node.op, ast.Add) and isinstance(node.right, ast.List) and len(node.right.elts) == 1:
            a, ta, ga = expr(node.left, env)
            c, tc, gc = expr(node.right.elts[0], env)
            if ta != "list" or tc != "const":
                fail("l + [c]", node)
            return "%s ++ [%s]" % (atom(a), c), "list", ga + gc
        if isinstance(node.op, ast.Div):
            a, ta, ga = expr(node.left, env)
            b, tb, gb = expr(node.right, env)
            if ta == "const" and tb == "nat":       # 1 / <int>: the carrier's division, ZeroDivisionError on 0
                return "%s / ((%s : Nat) : α)" % (a, b), "num", ga + gb + ["%s = 0" % b]
            if ta == "num" and tb == "num":
                return "%s / %s" % (atom(a), atom(b)), "num", ga + gb
            fail("division of %s by %s" % (ta, tb), node)
        fail("binary operator %s" % type(node.op).__name__, node)
    if isinstance(node, ast.Subscript) and isinstance(node.slice, ast.Slice) and node.slice.step is None:
        a, ta, ga = expr(node.value, env)
        if ta != "list":
            fail("slice of %s" % ta, node)
        lo, hi = node.slice.lower, node.slice.upper
        if lo is not None and hi is None:
            i = expr(lo, env)
            return "pyDrop %s %s" % (atom(a), atom(as_int(i[:2]))), "list", ga + i[2]
        if hi is not None and lo is None:
            i = expr(hi, env)
            return "pyTake %s %s" % (atom(a), atom(as_int(i[:2]))), "list", ga + i[2]
        fail("slice with both or no bounds", node)
    if isinstance(node, ast.GeneratorExp) and len(node.generators) == 1:
        g = node.generators[0]
        if g.ifs or g.is_async or not isinstance(g.target, ast.Name):
            fail("generator expression with a condition / pattern", node)
        src, ts, gs = expr(g.iter, env)
        if ts not in ("list", "blocks"):
            fail("generator expression over %s" % ts, node)
        v = g.target.id
        el, te, ge = expr(node.elt, env.fork(**{v: (v, "num" if ts == "list" else "list")}))
        if ge:
            fail("integer division inside a generator expression", node)
        return "%s.map (fun %s => %s)" % (atom(src), v, el), ts, gs
    fail("expression not understood: %s" % ast.unparse(node)[:80], node)


def atom(s):
    s = s.strip()
    if all(c.isalnum() or c in "_.?'" for c in s) or (s[0] == "(" and s[-1] == ")" and _balanced(s[1:-1])):
        return s
    return "(%s)" % s


def _balanced(s):
    d = 0
    for c in s:
        d += c == "("
        d -= c == ")"
        if d < 0:
            return False
    return d == 0


def chain(node, env):
    """`Stream(x).map(abs).blocks(h).map(tuple)` -> (lean text, type)"""
    if isinstance(node, ast.Call) and isinstance(node.func, ast.Attribute) and not node.keywords and len(node.args) == 1:
        base, tb = chain(node.func.value, env)
        m, arg = node.func.attr, node.args[0]
        if m == "map" and isinstance(arg, ast.Name) and arg.id == "abs" and tb == "list":
            return "(%s.map pyAbs)" % base, "list"
        if m == "map" and isinstance(arg, ast.Name) and arg.id in ("tuple", "list") and tb == "blocks":
            return base, "blocks"
        if m == "blocks" and tb == "list":
            h, th, gh = expr(arg, env)
            if th != "nat":
                fail(".blocks(h) with h not a size", node)
            return "ALV.C08.blocks %s %s (0 : α) %s" % (h, h, base), "blocks"
        fail("Stream method .%s(%s) on %s" % (m, ast.unparse(arg), tb), node)
    if isinstance(node, ast.Call) and isinstance(node.func, ast.Name) and node.func.id == "Stream" and len(node.args) == 1 \
            and not node.keywords:
        a, ta, ga = expr(node.args[0], env)
        if ta != "list":
            fail("Stream(%s)" % ta, node)
        return a, "list"
    fail("not a Stream method chain: %s" % ast.unparse(node)[:80], node)


def target_name(stmt):
    if isinstance(stmt, ast.Assign) and len(stmt.targets) == 1 and isinstance(stmt.targets[0], ast.Name):
        return stmt.targets[0].id
    return None


def is_yield_loop(stmt):
    """`for el in X: yield el` -> X"""
    if (isinstance(stmt, ast.For) and not stmt.orelse and isinstance(stmt.target, ast.Name) and len(stmt.body) == 1
            and isinstance(stmt.body[0], ast.Expr) and isinstance(stmt.body[0].value, ast.Yield)
            and isinstance(stmt.body[0].value.value, ast.Name) and stmt.body[0].value.value.id == stmt.target.id):
        return stmt.iter
    return None


# ------------------------------------------------------------------------------------------------------------------
# `overlap_add.list`, paragraph by paragraph
# ------------------------------------------------------------------------------------------------------------------
def tr_signature(fn):
    a = fn.args
    if a.vararg or a.kwarg or a.kwonlyargs or getattr(a, "posonlyargs", None):
        fail("overlap_add.list: *args / **kwargs / keyword-only parameters", fn)
    names = [p.arg for p in a.args]
    if len(a.defaults) != len(names) - 1 or names[0] != "blk_sig":
        fail("overlap_add.list: first parameter must be `blk_sig` alone without default", fn)
    sig = []
    for n, d in zip(names[1:], a.defaults):
        if not isinstance(d, ast.Constant) or not (d.value is None or isinstance(d.value, bool)):
            fail("default of `%s` is neither None nor a bool" % n, d)
        sig.append((n, ".none" if d.value is None else ".int %d" % int(d.value)))
    if [n for n, _ in sig] != ["size", "hop", "wnd", "normalize"]:
        fail("overlap_add.list: parameters %r are not the fields of ALV.C09.OlaBound" % ([n for n, _ in sig],), fn)
    L = ["/-- def overlap_add(%s) -/" % ast.unparse(a),
         "def olaSig : List (String × PV) :=",
         "  [%s]" % ", ".join('("%s", %s)' % s for s in sig),
         "",
         "def bindOla (d : Dict) : Except String OlaBound :=",
         "  match d.find? (fun kv => decide (kv.1 ∉ [%s])) with" % ", ".join('"%s"' % n for n, _ in sig),
         "  | some kv => .error kv.1"]
    for i, (n, d) in enumerate(sig):
        dd = d if d == ".none" else "(%s)" % d
        L.append("%s%s := (dictGet d \"%s\").getD %s%s" % ("  | none => .ok { " if i == 0 else " " * 18, n, n, dd,
                                                           "," if i < len(sig) - 1 else " }"))
    return L


def tr_detect(stmt):
    need(stmt, "if size is None:\n  blk_sig = Stream(blk_sig)\n  try:\n    size = len(blk_sig.peek())\n"
               "  except StopIteration:\n    return", "overlap_add.list: size detection")
    return ["/-- %s -/" % "; ".join(l.strip() for l in ast.unparse(stmt).splitlines()).replace(":;", ":"),
            "def detectSize (size : Option Nat) (blk_sig : List (List α)) : Option Nat :=",
            "  match size with",
            "  | some size => some size",
            "  | none => blk_sig.head?.map List.length"]


def tr_hop(stmt):
    if not (isinstance(stmt, ast.If) and not stmt.orelse and same(stmt.test, "hop is None", "eval") and len(stmt.body) == 1
            and target_name(stmt.body[0]) == "hop" and isinstance(stmt.body[0].value, ast.Name)):
        fail("overlap_add.list: expected `if hop is None: hop = <name>`", stmt)
    v = stmt.body[0].value.id
    if v != "size":
        fail("overlap_add.list: default hop is `%s`, not a known size" % v, stmt)
    return ["/-- if hop is None: hop = %s -/" % v,
            "def hopDefault (size : Nat) (hop : Option Nat) : Nat :=",
            "  hop.getD %s" % v]


# --- window resolution: `callStep` + a case analysis of the if / elif chain over the three kinds of objects ---------
def tr_callstep(stmt):
    if not (isinstance(stmt, ast.If) and not stmt.orelse and len(stmt.body) == 1):
        fail("window call step: expected `if callable(wnd) and …: wnd = wnd(size)`", stmt)
    need(stmt.body[0], "wnd = wnd(size)", "window call step")
    lits = stmt.test.values if isinstance(stmt.test, ast.BoolOp) and isinstance(stmt.test.op, ast.And) else [stmt.test]
    callable_seen, stream = False, None
    for l in lits:
        if same(l, "callable(wnd)", "eval") and not callable_seen:
            callable_seen = True
        elif same(l, "not isinstance(wnd, Stream)", "eval") and stream is None:
            stream = False
        elif same(l, "isinstance(wnd, Stream)", "eval") and stream is None:
            stream = True
        else:
            fail("window call step: condition `%s` not understood" % ast.unparse(l), l)
    if not callable_seen:
        fail("window call step: the object is called without `callable(wnd)` being tested", stmt)
    if stream is None:
        some = "f size"
    elif stream:
        some = "if wnd.isStream then f size else wnd.asRes"
    else:
        some = "if wnd.isStream then wnd.asRes else f size"
    return ["/-- %s -/" % ast.unparse(stmt).replace("\n   ", ""),
            "def callStep (size : Nat) (wnd : WObj α) : CallRes α :=",
            "  match wnd.call with",
            "  | some f => %s" % some,
            "  | none => wnd.asRes"]


def _wtest(test, case):
    """truth of a condition on `wnd` for case in argnone / pynone / iterable / other"""
    isnone = case in ("argnone", "pynone")
    if same(test, "wnd is not None", "eval"):
        return not isnone
    if same(test, "wnd is None", "eval"):
        return isnone
    if same(test, "isinstance(wnd, Iterable)", "eval"):
        return case == "iterable"
    fail("window resolution: condition `%s` not understood" % ast.unparse(test), test)


def _wrun(stmts, case, st, callstep_dump):
    """symbolic run of the paragraph for one kind of object -> result text or None (fell through).
    argnone: the argument is None; iterable / pynone / other: what a window OBJECT is after the call step"""
    for s in stmts:
        if isinstance(s, ast.If) and any(isinstance(n, ast.Name) and n.id == "callable" for n in ast.walk(s.test)):
            if D(s) != callstep_dump:
                fail("window resolution: the call step differs between overlap_add.list and blk_gen", s)
            if case != "argnone":       # callable(None) is False
                if st["called"] or st["state"] != "obj":
                    fail("window resolution: second call step / call step after list(wnd)", s)
                st["called"] = True
            continue
        if st["state"] == "list" and isinstance(s, ast.If) and not s.orelse and len(s.body) == 1 \
                and isinstance(s.test, ast.Compare) and len(s.test.ops) == 1 and same(s.test.left, "len(wnd)", "eval") \
                and same(s.test.comparators[0], "size", "eval") and isinstance(s.body[0], ast.Raise) and st["check"] is None:
            st["check"] = (cmpop(s.test.ops[0], s), raised(s.body[0], ERRS))
            continue
        if isinstance(s, ast.If):
            if case == "argnone" or st["called"]:
                truth = _wtest(s.test, case)
            elif same(s.test, "wnd is not None", "eval"):
                truth = True
            elif same(s.test, "wnd is None", "eval"):
                truth = False
            else:
                fail("window resolution: test `%s` on the object before the call step" % ast.unparse(s.test), s)
            r = _wrun(s.body if truth else s.orelse, case, st, callstep_dump)
            if r is not None:
                return r
            continue
        if same(s, "wnd = list(wnd)"):
            if case != "iterable" or st["state"] != "obj" or not st["called"]:
                fail("window resolution: list(wnd) of something that is not known to be iterable", s)
            st["state"] = "list"
            continue
        if isinstance(s, ast.Raise):
            return ".error %s" % raised(s, ERRS)
        fail("window resolution: statement not understood: %s" % ast.unparse(s)[:80], s)
    return None


def tr_resolve(name, doc, stmts, callstep_dump):
    res = {}
    for case in ("argnone", "iterable", "pynone", "other"):
        st = {"state": "obj", "called": False, "check": None}
        r = _wrun(stmts, case, st, callstep_dump)
        if case != "argnone" and not st["called"]:
            fail("%s: no call step on the path of a window object" % name)
        if r is None:
            if st["state"] == "list":
                r = ".ok (some wnd)"
                if st["check"]:
                    r = "if wnd.length %s size then .error %s else .ok (some wnd)" % st["check"]
            elif case in ("argnone", "pynone"):
                r = ".ok none"
            else:
                fail("%s: an object that is neither iterable nor None is used as a window" % name)
        res[case] = (r, st["state"])
    L = ["/-- %s -/" % doc,
         "def %s (size : Nat) : PyWnd α → Except Err (Option (List α))" % name,
         "  | .none => %s" % res["argnone"][0],
         "  | .obj wnd =>",
         "    match callStep size wnd with"]
    if res["iterable"][1] == "list":
        L += ["    | .iterable r =>", "      match listStep r with", "      | .ok wnd => %s" % res["iterable"][0],
              "      | .error e => .error e"]
    else:
        L += ["    | .iterable _ => %s" % res["iterable"][0]]
    L += ["    | .pyNone => %s" % res["pynone"][0], "    | .other => %s" % res["other"][0]]
    return L


# --- normalisation ------------------------------------------------------------------------------------------------
def tr_norm(stmt, env):
    if not (isinstance(stmt, ast.If) and same(stmt.test, "normalize", "eval") and not stmt.orelse and len(stmt.body) == 1):
        fail("overlap_add.list: expected `if normalize:` with one if / else inside", stmt)
    inner = stmt.body[0]
    if not (isinstance(inner, ast.If) and same(inner.test, "wnd", "eval") and len(inner.body) == 3 and len(inner.orelse) == 1):
        fail("normalisation: expected `if wnd: steps = …; gain = …; if gain: … else: wnd = …`", inner)
    s_steps, s_gain, s_if = inner.body
    if target_name(s_steps) is None or target_name(s_gain) is None:
        fail("normalisation: two assignments expected before `if gain:`", inner)
    v_steps, v_gain = target_name(s_steps), target_name(s_gain)
    steps, ts = chain(s_steps.value, env)
    if ts != "blocks":
        fail("normalisation: `%s` is not a stream of blocks" % v_steps, s_steps)
    # gain = max(xmap(sum, xzip(*steps)))
    need(s_gain.value, "max(xmap(sum, xzip(*%s)))" % v_steps, "normalisation gain", "eval")
    hop_gain = ["/-- %s; %s -/" % (ast.unparse(s_steps), ast.unparse(s_gain)),
                "def hopGain (hop : Nat) (wnd : List α) : Option α :=",
                "  let %s := %s" % (v_steps, steps),
                "  pyMax ((zipStar %s).map pySum)" % v_steps]
    # if gain: wnd[:] = (w / gain for w in wnd)
    if not (isinstance(s_if, ast.If) and not s_if.orelse and len(s_if.body) == 1 and same(s_if.test, v_gain, "eval")):
        fail("normalisation: expected `if %s:` with one statement" % v_gain, s_if)
    asg = s_if.body[0]
    if not (isinstance(asg, ast.Assign) and len(asg.targets) == 1 and same(asg.targets[0], "wnd[:]", "eval")):
        fail("normalisation: expected `wnd[:] = …`", asg)
    new, tn, gn = expr(asg.value, env.fork(**{v_gain: (v_gain, "num")}))
    if tn != "list" or gn:
        fail("normalisation: the new window is not a list", asg)
    # else: wnd = [1 / ceil(size / hop)] * size
    els = inner.orelse[0]
    if target_name(els) != "wnd":
        fail("normalisation: expected `else: wnd = …`", els)
    rect, tr_, gr = expr(els.value, env)
    if tr_ != "list":
        fail("normalisation: the rectangular window is not a list", els)
    L = hop_gain + [
        "",
        "/-- if normalize: if wnd: … if %s: wnd[:] = … else: wnd = … -/" % v_gain,
        "def normWnd (size hop : Nat) (normalize : Bool) (wnd : Option (List α)) : Except Err (Option (List α)) :=",
        "  if normalize then",
        "    match truthy wnd with",
        "    | some wnd =>",
        "      match hopGain hop wnd with",
        "      | none => .error .maxEmpty",
        "      | some %s => if %s = 0 then .ok (some wnd) else .ok (some (%s))" % (v_gain, v_gain, new),
        "    | none =>"]
    if gr:
        L += ["      if %s then .error .zeroDivision" % " ∨ ".join(gr), "      else .ok (some (%s))" % rect]
    else:
        L += ["      .ok (some (%s))" % rect]
    L += ["  else .ok wnd"]
    return L


# --- window application, loop, flush --------------------------------------------------------------------------------
def tr_loop(apply_stmt, rest, env):
    # if wnd: mul = operator.mul; if len(wnd) != size: raise …; wnd = wnd + [0.]; blk_sig = (… for blk in blk_sig)
    if not (isinstance(apply_stmt, ast.If) and same(apply_stmt.test, "wnd", "eval") and not apply_stmt.orelse):
        fail("overlap_add.list: expected `if wnd:` (window application)", apply_stmt)
    e = env.fork()
    check = None
    new_sig = None
    for s in apply_stmt.body:
        t = target_name(s)
        if t is not None and operator_alias(s.value):
            e[t] = (t, operator_alias(s.value))
        elif isinstance(s, ast.If) and check is None and new_sig is None and not s.orelse and len(s.body) == 1 \
                and isinstance(s.test, ast.Compare) and len(s.test.ops) == 1:
            a, ta, _ = expr(s.test.left, e)
            b, tb, _ = expr(s.test.comparators[0], e)
            if ta != "nat" or tb != "nat":
                fail("window application: comparison of %s and %s" % (ta, tb), s)
            check = ("%s %s %s" % (a, cmpop(s.test.ops[0], s), b), raised(s.body[0], ERRS))
        elif t == "wnd" and new_sig is None:
            w, tw, gw = expr(s.value, e)
            if tw != "list":
                fail("window application: wnd becomes a %s" % tw, s)
            e["wnd"] = (w, "list")
        elif t == "blk_sig" and new_sig is None:
            new_sig, tn, _ = expr(s.value, e)
            if tn != "blocks":
                fail("window application: blk_sig becomes a %s" % tn, s)
        else:
            fail("window application: statement not understood: %s" % ast.unparse(s)[:80], s)
    if check is None or new_sig is None:
        fail("window application: length check or windowed blocks missing", apply_stmt)

    # add = operator.add; mem = [0.] * size; s_h = size - hop; for blk in xmap(iter, blk_sig): …; for el in mem[hop:]: yield el
    e = env.fork()
    outer = {}
    pre = []
    state = init = None
    i = 0
    while i < len(rest) and not isinstance(rest[i], ast.For):
        s = rest[i]
        t = target_name(s)
        if t is None:
            fail("overlap-add loop: statement before the loop not understood: %s" % ast.unparse(s)[:80], s)
        if operator_alias(s.value):
            e[t] = (t, operator_alias(s.value))
        else:
            x, tx, gx = expr(s.value, e)
            if gx:
                fail("overlap-add loop: integer division before the loop", s)
            if tx == "list" and state is None:
                state, init = t, x
                e[t] = (t, "list")
            elif tx == "int":
                pre.append("  let %s : Int := %s" % (t, x))
                e[t] = (t, "int")
                outer[t] = ("(%s)" % x, "int")      # outside the step function the constant is written out
            else:
                fail("overlap-add loop: `%s` is a %s" % (t, tx), s)
        i += 1
    if state is None or len(rest) != i + 2:
        fail("overlap-add loop: expected <assignments>; for …; for el in …: yield el")
    loop, flush = rest[i], rest[i + 1]
    if not (isinstance(loop.target, ast.Name) and not loop.orelse):
        fail("overlap-add loop: loop target", loop)
    blk = loop.target.id
    if same(loop.iter, "xmap(iter, blk_sig)", "eval") or same(loop.iter, "map(iter, blk_sig)", "eval"):
        kind = "iter"
    elif same(loop.iter, "blk_sig", "eval"):
        kind = "list"
    else:
        fail("overlap-add loop: iterates over `%s`" % ast.unparse(loop.iter), loop)
    e[blk] = (blk, kind)
    step = list(pre)
    ntmp = 0
    body = list(loop.body)
    guard = emit = None
    for s in body:
        y = is_yield_loop(s)
        if y is not None:
            if emit is not None:
                fail("overlap-add loop: two yield loops in the body", s)
            emit, te, _ = expr(y, e.fork(**outer))
            continue
        if emit is not None:
            fail("overlap-add loop: statement after the yield loop", s)
        if isinstance(s, ast.If):
            if guard is not None or s.orelse or len(s.body) != 1 or not isinstance(s.test, ast.Compare) or len(s.test.ops) != 1:
                fail("overlap-add loop: expected one `if <comparison>: raise …`", s)
            a, ta, _ = expr(s.test.left, e.fork(**outer))
            b, tb, _ = expr(s.test.comparators[0], e.fork(**outer))
            if ta != "nat" or tb != "nat":
                fail("overlap-add loop: comparison of %s and %s" % (ta, tb), s)
            guard = ("%s %s %s" % (a, cmpop(s.test.ops[0], s), b), raised(s.body[0], ERRS))
            continue
        if guard is not None:
            fail("overlap-add loop: assignment after the size check", s)
        # slice assignment on the state variable
        if not (isinstance(s, ast.Assign) and len(s.targets) == 1 and isinstance(s.targets[0], ast.Subscript)
                and isinstance(s.targets[0].value, ast.Name) and s.targets[0].value.id == state
                and isinstance(s.targets[0].slice, ast.Slice) and s.targets[0].slice.step is None):
            fail("overlap-add loop: expected a slice assignment to `%s`" % state, s)
        lo, hi = s.targets[0].slice.lower, s.targets[0].slice.upper
        uses_blk = [n for n in ast.walk(s.value) if isinstance(n, ast.Name) and n.id == blk]
        if isinstance(s.value, ast.Name) and s.value.id == blk:
            rhs = blk                                  # what the iterator still holds (or the whole list)
        else:
            x, tx, _ = expr(s.value, e)
            if tx != "list":
                fail("overlap-add loop: a %s is assigned to a slice" % tx, s)
            rhs = "t%d" % ntmp
            ntmp += 1
            step.append("  let %s := %s" % (rhs, x))
            if uses_blk and kind == "iter":
                if not (isinstance(s.value, ast.Call) and len(s.value.args) == 3 and same(s.value.args[2], blk, "eval")
                        and len(uses_blk) == 1):
                    fail("overlap-add loop: the block iterator is consumed in a way that is not modelled", s)
                step.append("  let %s := %s.drop %s.length" % (blk, blk, rhs))
        if hi is not None and lo is None:
            b = expr(hi, e)
            step.append("  let %s := %s ++ pyDrop %s %s" % (state, rhs, state, atom(as_int(b[:2]))))
        elif lo is not None and hi is None:
            b = expr(lo, e)
            step.append("  let %s := pyTake %s %s ++ %s" % (state, state, atom(as_int(b[:2])), rhs))
        else:
            fail("overlap-add loop: slice assignment with both or no bounds", s)
    if guard is None or emit is None:
        fail("overlap-add loop: size check or yield loop missing", loop)
    y = is_yield_loop(flush)
    if y is None:
        fail("overlap-add loop: the statement after the loop is not `for el in …: yield el`", flush)
    tail, _, _ = expr(y, e.fork(**outer))
    if init != "List.replicate size 0":
        pass
    L = ["/-- one iteration of `for %s in %s`: the statements before the size check -/" % (blk, ast.unparse(loop.iter)),
         "def olaStep (size hop : Nat) (%s %s : List α) : List α :=" % (state, blk)] + step + ["  %s" % state, "",
         "/-- the `for` loop (check, yields) and the statements after it -/",
         "def olaLoop (size hop : Nat) : List α → List (List α) → Out α",
         "  | %s, [] => ⟨%s, none⟩" % (state, tail),
         "  | %s, %s :: rest =>" % (state, blk),
         "    let %s := olaStep size hop %s %s" % (state, state, blk),
         "    if %s then ⟨[], some %s⟩" % guard,
         "    else",
         "      let r := olaLoop size hop %s rest" % state,
         "      ⟨%s ++ r.out, r.err⟩" % emit, "",
         "/-- if wnd: … ; %s = … ; the loop -/" % state,
         "def olaCore (size hop : Nat) (wnd : Option (List α)) (blk_sig : List (List α)) : Out α :=",
         "  match truthy wnd with",
         "  | some wnd =>",
         "    if %s then ⟨[], some %s⟩" % check,
         "    else olaLoop size hop %s %s" % (atom(init), atom(new_sig)),
         "  | none => olaLoop size hop %s blk_sig" % atom(init)]
    return L


# ------------------------------------------------------------------------------------------------------------------
# `stft`: the keyword logic of `wrapper`
# ------------------------------------------------------------------------------------------------------------------
def _str(node, what):
    if not (isinstance(node, ast.Constant) and isinstance(node.value, str)
            and all(c.isalnum() or c == "_" for c in node.value) and node.value):
        fail("%s is not a plain string literal" % what, node)
    return node.value


def _pop(node, kws, loop_var=None):
    """`kws.pop(key[, default])` -> (key node, default node | None)"""
    if not (isinstance(node, ast.Call) and isinstance(node.func, ast.Attribute) and node.func.attr == "pop"
            and same(node.func.value, kws, "eval") and 1 <= len(node.args) <= 2 and not node.keywords):
        fail("expected `%s.pop(key[, default])`" % kws, node)
    return node.args[0], (node.args[1] if len(node.args) == 2 else None)


def tr_route(loop):
    if not (isinstance(loop, ast.For) and not loop.orelse and same(loop.target, "(k, v)", "eval")
            and same(loop.iter, "kws.items()", "eval") and len(loop.body) == 1 and isinstance(loop.body[0], ast.If)):
        fail("stft.wrapper: expected `for k, v in kws.items(): if …`", loop)
    top = loop.body[0]
    t = top.test
    if not (isinstance(t, ast.Call) and isinstance(t.func, ast.Attribute) and t.func.attr == "startswith"
            and same(t.func.value, "k", "eval") and len(t.args) == 1 and not t.keywords):
        fail("stft.wrapper: expected `if k.startswith(<prefix>)`", top)
    prefix = _str(t.args[0], "prefix")
    if len(top.body) != 1 or len(top.orelse) != 1 or not isinstance(top.body[0], ast.If):
        fail("stft.wrapper: routing loop body", top)
    inner = top.body[0]
    if same(inner.test, "ola is not None", "eval"):
        yes, no = inner.body, inner.orelse
    elif same(inner.test, "ola is None", "eval"):
        yes, no = inner.orelse, inner.body
    else:
        fail("stft.wrapper: expected `if ola is not None`", inner)
    if len(yes) != 1 or len(no) != 1:
        fail("stft.wrapper: routing branches", inner)
    need(yes[0], "ola_params[k[len(%r):]] = v" % prefix, "stft.wrapper: option routing")
    e_no = raised(no[0], PLAN_ERRS_K, "k")
    e_unknown = raised(top.orelse[0], PLAN_ERRS_K, "k")
    pat = " :: ".join("'%s'" % c for c in prefix)
    return ["/-- k.startswith(\"%s\") and k[len(\"%s\"):] -/" % (prefix, prefix),
            "def stripOla (k : String) : Option String :=",
            "  match k.toList with",
            "  | %s :: rest => some (String.ofList rest)" % pat,
            "  | _ => none", "",
            "/-- for k, v in kws.items(): … -/",
            "def routeRest (ola : PV) : Dict → Dict → Except PlanErr Dict",
            "  | [], ola_params => .ok ola_params",
            "  | (k, v) :: rest, ola_params =>",
            "    match stripOla k with",
            "    | some k' =>",
            "      if ola ≠ .none then routeRest ola rest (dictSet ola_params k' v)",
            "      else .error (%s k)" % e_no,
            "    | none => .error (%s k)" % e_unknown]


def tr_wrapper(fn):
    a = fn.args
    if [p.arg for p in a.args] != ["sig"] or a.vararg or a.kwarg is None or a.kwarg.arg != "kwargs" or a.defaults:
        fail("stft.wrapper: signature is not (sig, **kwargs)", fn)
    b = body_of(fn)
    if len(b) < 6:
        fail("stft.wrapper: body too short", fn)
    need(b[0], "kws = kwparams.copy()", "stft.wrapper")
    need(b[1], "kws.update(kwargs)", "stft.wrapper")
    # if "size" not in kws: raise …
    s = b[2]
    if not (isinstance(s, ast.If) and not s.orelse and len(s.body) == 1 and isinstance(s.test, ast.Compare)
            and len(s.test.ops) == 1 and isinstance(s.test.ops[0], ast.NotIn) and same(s.test.comparators[0], "kws", "eval")):
        fail("stft.wrapper: expected `if <key> not in kws: raise …`", s)
    req = _str(s.test.left, "required key")
    e_missing = raised(s.body[0], PLAN_ERRS)
    # if "hop" in kws and kws["hop"] > kws["size"]: raise …
    s = b[3]
    ok = (isinstance(s, ast.If) and not s.orelse and len(s.body) == 1 and isinstance(s.test, ast.BoolOp)
          and isinstance(s.test.op, ast.And) and len(s.test.values) == 2)
    if ok:
        c_in, c_cmp = s.test.values
        ok = (isinstance(c_in, ast.Compare) and len(c_in.ops) == 1 and isinstance(c_in.ops[0], ast.In)
              and same(c_in.comparators[0], "kws", "eval") and isinstance(c_cmp, ast.Compare) and len(c_cmp.ops) == 1)
    if not ok:
        fail("stft.wrapper: expected `if <key> in kws and kws[<key>] > kws[<key>]: raise …`", s)
    opt = _str(c_in.left, "optional key")
    need(c_cmp.left, "kws[%r]" % opt, "stft.wrapper: left side of the comparison", "eval")
    need(c_cmp.comparators[0], "kws[%r]" % req, "stft.wrapper: right side of the comparison", "eval")
    op = cmpop(c_cmp.ops[0], s)
    if op in ("=", "≠"):
        fail("stft.wrapper: == / != between keyword values never raises TypeError; not modelled", s)
    e_cmp = raised(s.body[0], PLAN_ERRS)

    # dictionary statements up to the routing loop
    dicts = {}          # python dict variable -> list of (key, lean value)
    pops = []           # (lean variable, key, lean default)
    sentinels = set()
    ola_seen = False
    i = 4

    def default(node, key):
        if node is None:
            if key != req:
                fail("stft.wrapper: pop(%r) without default may raise KeyError; not modelled" % key)
            return ".none"
        if same(node, "None", "eval"):
            return ".none"
        if isinstance(node, ast.Name) and node.id in sentinels:
            if node.id != "NotSpecified":
                fail("stft.wrapper: sentinel class `%s`" % node.id, node)
            return "notSpecified"
        if same(node, "overlap_add", "eval"):
            return "defaultOla"
        fail("stft.wrapper: default `%s` is not in the model's vocabulary" % ast.unparse(node), node)

    def do_pop(call, key_override=None):
        k, d = _pop(call, "kws")
        key = key_override if key_override is not None else _str(k, "popped key")
        if any(key == p[1] for p in pops):
            fail("stft.wrapper: key %r popped twice" % key, call)
        var = "ola" if False else "p_" + key
        pops.append([var, key, default(d, key)])
        return var, key

    while i < len(b) and not (isinstance(b[i], ast.For) and same(b[i].iter, "kws.items()", "eval")):
        s = b[i]
        i += 1
        if isinstance(s, ast.ClassDef):
            if s.bases and not same(s.bases[0], "object", "eval") or len(s.body) != 1 or not isinstance(s.body[0], ast.Pass) \
                    or s.decorator_list or s.keywords:
                fail("stft.wrapper: sentinel class with a body", s)
            sentinels.add(s.name)
            continue
        if isinstance(s, ast.For):       # for name in [<keys>]: D[name] = kws.pop(name, default)
            if not (isinstance(s.target, ast.Name) and isinstance(s.iter, (ast.List, ast.Tuple)) and len(s.body) == 1
                    and not s.orelse):
                fail("stft.wrapper: loop over keys", s)
            v = s.target.id
            st = s.body[0]
            if not (isinstance(st, ast.Assign) and len(st.targets) == 1 and isinstance(st.targets[0], ast.Subscript)
                    and isinstance(st.targets[0].value, ast.Name) and st.targets[0].value.id in dicts
                    and same(st.targets[0].slice, v, "eval")):
                fail("stft.wrapper: loop over keys: expected `D[%s] = kws.pop(%s, default)`" % (v, v), st)
            k, d = _pop(st.value, "kws")
            need(k, v, "stft.wrapper: loop over keys", "eval")
            for el in s.iter.elts:
                key = _str(el, "key")
                if any(key == p[1] for p in pops):
                    fail("stft.wrapper: key %r popped twice" % key, s)
                pops.append(["p_" + key, key, default(d, key)])
                dicts[st.targets[0].value.id] = _dset(dicts[st.targets[0].value.id], key, "p_" + key)
            continue
        if not (isinstance(s, ast.Assign) and len(s.targets) == 1):
            fail("stft.wrapper: statement not understood: %s" % ast.unparse(s)[:80], s)
        tgt, val = s.targets[0], s.value
        if isinstance(tgt, ast.Name) and isinstance(val, ast.Dict) and len(val.keys) == 1:
            key = _str(val.keys[0], "key")
            var, pk = do_pop(val.values[0])
            if pk != key:
                fail("stft.wrapper: {%r: kws.pop(%r)}" % (key, pk), s)
            dicts[tgt.id] = [(key, var)]
        elif isinstance(tgt, ast.Name) and isinstance(val, ast.Call) and isinstance(val.func, ast.Attribute) \
                and val.func.attr == "copy" and isinstance(val.func.value, ast.Name) and val.func.value.id in dicts \
                and not val.args:
            dicts[tgt.id] = list(dicts[val.func.value.id])
        elif isinstance(tgt, ast.Subscript) and isinstance(tgt.value, ast.Name) and tgt.value.id in dicts:
            key = _str(tgt.slice, "key")
            var, pk = do_pop(val)
            if pk != key:
                fail("stft.wrapper: D[%r] = kws.pop(%r)" % (key, pk), s)
            dicts[tgt.value.id] = _dset(dicts[tgt.value.id], key, var)
        elif isinstance(tgt, ast.Name) and tgt.id == "ola" and not ola_seen:
            var, pk = do_pop(val)
            if pk != "ola":
                fail("stft.wrapper: ola = kws.pop(%r)" % pk, s)
            pops[-1][0] = "ola"
            ola_seen = True
        else:
            fail("stft.wrapper: assignment not understood: %s" % ast.unparse(s)[:80], s)
    if i >= len(b):
        fail("stft.wrapper: routing loop not found", fn)
    if not ola_seen or "blk_params" not in dicts or "ola_params" not in dicts:
        fail("stft.wrapper: `ola`, `blk_params` or `ola_params` is never built", fn)
    if pops[0][1] != req:
        fail("stft.wrapper: the required key is not the first one popped", fn)
    route = tr_route(b[i])
    rest = b[i + 1:]
    if len(rest) != 2 or not isinstance(rest[0], ast.FunctionDef):
        fail("stft.wrapper: expected blk_gen and the dispatch after the routing loop", fn)
    need(rest[1], "if ola is None:\n  return blk_gen(**blk_params)\nelse:\n  return ola(blk_gen(**blk_params), **ola_params)",
         "stft.wrapper: dispatch")
    fmt = lambda d: "[%s]" % ", ".join('("%s", %s)' % kv for kv in d)
    L = route + ["",
         "def stftPlan (kwparams kwargs : Dict) : Except PlanErr Plan :=",
         "  let kws := dictUpdate kwparams kwargs",
         "  match dictGet kws \"%s\" with" % req,
         "  | none => .error %s" % e_missing,
         "  | some c_%s =>" % req,
         "    let guard : Except PlanErr Unit :=",
         "      match dictGet kws \"%s\", c_%s with" % (opt, req),
         "      | some (.int a), .int b => if a %s b then .error %s else .ok ()" % (op, e_cmp),
         "      | some .none, _ => .error .hopNotComparable",
         "      | _, _ => .ok ()",
         "    match guard with",
         "    | .error e => .error e",
         "    | .ok () =>"]
    for var, key, d in pops:
        L.append("      let (%s, kws) := dictPop kws \"%s\" %s" % (var, key, d))
    L += ["      match routeRest ola kws %s with" % fmt(dicts["ola_params"]),
          "      | .error e => .error e",
          "      | .ok ola_params =>",
          "        .ok { blkParams := %s," % fmt(dicts["blk_params"]),
          "              ola := ola, olaParams := ola_params }"]
    return L


def _dset(d, key, var):
    if any(k == key for k, _ in d):
        return [(k, var if k == key else v) for k, v in d]
    return d + [(key, var)]


# ------------------------------------------------------------------------------------------------------------------
# the whole file
# ------------------------------------------------------------------------------------------------------------------
HEADER = """/- GENERATED by harness/props/c09_tr.py from audiolazy/lazy_analysis.py (`overlap_add.list` and the `wrapper` /
   `blk_gen` window paragraph of `stft`, read with `ast`).  Do not edit: rewritten on every check.
   Each definition is the source paragraph named above it, statement by statement, in the vocabulary of
   ALV/Model/C09.lean and ALV/Model/C09Wnd.lean; `ALV.Props.C09.src_*_is_model` proves it equal to the model. -/
import ALV.Model.C09Wnd
namespace ALV.Gen.C09
open ALV.C09
variable {α : Type}
"""

TOP = """def overlapAddListObj (blk_sig : List (List α)) (size hop : Option Nat) (wnd : PyWnd α) (normalize : Bool) : Out α :=
  match detectSize size blk_sig with
  | none => ⟨[], none⟩
  | some size =>
    let hop := hopDefault size hop
    match opaqueItems size wnd with
    | some n => olaOpaque size hop normalize n blk_sig
    | none =>
      match resolveOlaObj size wnd with
      | .error e => ⟨[], some e⟩
      | .ok wnd =>
        match normWnd size hop normalize wnd with
        | .error e => ⟨[], some e⟩
        | .ok wnd => olaCore size hop wnd blk_sig"""

TRANSLATED = [
    ("overlap_add.list (whole body)", "audiolazy/lazy_analysis.py", "shallow",
     ["bindOla", "detectSize", "hopDefault", "callStep", "resolveOlaObj", "hopGain", "normWnd", "olaStep", "olaLoop", "olaCore",
      "overlapAddListObj"]),
    ("stft.wrapper (keyword logic up to the dispatch; blk_gen excluded)", "audiolazy/lazy_analysis.py", "shallow",
     ["stripOla", "routeRest", "stftPlan"]),
    ("stft.wrapper.blk_gen (window paragraph only)", "audiolazy/lazy_analysis.py", "shallow", ["callStep", "resolveStftObj"]),
]
NOT_TRANSLATED = [
    ("stft (partial form: mix_dict / result lambdas)", "lambdas over *dicts / **new_kws and a recursive call of the strategy; modelled "
     "by ALV.C09.stftDefaults and ALV.C09Hist, tied by the partial-history cases"),
    ("stft.wrapper.blk_gen (numpy default imports, trans / itrans lambdas, funcs comprehension, reduce, the two block loops)",
     "higher-order user functions and `from numpy.fft import …` inside the body; modelled by ALV.C09.blkGen / Stages.funcs / process, "
     "tied by the spies of the differential run"),
    ("overlap_add.numpy", "numpy is absent from the sandbox; only `imports numpy first` is tied"),
    ("blocks (lazy_misc.py)", "belongs to C08 (its model ALV.C08.blocks is what `.blocks(hop)` is translated to)"),
    ("opaque window items (ALV.C09.olaOpaque / opaqueItems)", "not source text: a model of WHERE Python's arithmetic on non-numbers "
     "raises; the generated overlapAddListObj calls the model's clause"),
]


def translate(text):
    import warnings
    with warnings.catch_warnings():
        warnings.simplefilter("ignore")        # invalid escape sequences in the repo's docstrings
        tree = ast.parse(text)
    ola, stft, wrapper, blk_gen = find_functions(tree)
    b = body_of(ola)
    if len(b) < 8:
        fail("overlap_add.list: body has %d statements" % len(b), ola)
    env = Env(size=("size", "nat"), hop=("hop", "nat"), wnd=("wnd", "list"), blk_sig=("blk_sig", "blocks"))
    sig = tr_signature(ola)
    detect = tr_detect(b[0])
    hop = tr_hop(b[1])
    # window resolution of overlap_add.list: if wnd is not None: <call step>; <dispatch>
    if not (isinstance(b[2], ast.If) and b[2].body and isinstance(b[2].body[0], ast.If)):
        fail("overlap_add.list: expected the window resolution paragraph", b[2])
    cs_ola = b[2].body[0]
    # … and of blk_gen: the `if` that mentions callable() and the statement after it
    gb = body_of(blk_gen)
    if [p.arg for p in blk_gen.args.args][:3] != ["size", "hop", "wnd"]:
        fail("blk_gen: parameters", blk_gen)
    idx = [i for i, s in enumerate(gb) if isinstance(s, ast.If)
           and any(isinstance(n, ast.Name) and n.id == "callable" for n in ast.walk(s.test))]
    if len(idx) != 1 or idx[0] + 1 >= len(gb):
        fail("blk_gen: window call step not found", blk_gen)
    for s in gb[:idx[0]]:
        if any(isinstance(n, ast.Name) and n.id == "wnd" for n in ast.walk(s)):
            fail("blk_gen: `wnd` is used before its resolution", s)
    for s in gb[idx[0] + 2:]:
        for n in ast.walk(s):
            if isinstance(n, ast.Name) and n.id == "wnd" and isinstance(n.ctx, ast.Store):
                fail("blk_gen: `wnd` is assigned after its resolution", s)
    callstep = tr_callstep(cs_ola)
    r_ola = tr_resolve("resolveOlaObj", "overlap_add.list: " + _oneline(b[2]), [b[2]], D(cs_ola))
    r_stft = tr_resolve("resolveStftObj", "blk_gen: " + _oneline(gb[idx[0] + 1]), gb[idx[0]:idx[0] + 2], D(cs_ola))
    norm = tr_norm(b[3], env)
    loop = tr_loop(b[4], b[5:], env)
    wr = tr_wrapper(wrapper)
    out = [HEADER, "/-! ### `overlap_add.list`: signature -/", ""] + sig + [
        "", "/-! ### `overlap_add.list`: size detection, hop default -/", ""] + detect + [""] + hop + [
        "", "/-! ### window resolution (`overlap_add.list` and `blk_gen` of the stft wrapper) -/", ""] + callstep + [""] + r_ola + [
        ""] + r_stft + ["", "/-! ### `overlap_add.list`: normalisation -/", "", "section gain",
        "variable [Add α] [Neg α] [Div α] [OfNat α 0] [OfNat α 1] [NatCast α] [LT α] [DecidableLT α] [DecidableEq α]", ""] + norm + [
        "end gain", "", "/-! ### `overlap_add.list`: window application, the loop, the flush -/", "", "section loop",
        "variable [Add α] [Mul α] [OfNat α 0]", ""] + loop + ["end loop", "",
        "/-! ### `overlap_add.list`: the paragraphs in source order -/", "", "section top",
        "variable [Add α] [Mul α] [Neg α] [Div α] [OfNat α 0] [OfNat α 1] [NatCast α] [LT α] [DecidableLT α] [DecidableEq α]",
        "", TOP, "end top", "", "/-! ### `stft`: the keyword logic of `wrapper` -/", ""] + wr + ["", "end ALV.Gen.C09", ""]
    return "\n".join(out)


def _oneline(stmt):
    s = " ".join(l.strip() for l in ast.unparse(stmt).splitlines())
    return s.replace("-/", "- /")[:200]


def read_source():
    with open(os.path.join(common.REPO, SRC_REL)) as f:
        return f.read()


def regenerate(eng=None):
    """rewrite lean/ALV/Gen/C09Src.lean from the repo under test; on a translation failure the last COMMITTED file is put
    back (so that the build speaks about the last translatable state) and the error propagates (= broken obligation)"""
    path = os.path.join(common.LEAN, GEN_REL)
    try:
        text = translate(read_source())
    except Exception:
        try:
            import subprocess
            good = subprocess.run(["git", "-C", common.VERIF, "show", "HEAD:lean/" + GEN_REL.replace(os.sep, "/")],
                                  capture_output=True, text=True, timeout=30)
            if good.returncode == 0 and good.stdout and (not os.path.exists(path) or open(path).read() != good.stdout):
                with open(path, "w") as f:
                    f.write(good.stdout)
        except Exception:
            pass
        raise
    old = open(path).read() if os.path.exists(path) else None
    if old != text:
        with open(path, "w") as f:
            f.write(text)
        return "rewritten (%d bytes)" % len(text)
    return "unchanged (%d bytes)" % len(text)


# ------------------------------------------------------------------------------------------------------------------
# self-test: edited copies of the source text
# ------------------------------------------------------------------------------------------------------------------
EDITS = [
    ("loop: mem[hop:] -> mem[:hop] in the add", "mem[:s_h] = xmap(add, mem[hop:], blk)", "mem[:s_h] = xmap(add, mem[:hop], blk)"),
    ("loop: s_h = size + hop", "s_h = size - hop", "s_h = size + hop"),
    ("loop: the two slice assignments reordered",
     "    mem[:s_h] = xmap(add, mem[hop:], blk)\n    mem[s_h:] = blk # Remaining elements",
     "    mem[s_h:] = blk # Remaining elements\n    mem[:s_h] = xmap(add, mem[hop:], blk)"),
    ("loop: iter dropped (blocks no longer consumed)", "for blk in xmap(iter, blk_sig):", "for blk in blk_sig:"),
    ("flush: mem[hop:] -> mem[s_h:]", "for el in mem[hop:]: # No more", "for el in mem[s_h:]: # No more"),
    ("size check: != -> >", "if len(mem) != size:", "if len(mem) > size:"),
    ("normalisation: max -> sum of the strided sums", "gain = max(xmap(sum, xzip(*steps)))", "gain = sum(xmap(sum, xzip(*steps)))"),
    ("normalisation: abs dropped", "steps = Stream(wnd).map(abs).blocks(hop).map(tuple)", "steps = Stream(wnd).blocks(hop).map(tuple)"),
    ("normalisation: blocks(hop) -> blocks(size)", ".map(abs).blocks(hop)", ".map(abs).blocks(size)"),
    ("normalisation: ceil(size / hop) -> ceil(hop / size)", "ceil(size / hop)", "ceil(hop / size)"),
    ("window resolution: `not` dropped", "    if callable(wnd) and not isinstance(wnd, Stream):\n      wnd = wnd(size)\n    if isinstance(wnd, Iterable):\n      wnd = list(wnd)\n    else:",
     "    if callable(wnd) and isinstance(wnd, Stream):\n      wnd = wnd(size)\n    if isinstance(wnd, Iterable):\n      wnd = list(wnd)\n    else:"),
    ("blk_gen: elif wnd is not None -> else", "      elif wnd is not None:\n        raise TypeError(\"Window should be", "      else:\n        raise TypeError(\"Window should be"),
    ("signature: normalize=False", "def overlap_add(blk_sig, size=None, hop=None, wnd=None, normalize=True):\n  \"\"\"\n  Overlap-add algorithm using lists",
     "def overlap_add(blk_sig, size=None, hop=None, wnd=None, normalize=False):\n  \"\"\"\n  Overlap-add algorithm using lists"),
    ("wrapper: hop > size -> hop >= size", 'kws["hop"] > kws["size"]', 'kws["hop"] >= kws["size"]'),
    ("wrapper: prefix ola_ -> ola", 'k.startswith("ola_")', 'k.startswith("ola")'),
    ("wrapper: prefix stripped by lstrip", 'ola_params[k[len("ola_"):]] = v', 'ola_params[k.lstrip("ola_")] = v'),
    ("wrapper: ola_params copied after wnd", '    ola_params = blk_params.copy() # Size and hop\n\n    blk_params["wnd"] = kws.pop("wnd", None)',
     '    blk_params["wnd"] = kws.pop("wnd", None)\n    ola_params = blk_params.copy() # Size and hop\n'),
    ("wrapper: default of ola is None", 'ola = kws.pop("ola", overlap_add)', 'ola = kws.pop("ola", None)'),
    ("wrapper: before / after swapped in the key list", '["transform", "inverse_transform", "before", "after"]',
     '["transform", "inverse_transform", "after", "before"]'),
]
HARMLESS = [
    ("comments, blank lines and a docstring changed", "  # Overlap-add algorithm\n  add = operator.add", "\n  # the loop\n\n  add = operator.add"),
]


def selftest(text=None):
    """-> list of (name, ok, detail)"""
    text = read_source() if text is None else text
    base = translate(text)
    out = []
    for name, old, new in EDITS:
        if text.count(old) < 1:
            out.append((name, False, "the text to edit does not occur in the source"))
            continue
        i = text.index(old, text.index('@overlap_add.strategy("list")')) if old in text[text.index('@overlap_add.strategy("list")'):] \
            else text.index(old)
        edited = text[:i] + new + text[i + len(old):]
        try:
            got = translate(edited)
            ok, detail = got != base, ("different Gen text" if got != base else "SAME Gen text")
        except TranslationError as e:
            ok, detail = True, "TranslationError: %s" % e
        except SyntaxError as e:
            ok, detail = False, "edit is not Python: %s" % e
        out.append((name, ok, detail))
    for name, old, new in HARMLESS:
        if old not in text:
            out.append((name, False, "the text to edit does not occur in the source"))
            continue
        try:
            got = translate(text.replace(old, new, 1))
            out.append((name, got == base, "same Gen text" if got == base else "DIFFERENT Gen text for a harmless edit"))
        except TranslationError as e:
            out.append((name, False, "TranslationError on a harmless edit: %s" % e))
    return out


if __name__ == "__main__":
    import sys
    if len(sys.argv) > 1 and sys.argv[1] == "selftest":
        for r in selftest():
            print(r)
    else:
        sys.stdout.write(translate(read_source()))
