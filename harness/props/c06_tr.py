"""C06 — translator of the hub programs: reads the BODIES of `Poly.__mul__`, `Poly.__truediv__` (lazy_poly.py) and of the
block under `if isinstance(self.denpoly[0], Stream)` of `LinearFilter.__call__` (lazy_filters.py) from the source text of
the repo under test with `ast` (nothing is imported from the repo) and writes them as Lean definitions
`ALV.Gen.C06.mulHub / divHub / divTermHub / gainHub` (`lean/ALV/Gen/C06Src.lean`) in the vocabulary of
`lean/ALV/Model/C06HubSrc.lean`.  `ALV.Props.C06.src_*_is_model` prove them equal to the hand-written hub model.

How: the two Poly methods have a FIXED statement shape, written below as Python templates with metavariables
(`__n_x` = any local name, bound consistently = local names are normalised away; `__e_x` = any expression, bound
consistently; the operator of an augmented assignment is a slot).  The slots (hub counts, which dictionary is thubbed,
which list each loop runs over, key / value expressions, the `+=`) are translated by small expression grammars.  The
Stream-gain block is straight-line code and is translated statement by statement.  Whatever does not fit is a
TranslationError (= broken obligation), never skipped."""
import ast
import os
import warnings

import common

GEN_REL = os.path.join("ALV", "Gen", "C06Src.lean")
TRANSLATED = [
    {"function": "audiolazy/lazy_poly.py: Poly.__mul__", "lean": "ALV.Gen.C06.mulHub", "how": "shallow (template + slots)",
     "theorem": "src_mulHub_is_model"},
    {"function": "audiolazy/lazy_poly.py: Poly.__truediv__ (number / Stream divisor)", "lean": "ALV.Gen.C06.divHub",
     "how": "shallow (template + slots)", "theorem": "src_divHub_is_model"},
    {"function": "audiolazy/lazy_poly.py: Poly.__truediv__ (one-term Poly divisor)", "lean": "ALV.Gen.C06.divTermHub",
     "how": "shallow (template + slots)", "theorem": "src_divTermHub_is_model"},
    {"function": "audiolazy/lazy_filters.py: LinearFilter.__call__, block `if isinstance(self.denpoly[0], Stream)`",
     "lean": "ALV.Gen.C06.gainHub", "how": "shallow (statement by statement, calls the regenerated mulHub)",
     "theorem": "src_gainHub_is_model"},
]
NOT_TRANSLATED = [
    ("LinearFilter.__call__ after the Stream-gain block (memory normalisation, the source text of the generated loop)",
     "builds Python source with str.format and exec's it: covered by translator T3 (the exec'd source is parsed on every "
     "case) and the hand-written model compileTV; not in the statement subset"),
    ("StreamTeeHub.__init__/__iter__, thub, Stream.copy, StreamMeta.__binary__ (lazy_stream.py)",
     "they ARE the vocabulary (thubN, hub use, copyHC, HC.op): mapped by hand, tied by the entry hub on real itertools "
     "objects"),
    ("Poly.__init__ / __setitem__ / __getitem__ / __add__ (lazy_poly.py)",
     "vocabulary (polyOf, delCoef / putCoef, findC) resp. C07's model; dictionary code with isinstance dispatch"),
    ("ZFilter.__add__/__mul__/__truediv__ and friends (lazy_filters.py)", "operator tables built by loops over "
     "closures (C05's slice); the C06 expression model Tree.build is tied by the entry expr"),
]


class TranslationError(Exception):
    pass


def _src(name):
    with open(os.path.join(common.REPO, "audiolazy", name)) as f:
        return f.read()


# ---------------------------------------------------------------------------------------------
# templates with metavariables
# ---------------------------------------------------------------------------------------------
T_MUL = '''
def __mul__(self, other):
  if not isinstance(other, Poly):
    other = Poly(other)
  __n_new = OrderedDict()
  __n_la = [(__n_ka, thub(__n_va, __e_cnt1)) for __n_ka, __n_va in iteritems(__e_src1)]
  __n_lb = [(__n_kb, thub(__n_vb, __e_cnt2)) for __n_kb, __n_vb in iteritems(__e_src2)]
  for __n_k1, __n_v1 in __n_outer:
    for __n_k2, __n_v2 in __n_inner:
      if __e_key in __n_new:
        __n_new[__e_key] += __e_val
      else:
        __n_new[__e_key] = __e_val
  return Poly(__n_new, zero=self.zero)
'''
T_DIV = '''
def __truediv__(self, other):
  if isinstance(other, Poly):
    if len(other) == 1:
      __n_delta, __n_value = next(iteritems(other._data))
      __n_value = thub(__n_value, __e_cntT)
      return Poly(OrderedDict((__e_keyT, __e_valT) for __n_kT, __n_vT in iteritems(self._data)), zero=self.zero)
    elif len(other) == 0:
      raise ZeroDivisionError(__e_msg0)
    raise NotImplementedError(__e_msg1)
  other = thub(other, __e_cntS)
  return Poly(OrderedDict((__e_keyS, __e_valS) for __n_kS, __n_vS in iteritems(self._data)), zero=self.zero)
'''
GAIN_TEST = "isinstance(self.denpoly[0], Stream)"
GAIN_TAIL = "__e_f(seq, memory=memory, zero=zero)"


def _strip_doc(body):
    if body and isinstance(body[0], ast.Expr) and isinstance(body[0].value, ast.Constant) and isinstance(body[0].value.value, str):
        return body[1:]
    return body


def _dump(n):
    return ast.dump(n, annotate_fields=True, include_attributes=False)


def unify(t, s, env, where):
    """template node `t` against source node `s`; binds metavariables in env; raises TranslationError"""
    if isinstance(t, ast.Name) and t.id.startswith("__n_"):
        if not isinstance(s, ast.Name):
            raise TranslationError("%s: a local name was expected for %s, found %s" % (where, t.id, type(s).__name__))
        if env.setdefault(t.id, s.id) != s.id:
            raise TranslationError("%s: %s is %r here but %r before" % (where, t.id, s.id, env[t.id]))
        return
    if isinstance(t, ast.Name) and t.id.startswith("__e_"):
        if not isinstance(s, ast.expr):
            raise TranslationError("%s: an expression was expected for %s" % (where, t.id))
        old = env.setdefault(t.id, s)
        if _dump(old).replace("Store()", "Load()") != _dump(s).replace("Store()", "Load()"):
            raise TranslationError("%s: the occurrences of %s differ: %s / %s" % (where, t.id[4:], ast.unparse(old), ast.unparse(s)))
        return
    if type(t) is not type(s):
        raise TranslationError("%s: expected %s, found %s (%s)" % (
            where, type(t).__name__, type(s).__name__, ast.unparse(s)[:60] if isinstance(s, ast.AST) else s))
    for f in t._fields:
        if f in ("ctx", "type_comment", "kind", "type_params"):
            continue
        a, b = getattr(t, f, None), getattr(s, f, None)
        if isinstance(t, ast.AugAssign) and f == "op":
            name = type(b).__name__
            if env.setdefault("aug", name) != name:
                raise TranslationError("%s: two different augmented assignments" % where)
            continue
        if isinstance(t, ast.FunctionDef) and f == "body":
            a, b = _strip_doc(a), _strip_doc(b)
        if isinstance(a, list):
            if not isinstance(b, list) or len(a) != len(b):
                raise TranslationError("%s: %s.%s has %d items, the shape translated has %d" % (
                    where, type(t).__name__, f, len(b) if isinstance(b, list) else -1, len(a)))
            for x, y in zip(a, b):
                unify(x, y, env, where)
        elif isinstance(a, ast.AST):
            if not isinstance(b, ast.AST):
                raise TranslationError("%s: %s.%s missing" % (where, type(t).__name__, f))
            unify(a, b, env, where)
        elif a != b:
            raise TranslationError("%s: %s.%s is %r, the shape translated has %r" % (where, type(t).__name__, f, b, a))


def _template(text):
    return ast.parse(text).body[0]


def _method(tree, cls, name):
    found = [m for c in tree.body if isinstance(c, ast.ClassDef) and c.name == cls
             for m in c.body if isinstance(m, ast.FunctionDef) and m.name == name]
    if len(found) != 1:
        raise TranslationError("%s.%s: %d definitions found" % (cls, name, len(found)))
    return found[0]


# ---------------------------------------------------------------------------------------------
# slot grammars
# ---------------------------------------------------------------------------------------------
OPS = {"Add": "add", "Sub": "sub", "Mult": "mul", "Div": "div"}
OPFUN = {"add": "add", "sub": "sub", "mul": "mul", "truediv": "div"}


def count_expr(n, where):
    """number of copies: len(X._data) | len(X) | non-negative int literal | sum of those -> Lean Nat expression"""
    if isinstance(n, ast.Constant) and type(n.value) is int and n.value >= 0:
        return str(n.value)
    if isinstance(n, ast.BinOp) and isinstance(n.op, ast.Add):
        return "(%s + %s)" % (count_expr(n.left, where), count_expr(n.right, where))
    if isinstance(n, ast.Call) and isinstance(n.func, ast.Name) and n.func.id == "len" and len(n.args) == 1 and not n.keywords:
        a = n.args[0]
        if isinstance(a, ast.Attribute) and a.attr == "_data":
            a = a.value
        if isinstance(a, ast.Name) and a.id in ("self", "other"):
            return a.id + ".length"
    raise TranslationError("%s: hub count not understood: %s" % (where, ast.unparse(n)))


def data_of(n, where):
    if isinstance(n, ast.Attribute) and n.attr == "_data" and isinstance(n.value, ast.Name) and n.value.id in ("self", "other"):
        return n.value.id
    raise TranslationError("%s: `self._data` or `other._data` expected, found %s" % (where, ast.unparse(n)))


def key_expr(n, names, free, where):
    """integer key expression over the loop keys `names` (python name -> lean name) and the free int names `free`"""
    if isinstance(n, ast.Name) and n.id in names:
        return names[n.id]
    if isinstance(n, ast.Name) and n.id in free:
        return free[n.id]
    if isinstance(n, ast.BinOp) and isinstance(n.op, (ast.Add, ast.Sub)):
        return "(%s %s %s)" % (key_expr(n.left, names, free, where), "+" if isinstance(n.op, ast.Add) else "-",
                               key_expr(n.right, names, free, where))
    raise TranslationError("%s: key expression not understood: %s" % (where, ast.unparse(n)))


def one_to_one_key(n, k, where):
    """keys of a dict built from (key, value) pairs must stay distinct: `k` or `k ± name`"""
    ok = (isinstance(n, ast.Name) and n.id == k) or (
        isinstance(n, ast.BinOp) and isinstance(n.op, (ast.Add, ast.Sub)) and isinstance(n.left, ast.Name) and n.left.id == k
        and isinstance(n.right, ast.Name) and n.right.id != k)
    if not ok:
        raise TranslationError("%s: the key %s is not `k` or `k ± name` (distinct keys are assumed)" % (where, ast.unparse(n)))


def val_expr(n, names, where):
    """`a op b` / `operator.op(a, b)` where a, b are the two names (each used exactly once: one hub copy per pass)"""
    if isinstance(n, ast.BinOp) and type(n.op).__name__ in OPS:
        op, a, b = OPS[type(n.op).__name__], n.left, n.right
    elif (isinstance(n, ast.Call) and isinstance(n.func, ast.Attribute) and isinstance(n.func.value, ast.Name)
          and n.func.value.id == "operator" and n.func.attr in OPFUN and len(n.args) == 2 and not n.keywords):
        op, a, b = OPFUN[n.func.attr], n.args[0], n.args[1]
    else:
        raise TranslationError("%s: value expression not understood: %s" % (where, ast.unparse(n)))
    if not (isinstance(a, ast.Name) and isinstance(b, ast.Name) and sorted([a.id, b.id]) == sorted(names)):
        raise TranslationError("%s: the value must use each of %s exactly once: %s" % (where, sorted(names), ast.unparse(n)))
    return "(HC.op .%s %s %s)" % (op, names[a.id], names[b.id])


# ---------------------------------------------------------------------------------------------
# the three programs
# ---------------------------------------------------------------------------------------------
def tr_mul(fn):
    w = "Poly.__mul__"
    env = {}
    unify(_template(T_MUL), fn, env, w)
    la, lb = env["__n_la"], env["__n_lb"]
    loc = {la: "h1", lb: "h2"}
    if la == lb or env["__n_outer"] not in loc or env["__n_inner"] not in loc or env["__n_outer"] == env["__n_inner"]:
        raise TranslationError("%s: the two loops must run over the two thubbed lists" % w)
    for a, b in (("ka", "va"), ("kb", "vb"), ("k1", "v1"), ("k2", "v2")):
        if env["__n_" + a] == env["__n_" + b]:
            raise TranslationError("%s: key and value share a name" % w)
    if len({env["__n_k1"], env["__n_v1"], env["__n_k2"], env["__n_v2"], env["__n_new"], la, lb, "self", "other"}) != 9:
        raise TranslationError("%s: local names collide" % w)
    keys = {env["__n_k1"]: "k1", env["__n_k2"]: "k2"}
    vals = {env["__n_v1"]: "v1", env["__n_v2"]: "v2"}
    return [
        "/-- Poly.__mul__ -/",
        "def mulHub (self other : HPoly α) (g : Nat) : Option (HPoly α × Nat) :=",
        "  let (h1, g) := thubListN %s %s g" % (data_of(env["__e_src1"], w), count_expr(env["__e_cnt1"], w)),
        "  let (h2, g) := thubListN %s %s g" % (data_of(env["__e_src2"], w), count_expr(env["__e_cnt2"], w)),
        "  (crossN %s %s (fun k1 k2 => %s) (fun v1 v2 => %s)).map fun terms =>" % (
            loc[env["__n_outer"]], loc[env["__n_inner"]], key_expr(env["__e_key"], keys, {}, w), val_expr(env["__e_val"], vals, w)),
        "    (polyOf (terms.foldl (fun d kv =>",
        "      if hasKey d kv.1 then augItem .%s d kv.1 kv.2 else newItem d kv.1 kv.2) []), g)" % _aug(env, w),
    ]


def _aug(env, w):
    if env.get("aug") not in OPS:
        raise TranslationError("%s: augmented assignment %r" % (w, env.get("aug")))
    return OPS[env["aug"]]


def tr_div(fn):
    w = "Poly.__truediv__"
    env = {}
    unify(_template(T_DIV), fn, env, w)
    out = []
    for tag, name, sig, hub, free, doc in (
            ("S", "divHub", "(self : HPoly α) (other : HC α)", "other", {},
             "Poly.__truediv__, `other` a number or a Stream"),
            ("T", "divTermHub", "(self : HPoly α) (delta : Int) (value : HC α)", None, None,
             "Poly.__truediv__, `other` a Poly with the single term `delta ↦ value`")):
        k, v = env["__n_k" + tag], env["__n_v" + tag]
        if tag == "T":
            hub, free = env["__n_value"], {env["__n_delta"]: "delta"}
            if len({hub, env["__n_delta"], k, v, "self", "other"}) != 6:
                raise TranslationError("%s: local names collide" % w)
        elif len({k, v, "self", "other"}) != 4:
            raise TranslationError("%s: local names collide" % w)
        one_to_one_key(env["__e_key" + tag], k, w)
        cnt = count_expr(env["__e_cnt" + tag], w)
        if "other" in cnt:
            raise TranslationError("%s: the hub count uses `other`, which is not a Poly here" % w)
        out += [
            "/-- %s -/" % doc,
            "def %s %s (g : Nat) : Option (HPoly α × Nat) :=" % (name, sig),
            "  let (h, g) := thubN %s %s g" % ("other" if tag == "S" else "value", cnt),
            "  (mapItemsN self h (fun k => %s) (fun v c => %s)).map fun d => (polyOf d, g)" % (
                key_expr(env["__e_key" + tag], {k: "k"}, free, w), val_expr(env["__e_val" + tag], {v: "v", hub: "c"}, w)),
            "",
        ]
    return out[:-1]


class _Gain(object):
    """straight-line translation of the Stream-gain block: every Python local gets the name x<i> (order of first
    assignment), every intermediate Poly / copy the name t<i>; `g` threads the next free tee group"""

    W = "LinearFilter.__call__ (Stream gain)"

    def __init__(self):
        self.lines, self.loc, self.nt = [], {}, 0

    def err(self, msg, n=None):
        raise TranslationError("%s: %s%s" % (self.W, msg, "" if n is None else ": " + ast.unparse(n)[:80]))

    def tmp(self):
        self.nt += 1
        return "t%d" % self.nt

    def lit(self, n):
        if isinstance(n, ast.Constant) and type(n.value) is int:
            return n.value
        self.err("an integer literal was expected", n)

    def expr(self, n):
        """-> (type 'poly' | 'coef', lean term); may emit binding lines (evaluation order = Python's)"""
        if isinstance(n, ast.Constant):
            v = self.lit(n)
            if v not in (0, 1):
                self.err("only the literals 0 and 1 exist over a general coefficient type", n)
            return "coef", "(.c %d)" % v
        if isinstance(n, ast.Name):
            if n.id not in self.loc:
                self.err("unknown name", n)
            return self.loc[n.id]
        if isinstance(n, ast.Attribute) and isinstance(n.value, ast.Name) and n.value.id == "self" and n.attr == "numpoly":
            return "poly", "numpoly"     # read only: never assigned to (see stmt)
        if (isinstance(n, ast.Call) and isinstance(n.func, ast.Name) and n.func.id == "Poly" and len(n.args) == 1
                and not n.keywords and _dump(n.args[0]) == _dump(ast.parse("self.denpoly", mode="eval").body)):
            return "poly", "denpoly"     # a new dict: the object's own polynomial is not touched
        if isinstance(n, ast.Subscript):
            t, p = self.expr(n.value)
            if t != "poly":
                self.err("subscript of a non-Poly", n)
            return "coef", "(findC %s %d)" % (p, self.lit(n.slice))
        if (isinstance(n, ast.Call) and isinstance(n.func, ast.Attribute) and n.func.attr == "copy" and not n.args
                and not n.keywords and isinstance(n.func.value, ast.Name)):
            name = n.func.value.id
            if self.loc.get(name, ("", ""))[0] != "coef":
                self.err(".copy() of something that is not a local coefficient", n)
            x, t = self.loc[name][1], self.tmp()
            self.lines.append("  let (%s, %s, g) ← copyHC %s g" % (x, t, x))
            return "coef", t
        if isinstance(n, ast.BinOp) and type(n.op).__name__ in OPS:
            op = OPS[type(n.op).__name__]
            (ta, a), (tb, b) = self.expr(n.left), self.expr(n.right)
            if ta == "coef" and tb == "coef":
                return "coef", "(HC.op .%s %s %s)" % (op, a, b)
            if ta == "poly" and op == "mul":
                t = self.tmp()
                self.lines.append("  let (%s, g) ← mulHub %s %s g" % (t, a, b if tb == "poly" else "(polyOfScalar %s)" % b))
                return "poly", t
            if ta == "poly" and tb == "coef" and op == "div":
                t = self.tmp()
                self.lines.append("  let (%s, g) ← divHub %s %s g" % (t, a, b))
                return "poly", t
        self.err("expression not understood", n)

    def local(self, name, typ):
        if name in self.loc:
            if self.loc[name][0] != typ:
                self.err("%s changes its type" % name)
            return self.loc[name][1]
        x = "x%d" % (len(self.loc) + 1)
        self.loc[name] = (typ, x)
        return x

    def stmt(self, s):
        if isinstance(s, ast.Assign) and len(s.targets) == 1 and isinstance(s.targets[0], ast.Name):
            t, e = self.expr(s.value)
            self.lines.append("  let %s := %s" % (self.local(s.targets[0].id, t), e))
        elif (isinstance(s, ast.Assign) and len(s.targets) == 1 and isinstance(s.targets[0], ast.Subscript)
              and isinstance(s.targets[0].value, ast.Name)):
            name = s.targets[0].value.id
            if self.loc.get(name, ("", ""))[0] != "poly":
                self.err("item assignment to something that is not a local Poly", s)
            x, k, v = self.loc[name][1], self.lit(s.targets[0].slice), self.lit(s.value)
            if v == 0:
                self.lines.append("  let %s := delCoef %s %d" % (x, x, k))
            elif v == 1:
                self.lines.append("  let %s := putCoef %s %d (.c 1)" % (x, x, k))
            else:
                self.err("only the literals 0 and 1 exist over a general coefficient type", s)
        elif isinstance(s, ast.AugAssign) and isinstance(s.target, ast.Name) and isinstance(s.op, ast.Mult):
            name = s.target.id
            if self.loc.get(name, ("", ""))[0] != "poly":
                self.err("`*=` on something that is not a local Poly", s)
            x = self.loc[name][1]
            t, e = self.expr(s.value)
            self.lines.append("  let (%s, g) ← mulHub %s %s g" % (x, x, e if t == "poly" else "(polyOfScalar %s)" % e))
        else:
            self.err("statement not in the subset", s)

    def ret(self, s):
        env = {}
        if not isinstance(s, ast.Return) or s.value is None:
            self.err("the block must end with `return ZFilter(num, den)(seq, memory=memory, zero=zero)`", s)
        unify(ast.parse(GAIN_TAIL, mode="eval").body, s.value, env, self.W)
        f = env["__e_f"]
        if not (isinstance(f, ast.Call) and isinstance(f.func, ast.Name) and f.func.id == "ZFilter" and len(f.args) == 2
                and not f.keywords):
            self.err("`ZFilter(num, den)` expected", f)
        (ta, a), (tb, b) = self.expr(f.args[0]), self.expr(f.args[1])
        if ta != "poly" or tb != "poly":
            self.err("the arguments of ZFilter must be Polys here", f)
        self.lines.append("  pure (%s, %s, g)" % (a, b))


def tr_gain(fn):
    test = _dump(ast.parse(GAIN_TEST, mode="eval").body)
    blocks = [n for n in ast.walk(fn) if isinstance(n, ast.If) and _dump(n.test) == test]
    if len(blocks) != 1 or blocks[0] not in fn.body or blocks[0].orelse:
        raise TranslationError("%s: the block `if %s:` (top level, no else) was found %d times" % (_Gain.W, GAIN_TEST, len(blocks)))
    g = _Gain()
    for s in blocks[0].body[:-1]:
        g.stmt(s)
    g.ret(blocks[0].body[-1])
    return [
        "/-- LinearFilter.__call__, the block under `if isinstance(self.denpoly[0], Stream)`:",
        "(first argument of ZFilter, second argument, next free group) -/",
        "def gainHub (numpoly denpoly : HPoly α) (g : Nat) : Option (HPoly α × HPoly α × Nat) := do",
    ] + g.lines


def _parse(text):
    with warnings.catch_warnings():
        warnings.simplefilter("ignore", SyntaxWarning)     # invalid escape sequences in the repo's docstrings
        return ast.parse(text)


def translate(poly_text, filt_text):
    ptree, ftree = _parse(poly_text), _parse(filt_text)
    lines = [
        "/- GENERATED by harness/props/c06_tr.py from audiolazy/lazy_poly.py (Poly.__mul__, Poly.__truediv__) and",
        "   audiolazy/lazy_filters.py (the Stream-gain block of LinearFilter.__call__), read with `ast`.",
        "   Do not edit: rewritten on every check.  Vocabulary: ALV/Model/C06HubSrc.lean. -/",
        "import ALV.Model.C06HubSrc",
        "namespace ALV.Gen.C06",
        "open ALV.C06.Hub",
        "variable {α : Type} [Add α] [Sub α] [Mul α] [Div α] [OfNat α 0] [OfNat α 1] [DecidableEq α]",
        "",
    ]
    lines += tr_mul(_method(ptree, "Poly", "__mul__")) + [""]
    lines += tr_div(_method(ptree, "Poly", "__truediv__")) + [""]
    lines += tr_gain(_method(ftree, "LinearFilter", "__call__")) + [""]
    lines += ["end ALV.Gen.C06", ""]
    return "\n".join(lines)


def read_source():
    return _src("lazy_poly.py"), _src("lazy_filters.py")


def committed_text():
    import subprocess
    good = subprocess.run(["git", "-C", common.VERIF, "show", "HEAD:lean/" + GEN_REL.replace(os.sep, "/")],
                          capture_output=True, text=True, timeout=30)
    return good.stdout if good.returncode == 0 and good.stdout else None


def regenerate(eng=None):
    """Rewrite lean/ALV/Gen/C06Src.lean from the repo under test.  On a translation failure the last COMMITTED translation
    is put back (the theorems then speak about the last state of the source that could be translated) and the error
    propagates (= broken obligation)."""
    path = os.path.join(common.LEAN, GEN_REL)
    try:
        text = translate(*read_source())
    except Exception:
        try:
            good = committed_text()
            if good and (not os.path.exists(path) or open(path).read() != good):
                with open(path, "w") as f:
                    f.write(good)
        except Exception:
            pass
        raise
    old = open(path).read() if os.path.exists(path) else None
    if old != text:
        with open(path, "w") as f:
            f.write(text)
        return "rewritten (%d bytes)" % len(text)
    return "unchanged (%d bytes)" % len(text)


# ---------------------------------------------------------------------------------------------
# self-test: the translator sees deliberate edits and is blind to harmless ones
# ---------------------------------------------------------------------------------------------
# (file, old, new): each must change the generated text or be refused
SEEN_EDITS = [
    ("poly", "thub(v, len(other._data))", "thub(v, len(self._data))"),                       # wrong number of copies
    ("poly", "new_data[k1 + k2] += v1 * v2", "new_data[k1 + k2] -= v1 * v2"),                 # other accumulation
    ("poly", "    for k1, v1 in thubbed_self:\n      for k2, v2 in thubbed_other:",
             "    for k1, v1 in thubbed_other:\n      for k2, v2 in thubbed_self:"),        # loops exchanged
    ("poly", "    other = thub(other, len(self))\n", ""),                                    # thub dropped
    ("poly", "(k - delta)", "(k + delta)"),                                                  # sign of the shift
    ("poly", "value = thub(value, len(self))", "value = thub(value, 1)"),                    # one copy for all
    ("filt", "den *= inv_gain.copy()", "den *= inv_gain"),                                   # copy dropped
    ("filt", "      den[0] = 0\n      den *= inv_gain.copy()\n", "      den *= inv_gain.copy()\n      den[0] = 0\n"),  # reordered
    ("filt", "inv_gain = 1 / den[0]", "inv_gain = den[0] / 1"),                              # operands swapped
    ("filt", "ZFilter(self.numpoly * inv_gain, den)", "ZFilter(self.numpoly, den)"),         # numerator not scaled
]
# harmless rewrites: must give the SAME text (local names, comments, docstrings are normalised away)
BLIND_EDITS = [
    ("poly", "new_data", "acc"),
    ("poly", "thubbed_self", "hubs_a"),
    ("poly", "    new_data = OrderedDict()\n", "    # the product, term by term\n    new_data = OrderedDict()\n"),
    ("filt", "inv_gain", "ig"),
    ("poly", "  def __mul__(self, other):\n", "  def __mul__(self, other):\n    \"\"\"product\"\"\"\n"),
]


def selftest():
    """-> list of (name, ok, detail)"""
    out = []
    try:
        texts = dict(zip(("poly", "filt"), read_source()))
        base = translate(texts["poly"], texts["filt"])
    except Exception as e:
        return [("translator-selftest", False, "the unchanged source does not translate: %s" % e)]
    good = committed_text()
    path = os.path.join(common.LEAN, GEN_REL)
    on_disk = open(path).read() if os.path.exists(path) else None
    out.append(("translator-selftest:unchanged-source-reproduces-the-file", base == on_disk,
                "translation of the source differs from lean/%s" % GEN_REL))
    if common.REPO.rstrip("/") == "/repo" and good is not None:
        out.append(("translator-selftest:committed-file-is-the-translation-of-/repo", base == good,
                    "git HEAD:lean/%s is not what the translator writes for /repo" % GEN_REL))
    unseen, refused, changed = [], 0, 0
    for which, old, new in SEEN_EDITS:
        if old not in texts[which]:
            # the source under test is itself edited there: nothing to test for this edit
            continue
        t = dict(texts)
        t[which] = t[which].replace(old, new)
        try:
            if translate(t["poly"], t["filt"]) == base:
                unseen.append((old, new))
            else:
                changed += 1
        except TranslationError:
            refused += 1
        except SyntaxError:
            unseen.append((old, new, "edit does not parse"))
    out.append(("translator-selftest:sees-edits(%d changed, %d refused of %d)" % (changed, refused, len(SEEN_EDITS)),
                not unseen and changed + refused >= 6, "edits not seen: %r" % (unseen,)))
    noisy = []
    for which, old, new in BLIND_EDITS:
        if old not in texts[which]:
            continue
        t = dict(texts)
        t[which] = t[which].replace(old, new)
        try:
            if translate(t["poly"], t["filt"]) != base:
                noisy.append((old, new))
        except Exception as e:
            noisy.append((old, new, str(e)))
    out.append(("translator-selftest:blind-to-harmless-rewrites(%d)" % len(BLIND_EDITS), not noisy,
                "harmless rewrites that change the translation: %r" % (noisy,)))
    return out
