"""C03 helper: calls as the caller writes them (entry `calls`; Lean side: ALV/Model/C03Call.lean).

A call step carries "call": 1 and the raw arguments:
  take / peek / skip / limit : "a" = {"t": "omitted"} | a spelling {"t": none|int|bool|flt|frac|inf|ninf|nan|other}
                               (+ "kw": keyword `n=`, "negzero": -0.0, "oth": which non-number)
  new / append               : "args" = [{"k": "lst", "xs"} | {"k": "scalar", "v"} | {"k": "obj", "j"} |
                                         {"k": "endless", "xs"}]   (+ "as": iterable flavour per argument)
  thub                       : "data" = one such argument, "n" = {"t": int|bool|flt}
  tee                        : "data", optional "n"
The Lean model elaborates the call (`elabCall`); this module only builds the Python objects, and
mirrors the elaboration for the generator-side simulator (NOT an oracle: it only steers the
generator — which counts are within / beyond the remaining length, which objects are alive).
"""
import math
from fractions import Fraction
import common

MAXSIZE = 2 ** 63 - 1
BIG = 10 ** 400
OTHERS = {"str": "2", "list": [1], "complex": 2 + 0j, "obj": object()}


def spell_py(a):
    t = a["t"]
    if t == "none":
        return None
    if t == "int":
        return int(a["v"])
    if t == "bool":
        return bool(a["v"])
    if t == "flt":
        x = float(common.dec(a["v"]))
        return -0.0 if (a.get("negzero") and x == 0) else x
    if t == "frac":
        return Fraction(a["v"])
    if t in ("inf", "ninf", "nan"):
        return {"inf": float("inf"), "ninf": -float("inf"), "nan": float("nan")}[t]
    if t == "other":
        return OTHERS[a.get("oth", "str")]
    raise ValueError(t)


def poskw(a):
    """positional / keyword arguments of the count"""
    if a["t"] == "omitted":
        return (), {}
    n = spell_py(a)
    return ((), {"n": n}) if a.get("kw") else ((n,), {})


def nspell_py(n):
    t = n["t"]
    if t == "int":
        return int(n["v"])
    if t == "bool":
        return bool(n["v"])
    return float(n.get("x", 1.5))


# ----------------------------------------------------------------------------------------
# mirror of the elaboration, for the generator-side simulator only
# ----------------------------------------------------------------------------------------
def _cnt_int(n):
    return {"t": "int", "v": n}


def _rint_pos(x):
    d = math.floor(x)
    return d + 1 if 2 * (x - d) >= 1 else d


def _take_cnt(a):
    t = a["t"]
    if t in ("omitted", "none"):
        return {"t": "none"}
    if t == "int":
        n = int(a["v"])
        return None if (abs(n) >= 2 ** 1024 or n > MAXSIZE) else _cnt_int(n)
    if t == "bool":
        return _cnt_int(1 if a["v"] else 0)
    if t == "flt":
        x = Fraction(common.dec(a["v"]))
        return None if (x > 0 and _rint_pos(x) > MAXSIZE) else {"t": "flt", "v": a["v"]}
    if t == "frac":
        return _cnt_int(0) if Fraction(a["v"]) < 0 else None
    if t in ("inf", "ninf", "nan"):
        return {"t": t}
    return None


def _round_cnt(a):
    t = a["t"]
    if t in ("none", "other"):
        return {"t": "none"}
    if t == "int":
        return _cnt_int(int(a["v"]))
    if t == "bool":
        return _cnt_int(1 if a["v"] else 0)
    if t in ("flt", "frac"):
        return {"t": "flt", "v": a["v"]}
    return {"t": t}


def _rounded(c):
    if c["t"] == "int":
        return c["v"]
    if c["t"] == "flt":
        return round(Fraction(common.dec(c["v"])))
    return None


def _src_of(args):
    """mirror of elabArgs: a source dict of the history model, or None (refused)"""
    if not args:
        return None
    if len(args) == 1:
        a = args[0]
        return {"lst": lambda: {"k": "list", "xs": a["xs"]}, "scalar": lambda: {"k": "const", "v": a["v"]},
                "obj": lambda: {"k": "obj", "j": a["j"]}, "endless": lambda: {"k": "cyc", "xs": a["xs"]}}[a["k"]]()
    kinds = [a["k"] for a in args]
    if all(k != "scalar" for k in kinds):
        if all(k == "lst" for k in kinds):
            return {"k": "chain", "xss": [a["xs"] for a in args]}
        if kinds.count("obj") == 1 and "endless" not in kinds:
            p = kinds.index("obj")
            return {"k": "mixed", "pre": [x for a in args[:p] for x in a["xs"]], "j": args[p]["j"],
                    "post": [x for a in args[p + 1:] for x in a["xs"]]}
        return None
    if all(k == "scalar" for k in kinds):
        return {"k": "cyc", "xs": [a["v"] for a in args]}
    return None


def plain_of(op):
    """("hop", op of the history model) | ("ret", items or None) — what elabCall makes of the call"""
    o = op["op"]
    if o in ("take", "peek"):
        c = _take_cnt(op["a"])
        return ("ret", None) if c is None else ("hop", {"op": o, "i": op["i"], "n": c, "ctor": op.get("ctor")})
    if o == "skip":
        if op["a"]["t"] == "omitted":
            return "ret", None
        return "hop", {"op": o, "i": op["i"], "n": _round_cnt(op["a"])}
    if o == "limit":
        if op["a"]["t"] == "omitted":
            return "ret", None
        c = _round_cnt(op["a"])
        k = _rounded(c)
        if k is not None and k > MAXSIZE:
            c = {"t": "nan"}
        return "hop", {"op": o, "i": op["i"], "n": c}
    if o == "new":
        s = _src_of(op["args"])
        return ("ret", None) if s is None else ("hop", {"op": "new", "src": s})
    if o == "append":
        s = _src_of(op["args"])
        if s is None:
            return "hop", {"op": "limit", "i": op["i"], "n": {"t": "none"}}
        return "hop", {"op": "append", "i": op["i"], "src": s}
    if o == "thub":
        d, n = op["data"], op["n"]
        if d["k"] == "scalar":
            return "hop", {"op": "thub", "src": {"k": "const", "v": d["v"]}, "n": 0}
        k = None if n["t"] == "flt" else int(n["v"])
        if k is not None and k >= 0:
            return "hop", {"op": "thub", "src": _src_of([d]), "n": k}
        if d["k"] == "obj":
            return "hop", {"op": "limit", "i": d["j"], "n": {"t": "nan" if k is not None else "none"}}
        return "ret", None
    if o == "tee":
        d, n = op["data"], op.get("n") or {"t": "int", "v": 2}
        k = None if n["t"] == "flt" else int(n["v"])
        if d["k"] == "obj":
            if k is None or k <= 0:
                return "ret", None
            return "hop", {"op": "tee", "i": d["j"], "n": k}
        if d["k"] == "scalar" and k is not None:
            return "ret", [d["v"]] * max(k, 0)
        return "ret", None
    raise ValueError(o)


# ----------------------------------------------------------------------------------------
# generation: a plain operation respelled as a call; calls that are refused / fail
# ----------------------------------------------------------------------------------------
def _spell_take(rng, c):
    t = c["t"]
    if t == "none":
        return {"t": rng.choice(["omitted", "none"])}
    a = None
    if t == "int":
        v = c["v"]
        r = rng.random()
        if v in (0, 1) and r < 0.4:
            a = {"t": "bool", "v": v}
        elif r < 0.55:
            a = {"t": "flt", "v": common.enc(float(v))}
            if v == 0 and rng.random() < 0.6:
                a["negzero"] = True
        elif v < 0 and r < 0.75:
            a = {"t": "frac", "v": common.enc(Fraction(v) - Fraction(1, rng.choice([2, 3])))}
    if a is None:
        a = dict(c)
    if rng.random() < 0.3:
        a["kw"] = True
    return a


def _spell_round(rng, c):
    t = c["t"]
    a = None
    if t == "int":
        v = c["v"]
        r = rng.random()
        if v in (0, 1) and r < 0.35:
            a = {"t": "bool", "v": v}
        elif r < 0.5:
            a = {"t": "frac", "v": v}
        elif r < 0.62:
            a = {"t": "flt", "v": common.enc(float(v))}
            if v == 0 and rng.random() < 0.6:
                a["negzero"] = True
    elif t == "flt" and rng.random() < 0.5:
        a = {"t": "frac", "v": c["v"]}
    if a is None:
        a = dict(c)
    if rng.random() < 0.2:
        a["kw"] = True
    return a


ENDLESS1 = ["it.repeat", "lit.repeat", "control", "it.cycle", "gen"]
ENDLESSN = ["it.cycle", "lit.cycle", "gen"]


def _args_of(rng, src, lst_flavours):
    k = src["k"]
    if k == "list":
        return [{"k": "lst", "xs": src["xs"], "as": rng.choice(lst_flavours)}]
    if k == "chain":
        return [{"k": "lst", "xs": xs, "as": rng.choice(lst_flavours)} for xs in src["xss"]]
    if k == "const":
        if rng.random() < 0.5:
            return [{"k": "endless", "xs": [src["v"]], "as": rng.choice(ENDLESS1)}]
        return [{"k": "scalar", "v": src["v"]}]
    if k == "cyc":
        if rng.random() < 0.4 or len(src["xs"]) < 2:
            return [{"k": "endless", "xs": src["xs"], "as": rng.choice(ENDLESSN if len(src["xs"]) > 1 else ENDLESS1)}]
        return [{"k": "scalar", "v": v} for v in src["xs"]]
    if k == "obj":
        return [{"k": "obj", "j": src["j"]}]
    if k == "mixed":
        pre, post = src["pre"], src["post"]
        cut = rng.randint(0, len(pre))
        out = [{"k": "lst", "xs": pre[:cut], "as": rng.choice(lst_flavours)}] if (cut or rng.random() < 0.3) else []
        if pre[cut:] or not out:
            out.append({"k": "lst", "xs": pre[cut:], "as": rng.choice(lst_flavours)})
        if not pre and rng.random() < 0.5:
            out = []
        out.append({"k": "obj", "j": src["j"]})
        if post or rng.random() < 0.5:
            out.append({"k": "lst", "xs": post, "as": rng.choice(lst_flavours)})
        if len(out) == 1:
            out.append({"k": "lst", "xs": [], "as": "list"})
        return out
    return None


def respell(rng, op, lst_flavours):
    """the plain operation `op` as a call with the same meaning (None: stays as it is)"""
    o = op["op"]
    if o in ("take", "peek"):
        c = dict(op, call=1, a=_spell_take(rng, op["n"]))
        del c["n"]
        return c
    if o in ("skip", "limit"):
        c = dict(op, call=1, a=_spell_round(rng, op["n"]))
        del c["n"]
        return c
    if o in ("new", "append") and op["src"]["k"] != "ref" and not op.get("raw"):
        args = _args_of(rng, op["src"], lst_flavours)
        if args is None:
            return None
        c = dict(op, call=1, args=args)
        del c["src"]
        return c
    if o == "thub" and op["src"]["k"] in ("list", "obj", "const", "cyc"):
        s = op["src"]
        d = _args_of(rng, s, lst_flavours)
        if len(d) != 1:
            return None
        n = op["n"]
        ns = {"t": "bool", "v": n} if (n in (0, 1) and rng.random() < 0.3) else {"t": "int", "v": n}
        if d[0]["k"] == "scalar":
            ns = rng.choice([ns, {"t": "int", "v": -1}, {"t": "flt"}])
        return {"op": "thub", "call": 1, "data": d[0], "n": ns}
    if o == "tee":
        c = {"op": "tee", "call": 1, "data": {"k": "obj", "j": op["i"]}}
        if not (op["n"] == 2 and rng.random() < 0.5):
            c["n"] = {"t": "bool", "v": 1} if (op["n"] == 1 and rng.random() < 0.3) else {"t": "int", "v": op["n"]}
        return c
    return None


def odd_call(rng, sim, vals):
    """a call that is refused / fails / uses a rare shape, on the current pool"""
    streams = [i for i in sim.live("s")]
    finite = [i for i in streams if not sim.pool[i]["per"]]
    hubs = sim.live("h")
    kinds = ["new0", "newmix", "teescalar", "thubscalar", "thublst"]
    if streams:
        kinds += ["takebad"] * 3 + ["limitbad"] * 2 + ["skip0", "append0", "appendmix", "tee0", "teebad", "thubobj"]
    # (counts that are accepted and astronomically large — take(sys.maxsize), skip(10 ** 400) — are not
    # generated: the executable list specification unrolls `n` periods)
    if hubs:
        kinds += ["limitbad", "append0", "appendmix", "tee0", "teebad", "thubobj", "hubtake"]
    k = rng.choice(kinds)
    anyobj = rng.choice(streams + hubs) if (streams or hubs) else None
    v = vals(1)[0]
    if k == "new0":
        return {"op": "new", "call": 1, "args": []}
    if k == "newmix":
        args = [{"k": "lst", "xs": vals(2), "as": "list"}, {"k": "scalar", "v": v}]
        if anyobj is not None and rng.random() < 0.4:
            args = [{"k": "obj", "j": anyobj}, {"k": "scalar", "v": v}]
        rng.shuffle(args)
        return {"op": "new", "call": 1, "args": args}
    if k == "teescalar":
        c = {"op": "tee", "call": 1, "data": {"k": "scalar", "v": v}}
        n = rng.choice([None, {"t": "int", "v": 0}, {"t": "int", "v": 1}, {"t": "int", "v": 3}, {"t": "int", "v": -1},
                        {"t": "bool", "v": 1}, {"t": "flt"}])
        if n is not None:
            c["n"] = n
        return c
    if k == "thubscalar":
        return {"op": "thub", "call": 1, "data": {"k": "scalar", "v": v},
                "n": rng.choice([{"t": "int", "v": 0}, {"t": "int", "v": 2}, {"t": "int", "v": -1}, {"t": "flt"}])}
    if k == "thublst":
        return {"op": "thub", "call": 1, "data": {"k": "lst", "xs": vals(3), "as": "list"},
                "n": rng.choice([{"t": "int", "v": -1}, {"t": "int", "v": -3}, {"t": "flt"}, {"t": "flt", "x": 2.0}])}
    if k == "takebad":
        i = rng.choice(streams)
        a = rng.choice([{"t": "frac", "v": common.enc(Fraction(rng.randint(0, 7), rng.choice([1, 2, 3])))},
                        {"t": "frac", "v": common.enc(-Fraction(rng.randint(1, 7), rng.choice([1, 2, 3])))},
                        {"t": "other", "oth": rng.choice(sorted(OTHERS))},
                        {"t": "int", "v": MAXSIZE + 1}, {"t": "int", "v": BIG}, {"t": "int", "v": -BIG},
                        {"t": "int", "v": -MAXSIZE - 2},
                        {"t": "flt", "v": common.enc(1e300)}, {"t": "flt", "v": common.enc(-1e300)},
                        {"t": "flt", "v": common.enc(float(2 ** 63))}])
        if rng.random() < 0.25:
            a["kw"] = True
        return {"op": rng.choice(["take", "peek"]), "call": 1, "i": i, "a": a, "ctor": "list"}
    if k == "takebig":
        return {"op": rng.choice(["take", "peek"]), "call": 1, "i": rng.choice(finite),
                "a": {"t": "int", "v": rng.choice([MAXSIZE, MAXSIZE - 1, 2 ** 62])}, "ctor": "list"}
    if k == "skipbig":
        return {"op": "skip", "call": 1, "i": rng.choice(finite),
                "a": rng.choice([{"t": "int", "v": BIG}, {"t": "int", "v": MAXSIZE + 1}, {"t": "flt", "v": common.enc(1e300)},
                                 {"t": "int", "v": -BIG}])}
    if k == "limitbad":
        i = rng.choice(streams + hubs)
        a = rng.choice([{"t": "omitted"}, {"t": "int", "v": MAXSIZE + 1}, {"t": "int", "v": BIG},
                        {"t": "flt", "v": common.enc(1e300)}, {"t": "frac", "v": common.enc(Fraction(MAXSIZE) + Fraction(3, 2))},
                        {"t": "inf"}, {"t": "nan"}, {"t": "none"}, {"t": "other", "oth": rng.choice(sorted(OTHERS))},
                        {"t": "int", "v": -BIG}, {"t": "flt", "v": common.enc(-1e300)}])
        return {"op": "limit", "call": 1, "i": i, "a": a}
    if k == "skip0":
        return {"op": "skip", "call": 1, "i": rng.choice(streams + hubs), "a": {"t": "omitted"}}
    if k == "append0":
        return {"op": "append", "call": 1, "i": rng.choice(streams + hubs), "args": []}
    if k == "appendmix":
        args = [{"k": "lst", "xs": vals(2), "as": "list"}, {"k": "scalar", "v": v}]
        rng.shuffle(args)
        return {"op": "append", "call": 1, "i": rng.choice(streams + hubs), "args": args}
    if k == "tee0":
        return {"op": "tee", "call": 1, "data": {"k": "obj", "j": anyobj}, "n": rng.choice([{"t": "int", "v": 0}, {"t": "bool", "v": 0}])}
    if k == "teebad":
        return {"op": "tee", "call": 1, "data": {"k": "obj", "j": anyobj}, "n": rng.choice([{"t": "int", "v": -1}, {"t": "flt"}])}
    if k == "thubobj":
        return {"op": "thub", "call": 1, "data": {"k": "obj", "j": anyobj},
                "n": rng.choice([{"t": "int", "v": -1}, {"t": "flt"}, {"t": "int", "v": -2}])}
    if k == "hubtake":
        return {"op": "take", "i": rng.choice(hubs), "n": {"t": "int", "v": 1}}
    raise ValueError(k)


def tally(eng, op, ob):
    o = op["op"]
    if "a" in op:
        a = op["a"]
        t = a["t"]
        if t in ("flt", "frac"):
            x = Fraction(common.dec(a["v"]))
            if x.denominator == 2:
                k = math.floor(x)
                t += ":tie k+1/2, k %s%s" % ("even" if k % 2 == 0 else "odd", " (negative)" if x < 0 else "")
            elif x == 0:
                t += ":-0.0" if a.get("negzero") else ":0"
            elif abs(x) > MAXSIZE:
                t += ":beyond maxsize"
            else:
                t += ":<0" if x < 0 else ":>0"
        elif t == "int":
            v = int(a["v"])
            t += ":huge" if abs(v) >= 2 ** 1024 else ":>maxsize" if v > MAXSIZE else ":=maxsize-ish" if v >= 2 ** 62 else \
                 ":<0" if v < 0 else ""
        elif t == "other":
            t += ":" + a.get("oth", "str")
        eng.count("call_count_spelling", "%s(%s%s)" % (o, "n=" if a.get("kw") else "", t))
    if "args" in op:
        ks = [a["k"] for a in op["args"]]
        shape = "no argument" if not ks else ("1 " + ks[0]) if len(ks) == 1 else \
                "%d: %s" % (len(ks), "+".join(sorted(set(ks))))
        eng.count("call_argument_list", "%s(%s)" % ("Stream" if o == "new" else "append", shape))
        for a in op["args"]:
            if a.get("as"):
                eng.count("source_kind", a["k"] + " as " + a["as"])
    if "data" in op:
        n = op.get("n")
        ns = "default" if n is None else n["t"] if n["t"] == "flt" else \
             ("%s:%s" % (n["t"], "<0" if int(n["v"]) < 0 else min(int(n["v"]), 3)))
        eng.count("call_copies", "%s(%s, %s)" % (o, op["data"]["k"], ns))
        if op["data"].get("as"):
            eng.count("source_kind", op["data"]["k"] + " as " + op["data"]["as"])
    kind, _ = plain_of(op)
    outcome = ("err:" + ob["err"].split(":")[0]) if (ob and "err" in ob) else "ok"
    eng.count("call_outcome", "%s %s -> %s" % (o, "refused, nothing touched" if kind == "ret" and outcome != "ok"
                                                 else "elaborated", outcome))
