"""C07 — the `zero` attribute and the SPELLING of numbers (entries "zhist", "pynum").

A number literal is tagged with its Python kind: ["b", 0|1] bool, ["i", n] int, ["F", "p/q"] Fraction,
["f", dyadic] float, ["c", re, im] complex (dyadic parts).  A zero is a number literal, "[]" / "{}" (the
unhashable zeros the library accepts) or null (argument omitted / None).  A power is an int, or ["f", k]
(the float k.0) or ["b", 0|1] (a bool used as a dict key / exponent).

zhist case: {"entry": "zhist", "shape": …, "ops": [step, …]}; the variable t is the object that step t returned
(unbound if it returned none / raised; a step naming an unbound variable is skipped on both sides):

    ["ctor", "dict"|"list"|"num"|"none"|"poly", data, zero, callshape]   Poly(data[, zero]); callshape "kw" (zero=z),
                                                       "pos" (Poly(data, z)), "omit" (only when zero is null)
    ["copy", i, zero]  ["neg", i]  ["pos", i]  ["bin", "add"|"sub"|"mul", i, j]
    ["scal", "adds"|"radds"|"subs"|"rsubs"|"muls"|"rmuls", i, num]  ["divs", i, num]  ["div", i, j]
    ["pow", i, n, "i"|"b"|"f"]  ["powp", i, j]  ["comp", i, j]  ["call", i, num, horner]
    ["diff", i, n]  ["integ", i]  ["setitem", i, power, num]  ["setzero", i, zero]  ["hash", i]
    ["eq", i, j]  ["ne", i, j]  ["eqs", i, num]

Every step is compared with the Lean model `Model/C07Zero.lean` (`zact`): value AND Python kind of every
coefficient, of the zero, of every returned number; after every step every live object is read again (frame); at
the end all pairs of variables are crossed with ==, !=, hash, set / dict membership.  Model-free oracle for ==:
the canonical form (frozenset((power, exact complex value)), exact value of the zero).
"""
import json
from fractions import Fraction as F
from collections import OrderedDict

import common
from common import enc, dec, err_kind

TOL = 1e-9


# ----------------------------------------------------------------------------------------------------------------
# literals
# ----------------------------------------------------------------------------------------------------------------
def to_py(j):
    t = j[0]
    if t == "b":
        return bool(j[1])
    if t == "i":
        return int(j[1])
    if t == "F":
        return dec(j[1])
    if t == "f":
        return float(dec(j[1]))
    if t == "c":
        return complex(float(dec(j[1])), float(dec(j[2])))
    raise ValueError("bad literal %r" % (j,))


def to_val(j):
    if j == "[]":
        return []
    if j == "{}":
        return {}
    return to_py(j)


def to_key(j):
    if isinstance(j, list):
        return float(j[1]) if j[0] == "f" else bool(j[1])
    return int(j)


def key_nom(j):
    return int(j[1]) if isinstance(j, list) else int(j)


def enc_num(x):
    """a Python number -> tagged JSON with its exact value"""
    if isinstance(x, bool):
        return ["b", int(x)]
    if isinstance(x, int):
        return ["i", x]
    if isinstance(x, F):
        return ["F", enc(x)]
    if isinstance(x, float):
        return ["f", enc(x)]
    if isinstance(x, complex):
        return ["c", enc(x.real), enc(x.imag)]
    return {"other": type(x).__name__ + ":" + repr(x)[:40]}


def enc_val(x):
    if isinstance(x, list) and not x:
        return "[]"
    if isinstance(x, dict) and not x:
        return "{}"
    return enc_num(x)


def exact_value(x):
    """(re, im) as Fractions"""
    if isinstance(x, complex):
        return (F(x.real), F(x.imag))
    return (F(x), F(0))


# ----------------------------------------------------------------------------------------------------------------
# request
# ----------------------------------------------------------------------------------------------------------------
def op_req(op):
    k = op[0]
    if k == "ctor":
        kind, data, zero = op[1], op[2], op[3]
        if kind == "dict":
            data = [[key_nom(kk), c] for kk, c in data]
        return ["ctor", kind, data, zero]
    if k == "setitem":
        return ["setitem", op[1], key_nom(op[2]), op[3]]
    if k == "copy":
        return op[:3]
    if k == "call":
        return op[:4]
    if k == "diff":
        return op[:3]
    return list(op)


def request(c):
    if c["entry"] == "pynum":
        return c
    return {"entry": "zhist", "ops": [op_req(o) for o in c["ops"]]}


# ----------------------------------------------------------------------------------------------------------------
# the real code
# ----------------------------------------------------------------------------------------------------------------
def snap(p):
    """an instance as JSON: sorted terms with kinds, zero, the derived observables"""
    items = list(p.terms(sort=False))
    out = {"terms": [[int(k) if k == int(k) else repr(k), enc_num(v)] for k, v in sorted(items, key=lambda kv: kv[0])],
           "keytypes": sorted(set(type(k).__name__ for k, _ in items)),
           "zero": enc_val(p.zero), "len": len(p), "is_polynomial": bool(p.is_polynomial()),
           "is_laurent": bool(p.is_laurent())}
    try:
        out["order"] = p.order
    except Exception as e:
        out["order"] = {"err": err_kind(e)}
    try:
        out["values"] = [enc_val(v) for v in p.values()]
    except Exception as e:
        out["values"] = {"err": err_kind(e)}
    try:
        out["getitem"] = [enc_val(p[k]) for k in (-1, 0, 1.0, True, 7)]     # float / bool spellings of a power
    except Exception as e:
        out["getitem"] = {"err": err_kind(e)}
    out["unsorted_rev"] = list(p.terms(sort=False, reverse=True)) == items[::-1] and \
        list(p.terms(sort="auto")) == list(p.terms())
    out["terms_sorted"] = [[int(k), enc_num(v)] for k, v in p.terms()] == out["terms"]
    out["terms_rev"] = [[int(k), enc_num(v)] for k, v in p.terms(sort=True, reverse=True)] == out["terms"][::-1]
    return out


def apply_op(op, get):
    from audiolazy import Poly
    k = op[0]
    if k == "ctor":
        kind, data, zero, shape = op[1], op[2], op[3], (op[4] if len(op) > 4 else "kw")
        if kind == "dict":
            d = OrderedDict((to_key(kk), to_py(c)) for kk, c in data)
            if shape == "plaindict":
                d = dict(d)
        elif kind == "list":
            d = [to_py(c) for c in data]
        elif kind == "num":
            d = to_py(data)
        elif kind == "none":
            d = None
        else:
            d = get(data)
        if zero is None:
            if shape == "omit":
                return "obj", (Poly() if (kind == "none" and data != "explicit") else Poly(d))
            if shape == "pos":
                return "obj", Poly(d, None)
            return "obj", Poly(d, zero=None)
        z = to_val(zero)
        if shape == "pos":
            return "obj", Poly(d, z)
        if shape == "kwboth":
            return "obj", Poly(data=d, zero=z)
        return "obj", Poly(d, zero=z)
    if k == "copy":
        p = get(op[1])
        if op[2] is None:
            return "obj", (p.copy() if (len(op) > 3 and op[3] == "omit") else p.copy(zero=None))
        z = to_val(op[2])
        return "obj", (p.copy(z) if (len(op) > 3 and op[3] == "pos") else p.copy(zero=z))
    if k == "neg":
        return "obj", -get(op[1])
    if k == "pos":
        return "obj", +get(op[1])
    if k == "bin":
        p, q = get(op[2]), get(op[3])
        return "obj", (p + q if op[1] == "add" else p - q if op[1] == "sub" else p * q)
    if k == "scal":
        p, cv, o = get(op[2]), to_py(op[3]), op[1]
        return "obj", (p + cv if o == "adds" else cv + p if o == "radds" else p - cv if o == "subs" else
                       cv - p if o == "rsubs" else p * cv if o == "muls" else cv * p)
    if k == "divs":
        return "obj", get(op[1]) / to_py(op[2])
    if k == "div":
        return "obj", get(op[1]) / get(op[2])
    if k == "pow":
        n = op[2]
        e = int(n) if op[3] == "i" else (bool(n) if op[3] == "b" else float(n))
        return "obj", get(op[1]) ** e
    if k == "powp":
        return "obj", get(op[1]) ** get(op[2])
    if k == "comp":
        return "obj", get(op[1])(get(op[2]))
    if k == "call":
        p, v, h = get(op[1]), to_py(op[2]), op[3]
        if h == "auto" and len(op) > 4 and op[4] == "omit":
            return "val", p(v)
        if len(op) > 4 and op[4] == "pos":
            return "val", p(v, h)
        return "val", p(v, horner=h)
    if k == "diff":
        p = get(op[1])
        if op[2] == 1 and len(op) > 3 and op[3] == "omit":
            return "obj", p.diff()
        return "obj", (p.diff(n=op[2]) if (len(op) > 3 and op[3] == "kw") else p.diff(op[2]))
    if k == "integ":
        return "obj", get(op[1]).integrate()
    if k == "setitem":
        get(op[1])[to_key(op[2])] = to_py(op[3])
        return "none", None
    if k == "setzero":
        get(op[1]).zero = to_val(op[2])
        return "none", None
    if k == "hash":
        return "hash", hash(get(op[1]))
    if k == "eq":
        return "bool", get(op[1]) == get(op[2])
    if k == "ne":
        return "bool", get(op[1]) != get(op[2])
    if k == "eqs":
        p, cv = get(op[1]), to_py(op[2])
        e, n, r, rn = p == cv, p != cv, cv == p, cv != p
        if n == (not e) and r == e and rn == n:
            return "bool", e
        return "bool", "p == c: %r, p != c: %r, c == p: %r, c != p: %r" % (e, n, r, rn)
    raise ValueError("bad step %r" % (op,))


class Unbound(Exception):
    pass


def refs(op):
    k = op[0]
    if k == "ctor":
        return [op[2]] if op[1] == "poly" else []
    if k in ("bin", "scal"):
        return [op[2]] + ([op[3]] if k == "bin" else [])
    if k in ("div", "powp", "comp", "eq", "ne"):
        return [op[1], op[2]]
    return [op[1]]


def canon(p):
    """model-free canonical form for `==`"""
    z = p.zero
    zc = ("list",) if isinstance(z, list) else ("dict",) if isinstance(z, dict) else exact_value(z)
    return (frozenset((int(k), exact_value(v)) for k, v in p.terms(sort=False)), zc)


def impl(c):
    if c["entry"] == "pynum":
        return impl_pynum(c)
    from audiolazy import Poly
    vars_ = []
    steps = []
    fps, snaps = [], []            # per variable: cheap fingerprint of the instance, its last snapshot

    def fp(p):
        z = p.zero
        return (tuple((k, type(k), type(v), v) for k, v in p.terms(sort=False)), type(z), repr(z))

    def resnap():
        """the snapshots of the variables whose instance changed (or appeared) during this step"""
        while len(fps) < len(vars_):
            fps.append(None)
            snaps.append(None)
        ch = {}
        for i, v in enumerate(vars_):
            if v is not None:
                f = fp(v)
                if f != fps[i]:
                    fps[i], snaps[i] = f, snap(v)
                    ch[str(i)] = snaps[i]
        return ch
    for op in c["ops"]:
        def get(i):
            if i >= len(vars_) or vars_[i] is None:
                raise Unbound()
            return vars_[i]
        try:
            for i in refs(op):
                get(i)
        except Unbound:
            vars_.append(None)
            steps.append({"r": "skip"})
            continue
        try:
            kind, val = apply_op(op, get)
        except Exception as e:
            vars_.append(None)
            st = {"r": "err", "err": err_kind(e)}
        else:
            if kind == "obj":
                if not isinstance(val, Poly):
                    vars_.append(None)
                    st = {"r": "other", "type": type(val).__name__}
                else:
                    same = [i for i, v in enumerate(vars_) if v is val]
                    vars_.append(val)
                    st = {"r": "obj", "is": same[0] if same else None}
            else:
                vars_.append(None)
                if kind == "val":
                    st = {"r": "val", "v": enc_val(val)}
                elif kind == "bool":
                    st = {"r": "bool", "v": val if isinstance(val, bool) else repr(val)}
                elif kind == "hash":
                    st = {"r": "hash"}
                else:
                    st = {"r": "none"}
        st["changed"] = resnap()
        steps.append(st)
    # the final cross: every pair of variables
    live = [i for i, v in enumerate(vars_) if v is not None]
    hashes = {}
    for i in live:
        try:
            hashes[i] = hash(vars_[i])
        except Exception as e:
            hashes[i] = {"err": err_kind(e)}
    pairs = []
    canons = {i: canon(vars_[i]) for i in live}
    for i in live:
        for j in live:
            if j < i:
                continue
            a, b = vars_[i], vars_[j]
            row = {"i": i, "j": j}
            try:
                row["eq"] = bool(a == b)
                row["ne"] = bool(a != b)
                row["eq_rev"] = bool(b == a)
                row["canon_eq"] = canons[i] == canons[j]
                if isinstance(hashes[i], int) and isinstance(hashes[j], int):
                    row["hash_eq"] = hashes[i] == hashes[j]
                    row["in_set"] = b in {a}
                    row["set_len"] = len({a, b})
                    row["dict_get"] = {a: 1}.get(b, 0) == 1
                else:
                    row["hash_eq"] = None
            except Exception as e:
                row["err"] = err_kind(e)
            pairs.append(row)
    return {"steps": steps, "live": live, "pairs": pairs, "final": list(snaps),
            "hash_err": {str(i): h["err"] for i, h in hashes.items() if isinstance(h, dict)}}


def impl_pynum(c):
    a, b, n = to_py(c["a"]), to_py(c["b"]), c["n"]

    def t(f):
        try:
            return enc_num(f())
        except Exception as e:
            return {"err": err_kind(e)}
    return {"eq": a == b, "hash_a": hash(a), "hash_b": hash(b),
            "add": t(lambda: a + b), "sub": t(lambda: a - b), "mul": t(lambda: a * b), "div": t(lambda: a / b),
            "neg": t(lambda: -a), "pos": t(lambda: +a), "pow": t(lambda: a ** n), "powf": t(lambda: a ** float(n))}


# ----------------------------------------------------------------------------------------------------------------
# comparison
# ----------------------------------------------------------------------------------------------------------------
def num_same(iv, mv, exact=True):
    """impl tagged number vs model tagged number (model floats / complexes carry their exactness flag)"""
    if isinstance(iv, dict) or isinstance(mv, dict):
        return iv == mv
    if isinstance(mv, str) or isinstance(iv, str):
        return iv == mv
    if iv[0] != mv[0]:
        return False
    mexact = exact and (mv[-1] if mv[0] in ("f", "c") else True)
    n = 3 if mv[0] == "c" else 2
    for a, b in zip(iv[1:n], mv[1:n]):
        if mexact:
            if dec(a) != dec(b):
                return False
        else:
            x, y = dec(a), dec(b)
            if isinstance(x, float) or isinstance(y, float):
                if x != y:
                    return False
            elif abs(x - y) > TOL * max(1, abs(x), abs(y)):
                return False
    return True


def obj_problems(iv, mv):
    """impl snapshot vs model object (both exact)"""
    out = []
    if not isinstance(iv["terms"], list) or [k for k, _ in iv["terms"]] != [k for k, _ in mv["terms"]]:
        out.append("powers: impl=%s model=%s" % ([k for k, _ in iv["terms"]], [k for k, _ in mv["terms"]]))
    else:
        for (k, a), (_, b) in zip(iv["terms"], mv["terms"]):
            if not num_same(a, b):
                out.append("coefficient of x^%s: impl=%s model=%s" % (k, a, b))
    if not num_same(iv["zero"], mv["zero"]):
        out.append("zero: impl=%s model=%s" % (iv["zero"], mv["zero"]))
    for f in ("len", "is_polynomial", "order"):
        if iv[f] != mv[f]:
            out.append("%s: impl=%s model=%s" % (f, iv[f], mv[f]))
    if isinstance(iv["values"], dict) or isinstance(mv["values"], dict):
        if iv["values"] != mv["values"]:
            out.append("values(): impl=%s model=%s" % (iv["values"], mv["values"]))
    elif len(iv["values"]) != len(mv["values"]) or not all(num_same(a, b) for a, b in zip(iv["values"], mv["values"])):
        out.append("values(): impl=%s model=%s" % (iv["values"], mv["values"]))
    if isinstance(iv["getitem"], dict) or len(iv["getitem"]) != len(mv["getitem"]) or \
            not all(num_same(a, b) for a, b in zip(iv["getitem"], mv["getitem"])):
        out.append("p[k] for k in (-1, 0, 1.0, True, 7): impl=%s model=%s" % (iv["getitem"], mv["getitem"]))
    if not iv["unsorted_rev"]:
        out.append("terms(sort=False, reverse=True) is not the reversed creation order / terms('auto') differs")
    if not iv["terms_sorted"] or not iv["terms_rev"]:
        out.append("terms() / terms(sort=True, reverse=True) are not the sorted items")
    if iv["keytypes"] not in ([], ["int"], ["bool"], ["bool", "int"]):
        out.append("powers of types %s stored" % iv["keytypes"])
    if not iv["is_laurent"]:
        out.append("is_laurent() is False on integer powers")
    return out


def compare(c, io, drv):
    if c["entry"] == "pynum":
        return compare_pynum(c, io, drv)
    m = drv.get("model")
    out = []
    if not isinstance(m, dict) or "steps" not in m:
        return [("model", "no model answer: %s" % json.dumps(drv)[:200])]
    ops = c["ops"]
    heap = {}                      # model address -> model object (mirror of the model's heap)
    maddr = []                     # variable -> model address
    tainted = set()                # variables whose value depends on an inexact float operation
    isnap = {}                     # variable -> its current snapshot in the real code
    for t, (op, ist, mst) in enumerate(zip(ops, io["steps"], m["steps"])):
        what = "step %d %s: " % (t, json.dumps(op)[:90])
        for i, sn in ist.get("changed", {}).items():
            isnap[int(i)] = sn
        if mst["r"] == "skip" or ist["r"] == "skip":
            maddr.append(None)
            if mst["r"] != ist["r"]:
                out.append(("model", what + "impl %s, model %s" % (ist["r"], mst["r"])))
                return out
            continue
        dirty = any(i in tainted for i in refs(op))
        if "addr" in mst:
            heap[mst["addr"]] = mst["obj"]
        maddr.append(mst["addr"] if mst["r"] == "obj" else None)
        if mst["r"] == "obj" and (dirty or not mst["obj"]["exact"]):
            tainted.add(t)
        if mst["r"] in ("none", "hash") and not mst["obj"]["exact"]:
            tainted.update(i for i, a in enumerate(maddr) if a == mst["addr"])
        if dirty:
            # an operand is inexact: only the kind of answer is compared
            if (ist["r"] == "err") != (mst["r"] == "err") and op[0] not in ("divs", "div", "pow", "powp", "comp"):
                out.append(("model", what + "impl %s, model %s (inexact operands)" % (ist["r"], mst["r"])))
                return out
            if ist["r"] != mst["r"]:
                return out         # the histories have diverged on rounding residue: nothing more to compare
            continue
        if ist["r"] != mst["r"]:
            out.append(("model", what + "impl %s, model %s" % (json.dumps({k: v for k, v in ist.items() if k != "changed"})[:120],
                                                                json.dumps({k: v for k, v in mst.items() if k != "obj"})[:120])))
            return out
        r = ist["r"]
        if r == "err" and ist["err"] != mst["err"]:
            out.append(("model", what + "impl raises %s, model %s" % (ist["err"], mst["err"])))
        elif r == "bool" and ist["v"] != mst["v"]:
            out.append(("model", what + "impl %r, model %r" % (ist["v"], mst["v"])))
        elif r == "val" and not num_same(ist["v"], mst["v"]):
            out.append(("model", what + "impl %s, model %s" % (ist["v"], mst["v"])))
        elif r == "obj":
            # identity: the model returns an existing object only for p ** n (n <= 1, several terms); the impl may
            # return a new object there (the property does not ask for `self`), but never an alias elsewhere
            same_model = [i for i, a in enumerate(maddr[:-1]) if a is not None and a == mst["addr"]]
            if ist["is"] is not None and not same_model:
                out.append(("model", what + "the result IS the object of variable %d; the model returns a new object" % ist["is"]))
        # frame: every live object as the model has it now
        for i, sn in sorted(isnap.items()):
            if i in tainted or i >= len(maddr) or maddr[i] is None:
                continue
            pr = obj_problems(sn, heap[maddr[i]])
            if pr:
                out.append(("model", what + "variable %d afterwards: %s" % (i, "; ".join(pr[:3]))))
        if out:
            return out
    # the final cross
    eqm, hcl = m["eq"], m["hclass"]
    for row in io["pairs"]:
        i, j = row["i"], row["j"]
        what = "variables %d, %d: " % (i, j)
        if "err" in row:
            out.append(("model", what + "comparison raised " + row["err"]))
            out.append(("spec", what + "comparison raised " + row["err"]))
            continue
        # the property itself, model free
        if row["ne"] == row["eq"]:
            out.append(("spec", what + "p != q is not the negation of p == q"))
        if row["eq_rev"] != row["eq"]:
            out.append(("spec", what + "p == q is %r but q == p is %r" % (row["eq"], row["eq_rev"])))
        if row["eq"] and row["hash_eq"] is False:
            out.append(("spec", what + "p == q but hash(p) != hash(q)"))
        if row["eq"] and row["hash_eq"] and not (row["in_set"] and row["set_len"] == 1 and row["dict_get"]):
            out.append(("spec", what + "p == q but q is not found in {p} / {p: 1}"))
        if row["eq"] != row["canon_eq"]:
            out.append(("spec", what + "== is %r but the (terms, zero) values are %s" %
                        (row["eq"], "equal" if row["canon_eq"] else "different")))
        if i in tainted or j in tainted or maddr[i] is None or maddr[j] is None:
            continue
        a, b = maddr[i], maddr[j]
        if row["eq"] != eqm[a][b]:
            out.append(("model", what + "==: impl %r, model %r" % (row["eq"], eqm[a][b])))
        mh = None if (hcl[a] < 0 or hcl[b] < 0) else (hcl[a] == hcl[b])
        if (mh is None) != (row["hash_eq"] is None):
            out.append(("model", what + "hashable: impl %r, model %r" % (row["hash_eq"], mh)))
        elif mh and not row["hash_eq"]:
            out.append(("model", what + "the model's hash keys are equal (same (power, hash(coefficient)) set, same "
                                        "hash(zero)) but hash(p) != hash(q)"))
    for i, e in io["hash_err"].items():
        if e != "TypeError":
            out.append(("model", "hash(variable %s) raised %s" % (i, e)))
    return out


def compare_pynum(c, io, drv):
    m = drv.get("model")
    out = []
    if io["eq"] != m["eq"]:
        out.append(("model", "a == b: python %r, model %r" % (io["eq"], m["eq"])))
    for f in ("hash_a", "hash_b"):
        if io[f] != m[f]:
            out.append(("model", "%s: python %d, model %d" % (f, io[f], m[f])))
    if io["eq"] and io["hash_a"] != io["hash_b"]:
        out.append(("model", "python numbers equal with different hashes"))
    for f in ("add", "sub", "mul", "div", "neg", "pos", "pow", "powf"):
        if not num_same(io[f], m[f]):
            out.append(("model", "%s: python %s, model %s" % (f, io[f], m[f])))
    return out


def nontrivial(c, io):
    if c["entry"] == "pynum":
        return True
    return any(s["r"] == "obj" for s in io["steps"]) and len(io["live"]) >= 1


def classify(c, io, drv):
    if c["entry"] == "pynum":
        return "pynum"
    return "zhist:" + c.get("shape", "?")


# ----------------------------------------------------------------------------------------------------------------
# histograms
# ----------------------------------------------------------------------------------------------------------------
def zero_name(z, shape=None):
    if z is None:
        return "default (%s)" % (shape or "kw None")
    if isinstance(z, str):
        return "unhashable " + z
    v = to_py(z)
    return "%s %r" % (type(v).__name__, v)


def tally(eng, c, io):
    if c["entry"] == "pynum":
        eng.count("pynum_kinds", c["a"][0] + " op " + c["b"][0])
        eng.count("pynum_eq", "equal" if io["eq"] else "different")
        for f in ("div", "pow"):
            eng.count("pynum_" + f, "raises" if isinstance(io[f], dict) else io[f][0])
        return
    eng.count("z_shape", c.get("shape", "?"))
    eng.count("z_steps", min(len(c["ops"]), 16))
    kinds = set()
    for op, st in zip(c["ops"], io["steps"]):
        eng.count("z_op", op[0] + (":" + op[1] if op[0] in ("ctor", "bin", "scal") else ""))
        eng.count("z_answer", op[0] + " -> " + (st["r"] if st["r"] != "err" else st["err"]))
        if op[0] == "ctor":
            eng.count("z_zero_spelling", "ctor " + zero_name(op[3], op[4] if len(op) > 4 else None))
            eng.count("z_call_shape", "Poly(): " + (op[4] if len(op) > 4 else "kw"))
        elif op[0] == "copy":
            eng.count("z_zero_spelling", "copy " + zero_name(op[2]))
        elif op[0] == "setzero":
            eng.count("z_zero_spelling", "setter " + zero_name(op[2]))
        elif op[0] == "pow":
            eng.count("z_exponent", "%s %s" % ({"i": "int", "b": "bool", "f": "float"}[op[3]],
                                               "0" if op[2] == 0 else ("<0" if op[2] < 0 else ("1" if op[2] == 1 else ">1"))))
        elif op[0] == "call":
            eng.count("z_call", "horner=%s, %s point" % (op[3], "zero" if to_py(op[2]) == 0 else "non-zero"))
        for sn in st.get("changed", {}).values():
            for _, v in sn["terms"]:
                if isinstance(v, list):
                    kinds.add(v[0])
    for k in kinds:
        eng.count("z_coefficient_kind", {"b": "bool", "i": "int", "F": "Fraction", "f": "float", "c": "complex"}.get(k, k))
    zs = set()
    fin = io.get("final", [])
    for sn in fin:
        if sn:
            zs.add(json.dumps(sn["zero"]))
    eng.count("z_distinct_zero_spellings_alive", len(zs))
    ne = sum(1 for r in io["pairs"] if r.get("eq") and r["i"] < r["j"])
    nx = sum(1 for r in io["pairs"] if r.get("eq") and r["i"] < r["j"] and fin[r["i"]] and fin[r["j"]] and
             json.dumps(fin[r["i"]]["zero"]) != json.dumps(fin[r["j"]]["zero"]))
    eng.count("z_equal_pairs", min(ne, 10))
    eng.count("z_equal_pairs_with_differently_spelled_zeros", min(nx, 10))
    eng.count("z_unhashable_objects", len(io["hash_err"]))


# ----------------------------------------------------------------------------------------------------------------
# shrinking
# ----------------------------------------------------------------------------------------------------------------
def _renumber(op, f):
    op = list(op)
    k = op[0]
    if k == "ctor":
        if op[1] == "poly":
            op[2] = f(op[2])
    elif k in ("bin", "scal"):
        op[2] = f(op[2])
        if k == "bin":
            op[3] = f(op[3])
    elif k in ("div", "powp", "comp", "eq", "ne"):
        op[1], op[2] = f(op[1]), f(op[2])
    else:
        op[1] = f(op[1])
    return op


def shrink(c):
    if c["entry"] == "pynum":
        return
    ops = c["ops"]
    for t in range(len(ops) - 1, -1, -1):
        if any(t in refs(o) for o in ops[t + 1:]):
            continue
        rest = ops[:t] + [_renumber(o, lambda i: i - 1 if i > t else i) for o in ops[t + 1:]]
        if rest:
            yield dict(c, ops=rest)
    for t, op in enumerate(ops):
        if op[0] == "ctor" and op[1] == "dict" and len(op[2]) > 1:
            for i in range(len(op[2])):
                yield dict(c, ops=ops[:t] + [[op[0], op[1], op[2][:i] + op[2][i + 1:]] + op[3:]] + ops[t + 1:])
        if op[0] == "ctor" and op[1] == "list" and len(op[2]) > 1:
            yield dict(c, ops=ops[:t] + [[op[0], op[1], op[2][:-1]] + op[3:]] + ops[t + 1:])


# ----------------------------------------------------------------------------------------------------------------
# generation
# ----------------------------------------------------------------------------------------------------------------
INTV = [1, -1, 2, -2, 3, 5]
DYAD = ["1/2", "-1/2", "3/2", "-7/4", "1/4"]
OTHER = ["1/3", "2/3", "-5/9", "1/5"]
ZERO_SPELLINGS = [["i", 0], ["f", 0], ["F", 0], ["b", 0], ["c", 0, 0]]


def rnum(rng, zero_p=0.05, kinds=None):
    """a number literal of a random kind"""
    r = rng.random()
    if r < zero_p:
        return rng.choice(ZERO_SPELLINGS)
    if r < 0.5:
        v = rng.choice(INTV)
        k = rng.choice(kinds or ["i", "i", "F", "F", "f", "c", "b"])
        if k == "b":
            return ["b", 1] if v == 1 or rng.random() < 0.5 else ["i", v]
        return [k, v, 0] if k == "c" else [k, v]
    if r < 0.75:
        v = rng.choice(DYAD)
        k = rng.choice(kinds or ["F", "F", "f", "f", "c"])
        if k in ("i", "b"):
            k = "F"
        return [k, v, rng.choice([0, 0, "1/2", -1])] if k == "c" else [k, v]
    if r < 0.93 or (kinds and "F" not in kinds):
        return ["F", rng.choice(OTHER)]
    return ["c", rng.choice(INTV), rng.choice([1, -1, "1/2", 2])]


def rzero(rng, weird=0.04, unhashable=0.05):
    r = rng.random()
    if r < unhashable:
        return rng.choice(["[]", "{}"])
    if r < unhashable + weird:
        return rng.choice([["i", 1], ["F", "1/2"], ["b", 1], ["f", 1]])
    if r < unhashable + weird + 0.22:
        return None
    return rng.choice(ZERO_SPELLINGS)


def rkey(rng, lo=-2, hi=4):
    k = rng.randint(lo, hi)
    r = rng.random()
    if r < 0.08:
        return ["f", k]
    if r < 0.11 and k in (0, 1):
        return ["b", k]
    return k


def rctor(rng, pairs=None, zero="rand", poly_only=False, kinds=None):
    if zero == "rand":
        zero = rzero(rng)
    shape = rng.choice(["kw", "kw", "pos", "kwboth"]) if zero is not None else rng.choice(["omit", "omit", "kw", "pos"])
    if pairs is not None:
        return ["ctor", "dict", pairs, zero, shape if shape != "kw" or rng.random() < 0.8 else "plaindict"]
    r = rng.random()
    if r < 0.12:
        return ["ctor", "num", rnum(rng, 0.15, kinds), zero, shape]
    if r < 0.17:
        return ["ctor", "none", rng.choice([None, "explicit"]), zero, shape]
    if r < 0.4:
        return ["ctor", "list", [rnum(rng, 0.2, kinds) for _ in range(rng.randint(0, 4))], zero, shape]
    n = rng.randint(1, 3)
    ks = [rkey(rng, 0 if poly_only else -2, 4) for _ in range(n)]
    seen, pr = set(), []
    for k in ks:
        if key_nom(k) not in seen:
            seen.add(key_nom(k))
            pr.append([k, rnum(rng, 0.1, kinds)])
    return ["ctor", "dict", pr, zero, shape]


def base_pairs(rng, kinds=None):
    n = rng.randint(0, 3)
    ks = rng.sample(range(-2, 5), n)
    return [[k, rnum(rng, 0.0, kinds)] for k in ks]


def respell(rng, lit):
    """a numerically equal literal of another kind, if one exists"""
    v = to_py(lit)
    if isinstance(v, complex):
        if v.imag != 0:
            return lit
        v = F(v.real)
    v = F(v)
    opts = [["F", enc(v)]]
    if v.denominator == 1:
        opts.append(["i", int(v)])
        if v in (0, 1):
            opts.append(["b", int(v)])
    if v.denominator & (v.denominator - 1) == 0:
        opts += [["f", enc(v)], ["c", enc(v), 0]]
    return rng.choice(opts)


def gen_cross(rng):
    """one polynomial created in many ways (every spelling of the zero, every route), then crossed"""
    kinds = rng.choice([None, None, ["i", "F"], ["F"], ["f", "i"], ["i"]])
    pairs = base_pairs(rng, kinds)
    ops = [["ctor", "dict", pairs, None, "omit"]]
    n = rng.randint(3, 7)
    for _ in range(n):
        r = rng.random()
        src = rng.randrange(len(ops))
        z = rng.choice(ZERO_SPELLINGS + [None])
        if r < 0.25:
            sh = [[k, respell(rng, c)] for k, c in pairs]
            rng.shuffle(sh)
            if rng.random() < 0.3:
                sh.append([rng.choice([7, ["f", 7]]), rng.choice(ZERO_SPELLINGS)])     # a zero to compact away
            ops.append(rctor(rng, sh, zero=z))
        elif r < 0.4:
            ops.append(["ctor", "poly", src, z, rng.choice(["kw", "pos"]) if z is not None else rng.choice(["omit", "kw", "pos"])])
        elif r < 0.52:
            ops.append(["copy", src, z] + ([rng.choice(["omit", "kw"])] if z is None else [rng.choice(["pos", "kw"])]))
        elif r < 0.62:
            ops.append(["copy", src, None, "omit"])
            ops.append(["setzero", len(ops) - 1, rng.choice(ZERO_SPELLINGS)])
        elif r < 0.72:
            o = rng.choice(["adds", "radds", "subs"])
            ops.append(["scal", o, src, rng.choice(ZERO_SPELLINGS)])
        elif r < 0.8:
            ops.append(["scal", rng.choice(["muls", "rmuls"]), src, rng.choice([["i", 1], ["f", 1], ["F", 1], ["b", 1], ["c", 1, 0]])])
        elif r < 0.85:
            ops.append([rng.choice(["pos", "neg"]), src])
            if ops[-1][0] == "neg":
                ops.append(["neg", len(ops) - 1])
        elif r < 0.9:
            ops.append(["pow", src, 1, rng.choice(["i", "b"])])
        elif r < 0.95:
            ops.append(["ctor", "dict", [[1, rng.choice([["i", 1], ["F", 1], ["f", 1]])]], z, "kw" if z is not None else "omit"])
            ops.append(["comp", src, len(ops) - 1] if rng.random() < 0.5 else ["comp", len(ops) - 1, src])
        else:
            ops.append(["divs", src, rng.choice([["i", 1], ["F", 1], ["f", 1]])])
    if rng.random() < 0.4:
        ops.append(["call", rng.randrange(len(ops)), rnum(rng, 0.2), rng.choice(["auto", True, False])])
    return {"entry": "zhist", "shape": "cross", "ops": ops}


def gen_ring(rng):
    """both sides of ring / calculus identities on operands with differently spelled zeros"""
    ops = []
    for _ in range(3):
        ops.append(rctor(rng, zero=rng.choice(ZERO_SPELLINGS + [None]), poly_only=rng.random() < 0.5,
                         kinds=rng.choice([None, ["i", "F"], ["F"], ["i", "f"]])))
    p, q, r = 0, 1, 2

    def add(op):
        ops.append(op)
        return len(ops) - 1
    which = rng.sample(["add_comm", "mul_comm", "distrib", "add_assoc", "sub_self", "pow", "diff_add", "neg", "radd"], 4)
    for w in which:
        if w == "add_comm":
            add(["bin", "add", p, q]); add(["bin", "add", q, p])
        elif w == "mul_comm":
            add(["bin", "mul", p, q]); add(["bin", "mul", q, p])
        elif w == "distrib":
            s = add(["bin", "add", q, r]); add(["bin", "mul", p, s])
            a = add(["bin", "mul", p, q]); b = add(["bin", "mul", p, r]); add(["bin", "add", a, b]); add(["bin", "add", b, a])
        elif w == "add_assoc":
            s = add(["bin", "add", p, q]); add(["bin", "add", s, r])
            s2 = add(["bin", "add", q, r]); add(["bin", "add", p, s2]); add(["bin", "add", s2, p])
        elif w == "sub_self":
            add(["bin", "sub", p, p]); add(["bin", "sub", q, q]); add(["ctor", "none", None, rzero(rng, 0, 0), "kw"])
        elif w == "pow":
            n = rng.choice([2, 2, 3])
            add(["pow", p, n, "i"]); s = add(["bin", "mul", p, p])
            if n == 3:
                add(["bin", "mul", s, p])
            add(["pow", q, 0, rng.choice(["i", "f", "b"])]); add(["ctor", "num", ["i", 1], rzero(rng, 0, 0), "kw"])
        elif w == "diff_add":
            s = add(["bin", "add", p, q]); add(["diff", s, 1, rng.choice(["omit", "kw", "pos"])])
            a = add(["diff", p, 1]); b = add(["diff", q, 1]); add(["bin", "add", a, b]); add(["bin", "add", b, a])
        elif w == "neg":
            a = add(["neg", p]); add(["bin", "add", a, q]); add(["bin", "sub", q, p])
        elif w == "radd":
            c = rnum(rng, 0.1)
            add(["scal", "adds", p, c]); add(["scal", "radds", p, respell(rng, c)])
            add(["scal", "muls", p, c]); add(["scal", "rmuls", p, respell(rng, c)])
    return {"entry": "zhist", "shape": "ring", "ops": ops}


WALK = [("ctor", 10), ("ctorpoly", 6), ("copy", 6), ("neg", 2), ("pos", 2), ("bin", 16), ("scal", 10), ("divs", 3), ("div", 3),
        ("pow", 8), ("powp", 2), ("comp", 5), ("call", 8), ("diff", 3), ("integ", 3), ("setitem", 7), ("setzero", 6),
        ("hash", 4), ("eq", 3), ("ne", 2), ("eqs", 4)]


def gen_walk(rng, length, malformed=False):
    ops = [rctor(rng), rctor(rng)]
    if malformed:
        ops[0] = rctor(rng, zero=rng.choice(["[]", "{}", ["i", 1], ["F", "1/2"]]))
    frozen = set()                 # bases / results of `**` (possible aliases), hashed objects: no mutation afterwards
    objs = [0, 1]
    total = sum(w for _, w in WALK)
    while len(ops) < length:
        x = rng.random() * total
        for k, w in WALK:
            x -= w
            if x < 0:
                break
        i, j = rng.choice(objs), rng.choice(objs)
        t = len(ops)
        if k == "ctor":
            ops.append(rctor(rng, zero=rzero(rng, 0.1, 0.1) if malformed else "rand")); objs.append(t)
        elif k == "ctorpoly":
            z = rzero(rng)
            ops.append(["ctor", "poly", i, z, rng.choice(["kw", "pos"])]); objs.append(t)
        elif k == "copy":
            z = rzero(rng)
            ops.append(["copy", i, z, rng.choice(["kw", "pos"]) if z is not None else rng.choice(["omit", "kw"])]); objs.append(t)
        elif k in ("neg", "pos"):
            ops.append([k, i]); objs.append(t)
        elif k == "bin":
            ops.append(["bin", rng.choice(["add", "sub", "mul"]), i, j]); objs.append(t)
        elif k == "scal":
            ops.append(["scal", rng.choice(["adds", "radds", "subs", "rsubs", "muls", "rmuls"]), i, rnum(rng, 0.15)]); objs.append(t)
        elif k == "divs":
            ops.append(["divs", i, rnum(rng, 0.1, rng.choice([None, ["i"], ["F"], ["f"]]))]); objs.append(t)
        elif k == "div":
            ops.append(["div", i, j]); objs.append(t)
        elif k == "pow":
            ek = rng.choice(["i", "i", "i", "f", "b"])
            n = rng.choice([0, 1]) if ek == "b" else rng.choice([0, 1, 2, 2, 3, -1, -2])
            ops.append(["pow", i, n, ek]); objs.append(t); frozen.update((i, t))
        elif k == "powp":
            ops.append(["ctor", "num", rng.choice([["i", 2], ["i", 0], ["f", 2], ["b", 1], ["i", 1], ["i", -1]]), rzero(rng), "kw"])
            ops.append(["powp", i, t]); objs.append(t + 1); frozen.update((i, t + 1))
        elif k == "comp":
            ops.append(["comp", i, j]); objs.append(t)
        elif k == "call":
            ops.append(["call", i, rnum(rng, 0.2), rng.choice(["auto", True, False])] +
                       ([rng.choice(["omit", "pos", "kw"])] if rng.random() < 0.5 else []))
        elif k == "diff":
            ops.append(["diff", i, rng.choice([1, 1, 2, 0]), "pos"]); objs.append(t)
        elif k == "integ":
            ops.append(["integ", i]); objs.append(t)
        elif k == "setitem":
            if i not in frozen:
                ops.append(["setitem", i, rkey(rng), rnum(rng, 0.3)])
        elif k == "setzero":
            if i not in frozen:
                ops.append(["setzero", i, (rzero(rng, 0.1, 0.1) if malformed else rzero(rng)) or ["f", 0]])
        elif k == "hash":
            ops.append(["hash", i])
            if rng.random() < 0.6:
                ops.append(rng.choice([["setzero", i, rng.choice(ZERO_SPELLINGS)], ["setitem", i, rkey(rng), rnum(rng, 0.3)]]))
        elif k in ("eq", "ne"):
            ops.append([k, i, j])
        elif k == "eqs":
            ops.append(["eqs", i, rnum(rng, 0.3)])
    return {"entry": "zhist", "shape": "malformed" if malformed else "walk", "ops": ops}


def gen_weird(rng):
    """zeros that are not numerically zero / not hashable: compaction is against the instance's OWN zero"""
    pairs = base_pairs(rng) or [[1, ["i", 2]]]
    c = rng.choice(pairs)[1]
    w = respell(rng, c)                                  # a "zero" equal to one of the coefficients
    ops = [["ctor", "dict", pairs, rng.choice([None, ["i", 0], w]), "kw"]]
    for _ in range(rng.randint(2, 5)):
        r = rng.random()
        src = rng.choice([i for i, o in enumerate(ops) if o[0] not in ("setzero", "setitem", "hash", "call", "eqs")])
        if r < 0.3:
            ops.append(["copy", src, None, "omit"])
            ops.append(["setzero", len(ops) - 1, rng.choice([w, respell(rng, c), "[]", "{}", ["i", 0]])])
        elif r < 0.45:
            ops.append(["copy", src, rng.choice([w, "[]", "{}"]), rng.choice(["kw", "pos"])])
        elif r < 0.6:
            ops.append(["copy", src, None, "omit"])
            ops.append(["setitem", len(ops) - 1, rkey(rng), rng.choice([respell(rng, c), ["i", 0], ["f", 0]])])
        elif r < 0.7:
            ops.append(["scal", rng.choice(["adds", "radds", "muls", "rmuls", "subs"]), src, respell(rng, c)])
        elif r < 0.8:
            ops.append(["ctor", "poly", src, rng.choice([w, None, "[]"]), "kw"])
        elif r < 0.9:
            ops.append(["call", src, rng.choice([["i", 0], ["f", 0], ["i", 2]]), rng.choice(["auto", True, False])])
        else:
            ops.append(["eqs", src, respell(rng, c)])
    return {"entry": "zhist", "shape": "weird-zero", "ops": ops}


def gen_pynum(rng):
    a = rnum(rng, 0.15)
    b = respell(rng, a) if rng.random() < 0.3 else rnum(rng, 0.15)
    if rng.random() < 0.1:
        a = rng.choice([["i", 2 ** 61 - 1], ["i", -(2 ** 61 - 1)], ["i", 2 ** 61], ["F", "1/%d" % (2 ** 61 - 1)],
                        ["i", -1], ["f", -1], ["c", -1, 0], ["c", 0, -1], ["F", "-1/1"], ["i", 2 ** 64 + 3], ["f", 2 ** 70],
                        ["c", "-1/2", "-1/4"], ["i", -2]])
    return {"entry": "pynum", "a": a, "b": b, "n": rng.randint(-3, 4)}


def fixed_cases():
    """exhaustive small universe: every spelling of the zero x every way of giving it, on one polynomial"""
    out = []
    pairs = [[1, ["F", "1/2"]], [0, ["i", 3]]]
    ops = []
    for z in ZERO_SPELLINGS + [None]:
        for shape in (["kw", "pos", "kwboth", "plaindict"] if z is not None else ["omit", "kw", "pos"]):
            ops.append(["ctor", "dict", pairs, z, shape])
    out.append({"entry": "zhist", "shape": "fixed", "ops": ops})
    ops = [["ctor", "dict", pairs, None, "omit"]]
    for z in ZERO_SPELLINGS:
        ops.append(["ctor", "poly", 0, z, "kw"])
        ops.append(["copy", 0, z, "kw"])
        ops.append(["copy", 0, None, "omit"])
        ops.append(["setzero", len(ops) - 1, z])
        ops.append(["scal", "radds", 0, z])
        ops.append(["scal", "adds", len(ops) - 5, z])
    out.append({"entry": "zhist", "shape": "fixed", "ops": ops})
    for z in ("[]", "{}"):
        out.append({"entry": "zhist", "shape": "fixed", "ops": [
            ["ctor", "list", [["i", 1], ["i", 0], ["i", 2]], z, "kw"], ["hash", 0], ["ctor", "list", [["i", 1], ["i", 0], ["i", 2]], z, "kw"],
            ["eq", 0, 2], ["call", 0, ["i", 0], "auto"], ["ctor", "none", None, z, "kw"], ["call", 5, ["i", 3], "auto"],
            ["scal", "radds", 0, ["i", 1]], ["bin", "mul", 0, 2], ["setzero", 0, ["i", 0]], ["hash", 0], ["setzero", 0, ["f", 0]]]})
    for a in ZERO_SPELLINGS + [["i", 1], ["f", "1/2"], ["F", "1/3"], ["c", 1, 1], ["b", 1], ["i", -1], ["f", -1], ["c", -1, 0]]:
        for b in ZERO_SPELLINGS + [["i", 2], ["f", "1/2"], ["F", "1/3"], ["c", "1/2", -1], ["b", 1]]:
            out.append({"entry": "pynum", "a": a, "b": b, "n": 2})
            out.append({"entry": "pynum", "a": a, "b": b, "n": -1})
    return out


def generate(rng, tier, scale=1):
    quick = tier == "quick"
    out = fixed_cases() if scale == 1 else []
    for _ in range((300 if quick else 2500) * scale):
        out.append(gen_cross(rng))
    for _ in range((200 if quick else 1500) * scale):
        out.append(gen_ring(rng))
    for _ in range((300 if quick else 2500) * scale):
        out.append(gen_walk(rng, rng.randint(3, 12)))
    for _ in range((80 if quick else 600) * scale):
        out.append(gen_walk(rng, rng.randint(3, 9), malformed=True))
    for _ in range((120 if quick else 800) * scale):
        out.append(gen_weird(rng))
    for _ in range((400 if quick else 4000) * scale):
        out.append(gen_pynum(rng))
    return out
