"""C09 — overlap_add.list and the stft wrapper.  Tie: small exhaustive grid + random + malformed stream
+ window OBJECTS of every kind the model knows (the resolution rule "callable and not a Stream => wnd(size)" is
the Lean model's, the tie only builds real objects) + call shapes / spellings / the default strategy
+ histories (several calls sharing argument objects: no argument is modified, no state between calls).

Only `overlap_add.list` can be tied: `overlap_add.numpy` (the default strategy) needs numpy, which the
sandbox interpreter does not have; its loop (`blk[:-hop] += old[hop:]`) is the same recurrence.
"""
import common
from common import enc, dec, err_kind, close
from props import c09_tr
from fractions import Fraction as F

ID = "C09"
RULE = ("grid (size<=6 x hop<=size x m<=4 x normalise x window kind) + random (size<=8, m<=5, four window "
        "kinds + tuple/Stream/empty, int/Fraction/float samples) + window objects (22 kinds of REAL Python objects: list, tuple, "
        "generator, list iterator, range, deque, dict, user class with __iter__ only; Stream, thub, Stream subclass; def function, "
        "lambda, functools.partial, bound method, class used as factory, StrategyDict strategy (own and window.hann/hamming/...), user "
        "class with __call__ only; the StrategyDict objects `window` / `wsymm` themselves and an own StrategyDict, user class with "
        "__call__ AND __iter__ (iteration gives other numbers or parameter tuples), list subclass with __call__; a number; the call "
        "returning list / tuple / generator / Stream / deque / None / a number, of the right or a wrong length, from a table by size) as "
        "wnd of overlap_add.list and as wnd / ola_wnd of the stft wrapper in its three calling styles; call shapes of overlap_add.list "
        "(keywords, all positional, size/hop positional + keywords, omitted = defaults), normalize spelled True/1/2/Fraction/float/str/"
        "list and False/0/None/0.0/''/[] , blocks as lists / iterator / Stream / tuples / deques / generators, the default and numpy "
        "strategies (numpy absent: ImportError first); ola_size / ola_hop / ola_wnd / ola_normalize given or left to their defaults, "
        "ola_ option names starting with o, l, a, _ after the prefix + malformed stream (wrong block or window "
        "length, non-iterable window, hop>size, hop=0, size detection on no block) + histories (1-6 calls of "
        "overlap_add.list / the stft wrapper sharing argument objects: one window list / tuple, one memoised window "
        "callable returning the same list object, one list of block objects, one signal list, one kwargs dict, one "
        "wrapper object or one partial application specialised twice, one window as wnd and ola_wnd; normalise on/off "
        "varying between the calls; every call is compared with the model / spec of that call taken alone on the "
        "argument values as they were before the first call, every shared object must still equal its pristine "
        "copy after every call, and a disagreeing later call is run again as the only call of a fresh process); "
        "non-trivial = no error, at least one block and one output sample (history: one call with output and one "
        "object used twice); distinct = distinct JSON case")
TRUSTED = [
    "window objects: the harness builds a real Python object from (kind, what the call returns by size, what iteration gives) "
    "(harness/props/c09.py:_build_wobj) and sends exactly that description to the driver; whether the object is called or iterated is "
    "decided by ALV.C09.callStep from ALV.C09.WKind.caps, and that table is compared with callable() / isinstance(., Iterable) / "
    "isinstance(., Stream) of the real objects on every run (extra_checks window-kind-table-*); trusted: that _build_wobj builds "
    "an object that behaves as described (its __call__ returns the table row, its __iter__ the data)",
    "window objects whose ITERATION gives things that are not numbers and that are not callable (a list / tuple / generator / deque of "
    "parameter tuples) are drawn as wnd of overlap_add.list (ALV.C09.olaOpaque: TypeError at the first arithmetic on an item, none with "
    "zero blocks and no normalisation); as wnd / ola_wnd of the stft wrapper they are modelled (window-items) but not drawn",
    "the Lean model / spec is a pure function of the request of one call: `ALV.Driver.C09.handle \"hist\"` answers every call "
    "of a history by `handleCall` on that call's own request, so 'the result depends only on the call's own argument values' "
    "holds for the model by construction (nothing to prove); that the REAL code has no state between calls and leaves its "
    "arguments alone is what the history cases test, it is not proved",
    "history isolation (harness/props/c09.py:_zygote_start): a process forked before the first case runs, one forked child per "
    "history; the first 300 histories of a run always, later ones when they disagree in-process",
    "translator harness/props/c09_tr.py (ast of audiolazy/lazy_analysis.py -> lean/ALV/Gen/C09Src.lean, rewritten on every check; "
    "ALV.Props.C09.src_*_is_model prove the regenerated definitions equal to the model functions of ALV/Model/C09.lean / C09Wnd.lean): "
    "covers the whole body of overlap_add.list (signature and defaults, size detection, hop default, window paragraph, normalisation, "
    "window application, the slice-assignment loop, the flush), the keyword logic of the stft wrapper (merge, the two checks, pops and "
    "their defaults in order, ola_params = blk_params.copy() at its place, the ola_ routing loop, the dispatch shape) and the window "
    "paragraph of blk_gen.  What the translator TRUSTS (= the semantics it assigns to the Python subset, the same the hand model assumed, "
    "now written once in the translator's rules and sampled by the differential run): `l[a:]` / `l[:a]` = pyDrop / pyTake for any integer "
    "bound; `l[:a] = it` / `l[a:] = it` replace that slice by list(it); `xmap(f, l, it)` over a block ITERATOR consumes min(len) items of "
    "it and the next use of `it` sees the rest (a list is not consumed); `[c] * n` = replicate; `0.` / `1` are the carrier's 0 / 1; "
    "`Stream(l).map(abs).blocks(h).map(tuple)` = ALV.C08.blocks h h 0 (map pyAbs l); `max` of nothing = ValueError, `sum` = left fold from "
    "0, `xzip(*rows)` = columns cut at the shortest row; `a / b` of sizes and `1 / n` raise ZeroDivisionError iff the divisor is 0 and "
    "`ceil(size / hop)` is the exact integer ceiling; `if x:` on a list / number = non-empty / non-zero; a generator that raises keeps what "
    "it yielded before; the three predicates callable / isinstance(., Iterable) / isinstance(., Stream) and `is None` are the only things "
    "the window paragraph can see of an object (WObj / CallRes); dict.copy / update / pop / item assignment / iteration order = the "
    "association-list operations dictUpdate / dictPop / dictSet; exception classes and messages are mapped to the model's error "
    "constructors by a fixed table (an unknown one is a TranslationError); `None > int` = TypeError",
    "NOT under the translator (hand-written model tied by sampling only): blk_gen after its window paragraph (numpy default imports, "
    "trans / itrans lambdas, the funcs comprehension, reduce, the two block loops = ALV.C09.blkGen / Stages.funcs / process), the partial "
    "form of stft (mix_dict / result lambdas = stftDefaults), the clause for window items that are not numbers (olaOpaque), "
    "Stream.blocks (= C08 model), the generator protocol of @tostream",
    "overlap_add.numpy is NOT tied (numpy unavailable in the sandbox); only overlap_add.list is run",
    "regime labelling (harness/props/c09.py:_regime): exact comparison when every intermediate value is a small dyadic "
    "rational (binary floats exact), else relative tolerance 1e-9",
]
ASSUMPTIONS = [
    "arguments that are consumed by nature (generators, Streams, iterators) are not handed to two calls; `blocks` reusing its "
    "deque between the blocks it yields is documented behaviour and not flagged (blocks are snapshotted when received)",
    "size >= 1; the property quantifies over 1 <= hop <= size (hop > size and hop = 0 are modelled and tied, "
    "but the spec is silent there)",
    "normalisation is modelled over an ordered field (int / Fraction / float windows); complex windows are outside",
    "window items that are not numbers: tied for hop < size or normalisation on or zero blocks; with hop = size, no normalisation and "
    "at least one block no addition touches an item and int * tuple is a tuple, so the outcome depends on the Python TYPE of the samples "
    "(ints: tuples come out, Fractions / floats: TypeError) -- outside the model, not drawn",
    "ceil(size / hop) is computed by the code in floating point; modelled as exact integer ceiling",
]

MANIFEST = {
    "text": "Lean 4 theorems about an executable, code-shaped model of overlap_add.list (window resolution, normalisation gain, "
            "slice-assignment loop, flush, size checks) and of the stft wrapper (keyword merge and routing, blk_gen, run), for all "
            "block counts / sizes / hops / windows / keyword dictionaries; tied to /repo by a translator that regenerates the model of "
            "overlap_add.list and of the wrapper's keyword logic from the source on every check (theorems src_*_is_model) and by a "
            "differential run (impl vs model vs spec) on every check",
    "note": "the window argument is a Python OBJECT in the model (callable / iterable / Stream predicates, call result, iteration "
            "result; 22 kinds, table checked against real objects) and the binding of ola_params to the strategy's signature with its "
            "defaults is a model function with theorems; overlap_add.numpy cannot be run here (no numpy) and is tied only as far as "
            "'imports numpy first'; Python slice assignment, map() consumption and the "
            "generator protocol are modelled, not verified; floats injected by the impl (mem=[0.]*size, 1/ceil) are compared exactly "
            "on dyadic inputs and with relative tolerance 1e-9 otherwise; known defect D7 recorded in known_findings/C09.json",
    "technique": "Lean 4 machine-checked proof over an executable model + source translator harness/props/c09_tr.py (the bodies of "
                 "overlap_add.list, of the stft wrapper's keyword logic and of blk_gen's window paragraph are regenerated from the source "
                 "with ast into lean/ALV/Gen/C09Src.lean on every run and proved equal to the model: src_*_is_model) + differential "
                 "correspondence with spies in three calling styles + call histories sharing argument objects (argument immutability, "
                 "independence from earlier calls)",
}

TOL = F(1, 10 ** 9)
_LAST = {}     # id(case) -> last driver payload (read by tally)


# ----------------------------------------------------------------------------------------------
# numbers
# ----------------------------------------------------------------------------------------------
def _is_dyadic(x, maxbits=24):
    x = F(x)
    d = x.denominator
    return d & (d - 1) == 0 and d <= 2 ** maxbits and abs(x.numerator) <= 2 ** maxbits


def _py(j, num):
    """JSON number -> the Python value handed to the impl"""
    v = dec(j)
    if num == "float":
        return float(v)
    if num == "frac":
        return v
    return int(v) if v.denominator == 1 else v


def _rand_val(rng, num):
    if num == "int":
        return rng.randint(-9, 9)
    if num == "float":      # dyadic, so that the float is exactly the rational sent to Lean
        return enc(F(rng.randint(-64, 64), rng.choice([1, 2, 4, 8])))
    r = rng.random()
    if r < 0.5:
        return enc(F(rng.randint(-12, 12), rng.choice([1, 2, 4, 8])))
    return enc(F(rng.randint(-12, 12), rng.choice([1, 2, 3, 5, 6, 7])))


def _rand_wnd(rng, size, num):
    r = rng.random()
    if r < 0.12:
        return [1] * size
    if r < 0.2:
        return [0] * size                      # gain 0 branch
    if r < 0.35:                               # triangular-like (COLA for hop = size/2)
        half = (size + 1) // 2
        return [enc(F(min(i + 1, size - i), half)) for i in range(size)]
    if r < 0.5:
        return [rng.choice([1, 2, 4, enc(F(1, 2)), enc(F(1, 4)), -1, -2, 0]) for _ in range(size)]
    return [_rand_val(rng, "frac" if num == "int" and rng.random() < .3 else num) for _ in range(size)]


def _strided_gain(w, hop):
    return max(sum(abs(x) for x in w[j::hop]) for j in range(hop))


def _regime(c):
    """'exact' iff every true intermediate value is a small dyadic rational (then binary floating point
    computes it exactly); otherwise 'float' (the impl injects floats: mem=[0.]*size, 1/ceil(), pad 0.)."""
    try:
        vals = [dec(x) for b in c["blks"] for x in b]
        if not all(_is_dyadic(v) for v in vals):
            return "float"
        size = c["size"] if c["size"] is not None else (len(c["blks"][0]) if c["blks"] else 0)
        hop = c["hop"] if c["hop"] is not None else size
        w = c.get("wnd")
        wl = None
        if w is not None and w.get("kind") == "seq":
            wl = [dec(x) for x in w["w"]]
        elif w is not None and w.get("kind") == "callable":
            tab = dict((n, l) for n, l in w["table"])
            l = tab.get(size, w.get("default"))
            wl = [dec(x) for x in l] if l is not None else None
        if w is not None and w.get("kind") == "obj":
            # a window OBJECT: which of its numbers are used is the model's business; exact only when
            # every number it could contribute is a small dyadic rational and nothing is divided
            if c["normalize"] or not all(_is_dyadic(dec(x)) for x in _wobj_nums(w)):
                return "float"
            return "exact"
        if wl is not None and not all(_is_dyadic(v) for v in wl):
            return "float"
        if c["normalize"] and hop >= 1 and size >= 1:
            if wl:
                g = _strided_gain(wl, hop)
                if g != 0 and not all(_is_dyadic(v / g) for v in wl):
                    return "float"
            else:
                cdiv = -(-size // hop)
                if cdiv & (cdiv - 1):
                    return "float"
        return "exact"
    except Exception:
        return "float"



# ----------------------------------------------------------------------------------------------
# window OBJECTS: real Python objects of every kind of `ALV.C09.WKind` (lean/ALV/Model/C09Wnd.lean).
# The case says what calling the object with a size returns (`call`: a table by size and a default)
# and what iterating over it gives (`iter`); WHICH of the two the code has to use is decided by the
# Lean model (`WKind.caps` + `callStep`), never here.
#   {"kind": "obj", "wk": <WKind name>, "variant": …, "ret": "list"|"tuple"|"gen"|"stream"|"deque",
#    "call": {"table": [[n, res], …], "default": res} | None, "iter": res | None}
#   res = {"r": "nums", "w": […]} | {"r": "opaque", "n": k} | {"r": "none"} | {"r": "other"}
# ----------------------------------------------------------------------------------------------
WK_DATA = ["list", "tuple", "generator", "list_iterator", "range", "deque", "dict", "user_iter_only"]
WK_STREAM = ["stream", "thub", "stream_subclass"]
WK_CALL = ["function", "lambda", "partial", "bound_method", "class", "strategy", "user_call_only"]
WK_BOTH = ["strategy_dict", "user_both", "callable_list"]
WK_ALL = WK_DATA + WK_STREAM + WK_CALL + WK_BOTH + ["scalar"]
WK_REUSABLE = ["list", "tuple", "range", "deque", "dict", "user_iter_only", "function", "lambda", "partial",
               "bound_method", "class", "strategy", "user_call_only", "strategy_dict", "user_both", "callable_list"]
REAL_STRATEGIES = ["hann", "hamming", "triangular", "bartlett", "blackman", "rectangular"]


def _wobj_nums(w):
    out = []
    if w.get("call"):
        for _, r in w["call"]["table"]:
            out += r.get("w", [])
        out += w["call"]["default"].get("w", [])
    if w.get("iter"):
        out += w["iter"].get("w", [])
    return out


def _real_window(name, n):
    """the values of a window of the library under test (C14 is about them; here they are just numbers)"""
    import audiolazy
    f = audiolazy.window if name == "window" else audiolazy.wsymm if name == "wsymm" else audiolazy.window[name]
    return [enc(x) for x in f(n)]


WK_OPAQUE = ["list", "tuple", "generator", "list_iterator", "deque", "user_iter_only"]


def _mk_wobj(rng, wk, size, hop, num, wsize=None, ret_bad=None, opaque=False):
    """a window object of kind `wk` for blocks of `size` items; `opaque`: its items are parameter tuples, not numbers"""
    wsize = size if wsize is None else wsize
    if opaque and wk in WK_OPAQUE:
        return {"kind": "obj", "wk": wk, "variant": "user", "ret": "list", "call": None, "iter": {"r": "opaque", "n": wsize}}
    d = wsize - size
    sizes = sorted({size, hop, max(size - 1, 1), size + 1} - {0})
    w = {"kind": "obj", "wk": wk, "variant": "user", "ret": "list", "call": None, "iter": None}
    callable_ = wk in WK_CALL + WK_BOTH + WK_STREAM
    iterable = wk in WK_DATA + WK_STREAM + WK_BOTH
    if callable_ and wk not in WK_STREAM:
        real = None
        if wk == "strategy" and rng.random() < 0.5:
            real = rng.choice(REAL_STRATEGIES)
        if wk == "strategy_dict" and rng.random() < 0.6:
            real = rng.choice(["window", "wsymm"])
        if real is not None and d == 0 and ret_bad is None:
            w["variant"] = "real:" + real
            table = [[n, {"r": "nums", "w": _real_window(real, n)}] for n in sizes]
            w["call"] = {"table": table, "default": {"r": "other"}}
        else:
            table = [[n, {"r": "nums", "w": _rand_wnd(rng, n + d, num)}] for n in sizes if n + d >= 0]
            dflt = {"r": "other"}
            if ret_bad is not None and wk != "class":
                table = [[n, {"r": ret_bad}] for n, _ in table]
            if wk == "class":
                dflt = {"r": "nums", "w": []}
            w["call"] = {"table": table, "default": dflt}
            w["ret"] = rng.choice(["list", "list", "tuple", "gen", "stream", "deque"]) if wk != "class" else "list"
    if iterable:
        if wk == "range":
            a = rng.randint(-3, 3)
            w["iter"] = {"r": "nums", "w": list(range(a, a + wsize))}
        elif wk == "dict":
            w["iter"] = {"r": "nums", "w": rng.sample(range(-20, 21), min(wsize, 41))}
        elif wk in WK_BOTH:
            # what the code must NOT use: other numbers of the right length, or things that are not numbers
            if w["variant"].startswith("real:"):
                import audiolazy
                w["iter"] = {"r": "opaque", "n": len(list(audiolazy.window if w["variant"] == "real:window" else audiolazy.wsymm))}
            elif wk == "strategy_dict":
                w["iter"] = {"r": "opaque", "n": 2}
            elif rng.random() < 0.6:
                w["iter"] = {"r": "nums", "w": _rand_wnd(rng, size, num)}
            else:
                w["iter"] = {"r": "opaque", "n": rng.choice([1, 2, size])}
        else:
            w["iter"] = {"r": "nums", "w": _rand_wnd(rng, wsize, num)}
    return w


def _res_py(res, num, ret="list"):
    """the Python value a window call returns / an iteration yields from"""
    from audiolazy import Stream
    from collections import deque
    r = res["r"]
    if r == "none":
        return None
    if r == "other":
        return 3
    if r == "opaque":
        return [("ramp", i) for i in range(res["n"])]
    l = [_py(x, num) for x in res["w"]]
    if ret == "tuple":
        return tuple(l)
    if ret == "gen":
        return (x for x in l)
    if ret == "stream":
        return Stream(l)
    if ret == "deque":
        return deque(l)
    return l


def _build_wobj(w, num):
    """the REAL Python object described by a window-object spec"""
    import functools
    import audiolazy
    from audiolazy import Stream, thub, StrategyDict
    from collections import deque
    wk, variant, ret = w["wk"], w.get("variant", "user"), w.get("ret", "list")
    if variant.startswith("real:"):
        name = variant[5:]
        return audiolazy.window if name == "window" else audiolazy.wsymm if name == "wsymm" else audiolazy.window[name]
    tab = dict((n, r) for n, r in w["call"]["table"]) if w.get("call") else {}
    dflt = w["call"]["default"] if w.get("call") else {"r": "other"}

    def call(n):
        return _res_py(tab.get(n, dflt), num, ret)
    itl = _res_py(w["iter"], num) if w.get("iter") else []
    if wk in ("range", "dict"):
        itl = [int(dec(x)) for x in w["iter"]["w"]]      # ints whatever the number kind of the samples
    if wk == "list":
        return list(itl)
    if wk == "tuple":
        return tuple(itl)
    if wk == "generator":
        return (x for x in itl)
    if wk == "list_iterator":
        return iter(list(itl))
    if wk == "range":
        return range(itl[0], itl[0] + len(itl)) if itl else range(0)
    if wk == "deque":
        return deque(itl)
    if wk == "dict":
        return dict.fromkeys(itl)
    if wk == "user_iter_only":
        class Samples(object):
            def __iter__(self):
                return iter(list(itl))
        return Samples()
    if wk == "stream":
        return Stream(itl)
    if wk == "thub":
        import warnings
        from audiolazy.lazy_stream import MemoryLeakWarning
        warnings.simplefilter("ignore", MemoryLeakWarning)      # a hub whose copy is never asked for (error before)
        return thub(itl, 1)
    if wk == "stream_subclass":
        class WindowStream(Stream):
            pass
        return WindowStream(itl)
    if wk == "function":
        def window_function(size):
            return call(size)
        return window_function
    if wk == "lambda":
        return lambda size: call(size)
    if wk == "partial":
        return functools.partial(lambda family, size: call(size), "family")
    if wk == "bound_method":
        class Family(object):
            def make(self, size):
                return call(size)
        return Family().make
    if wk == "class":
        class WindowList(list):
            def __init__(self, size):
                list.__init__(self, call(size))
        return WindowList
    if wk == "strategy":
        sd = StrategyDict("c09_window_family")
        sd.strategy("plain", "default")(lambda size: call(size))
        return sd.plain
    if wk == "user_call_only":
        class WindowFamily(object):
            def __call__(self, size):
                return call(size)
        return WindowFamily()
    if wk == "strategy_dict":
        sd = StrategyDict("c09_window_family")
        sd.strategy("plain", "default")(lambda size: call(size))
        sd.strategy("other")(lambda size: [7] * size)
        return sd
    if wk == "user_both":
        class ParamWindow(object):
            def __call__(self, size):
                return call(size)

            def __iter__(self):
                return iter(list(itl))
        return ParamWindow()
    if wk == "callable_list":
        class CallableList(list):
            def __call__(self, size):
                return call(size)
        return CallableList(itl)
    if wk == "scalar":
        return 5
    raise ValueError("window object kind " + wk)


def _caps(o):
    from audiolazy import Stream
    try:
        from collections.abc import Iterable
    except ImportError:
        from collections import Iterable
    return {"callable": bool(callable(o)), "iterable": isinstance(o, Iterable), "stream": isinstance(o, Stream)}


# ----------------------------------------------------------------------------------------------
# generation
# ----------------------------------------------------------------------------------------------
WKINDS = ["none", "list", "callable", "gen", "tuple", "stream", "callable_gen"]
ROUTES = ["list", "iter", "stream", "tuples", "deques"]


NORM_SPELL = {True: [True, True, 1, 2, "frac:1/2", "float:0.5", "yes", "[0]"], False: [False, False, 0, None, "float:0.0", "", "[]", "frac:0"]}


def _spell(v):
    """the Python value of a spelled keyword value"""
    if isinstance(v, str):
        if v.startswith("frac:"):
            return F(v[5:])
        if v.startswith("float:"):
            return float(v[6:])
        if v == "[0]":
            return [0]
        if v == "[]":
            return []
    return v


def _mk_ola(rng, size, hop, m, normalize, wkind, num, size_given=True, hop_given=True, route="list",
            wsize=None, blens=None, ret_bad=None, opaque=False):
    blens = blens if blens is not None else [size] * m
    blks = [[_rand_val(rng, num) for _ in range(n)] for n in blens]
    wsize = size if wsize is None else wsize
    if wkind.startswith("obj:"):
        wnd = _mk_wobj(rng, wkind[4:], size, hop, num, wsize=wsize, ret_bad=ret_bad, opaque=opaque)
    elif wkind == "none":
        wnd = None
    elif wkind in ("callable", "callable_gen"):
        # a table by size: the code must call wnd(size), not wnd(hop) or wnd(len(first block) + 1)
        table = [[n, _rand_wnd(rng, n + (wsize - size), num)] for n in sorted({size, hop, max(size - 1, 1), size + 1}) if n + (wsize - size) >= 0]
        wnd = {"kind": "callable", "table": table, "default": None}
    elif wkind == "scalar":
        wnd = {"kind": "scalar"}
    elif wkind == "callable_scalar":
        wnd = {"kind": "callable", "table": [], "default": None}
    elif wkind == "empty":
        wnd = {"kind": "seq", "w": []}
    else:
        wnd = {"kind": "seq", "w": _rand_wnd(rng, wsize, num)}
    c = {"entry": "ola", "blks": blks, "size": size if size_given else None,
         "hop": hop if hop_given else None, "wnd": wnd, "normalize": normalize,
         "wkind": wkind, "num": num, "route": route}
    if normalize and rng.random() < 0.5:
        c["normalize_given"] = False          # rely on the default normalize=True
    elif rng.random() < 0.35:
        c["norm_spell"] = rng.choice(NORM_SPELL[bool(normalize)])      # truthiness, not `is True`
    r = rng.random()
    c["argstyle"] = "kw" if r < 0.6 else "pos" if r < 0.8 else "mixed"
    if route == "gens" and not size_given:
        c["route"] = "iter"                   # len() of a generator block: outside (TypeError)
    c["regime"] = _regime(c)
    return c


def _mk_ola_sig(rng, i):
    size = rng.randint(1, 8)
    divs = [h for h in range(1, size + 1) if size % h == 0]
    cola = i % 3 != 2
    hop = rng.choice(divs) if cola else rng.randint(1, size)
    num = rng.choice(["int", "frac", "float", "float"])
    n = rng.choice([0, 1, size - 1, size, size + 1, rng.randint(0, 30), size + 3 * hop, size + 2 * hop - 1])
    sig = [_rand_val(rng, num) for _ in range(max(0, n))]
    mode = rng.choice(["rect_norm", "cola", "cola", "cola_scaled_norm", "random"]) if cola else "random"
    normalize = False
    if mode == "rect_norm":
        wnd, normalize, wkind = None, True, "none"
    elif mode == "cola":
        wnd, wkind = {"kind": "seq", "w": _cola_wnd(rng, size, hop)}, rng.choice(["list", "gen", "tuple"])
    elif mode == "cola_scaled_norm":
        # a non-negative COLA window times a constant: normalisation divides the constant out again
        c = size // hop
        w = [None] * size
        for j in range(hop):
            parts = [F(rng.randint(0, 4), 4) for _ in range(c - 1)]
            parts.append(max(F(0), 1 - sum(parts)))
            tot = sum(parts)
            parts = [p / tot for p in parts] if tot else [F(1, c)] * c
            for k in range(c):
                w[j + k * hop] = parts[k]
        scale = rng.choice([2, 3, F(1, 2), 5])
        wnd, normalize, wkind = {"kind": "seq", "w": [enc(x * scale) for x in w]}, True, "list"
    else:
        wk = rng.choice(["none", "list", "callable"])
        normalize = rng.random() < 0.5
        wkind = wk
        if wk == "none":
            wnd = None
        elif wk == "callable":
            wnd = {"kind": "callable", "table": [[m, _rand_wnd(rng, m, num)] for m in sorted({size, hop})], "default": None}
        else:
            wnd = {"kind": "seq", "w": _rand_wnd(rng, size, num)}
    c = {"entry": "ola_sig", "sig": sig, "bsize": size, "bhop": hop,
         "size": size if rng.random() < 0.5 else None, "hop": hop, "wnd": wnd, "normalize": normalize,
         "wkind": wkind, "num": num, "route": rng.choice(["stream", "func"])}
    c["regime"] = _regime(dict(c, blks=[sig], size=size))
    return c


def generate(rng, tier, scale=1):
    cases = []
    quick = tier == "quick"
    S = 6 if quick else 9
    M = 4 if quick else 6
    # --- grid over the property's quantifier ----------------------------------------------------
    if scale == 1:
        i = 0
        for size in range(1, S + 1):
            for hop in range(1, size + 1):
                for m in range(0, M + 1):
                    for normalize in (False, True):
                        i += 1
                        wkind = WKINDS[i % len(WKINDS)]
                        num = ("int", "frac", "float")[i % 3]
                        cases.append(_mk_ola(rng, size, hop, m, normalize, wkind, num,
                                             size_given=(i % 4 != 0) or m == 0,
                                             hop_given=(hop != size) or i % 2 == 0,
                                             route=ROUTES[i % len(ROUTES)]))
    # --- random -----------------------------------------------------------------------------------
    nrand = (500 if quick else 18000) * scale
    for _ in range(nrand):
        size = rng.randint(1, 8 if quick else 16)
        hop = rng.choice([1, size, max(1, size // 2), rng.randint(1, size), rng.randint(1, size)])
        m = rng.choice([0, 1, 2, 3, 4, 5] if quick else list(range(0, 13)))
        wkind = rng.choice(WKINDS + ["list", "none", "empty"])
        num = rng.choice(["int", "frac", "frac", "float"])
        size_given = rng.random() < 0.6 or m == 0
        cases.append(_mk_ola(rng, size, hop, m, rng.random() < 0.6, wkind, num, size_given=size_given,
                             hop_given=(hop != size) or rng.random() < 0.5, route=rng.choice(ROUTES)))
    # --- window OBJECTS of every kind (the resolution rule is the model's) ----------------------------
    nobj = (24 if quick else 400) * scale
    j = 0
    for rep in range(nobj):
        for wk in WK_ALL:
            j += 1
            size = rng.randint(1, 6 if quick else 10)
            hop = rng.choice([size, max(1, size // 2), rng.randint(1, size)])
            m = rng.choice([0, 1, 2, 2, 3])
            num = rng.choice(["int", "frac", "frac", "float"])
            size_given = rng.random() < 0.6 or m == 0
            r = rng.random()
            wsize, ret_bad = None, None
            if r < 0.08:
                wsize = max(0, size + rng.choice([-1, 1, -size]))
            elif r < 0.16 and wk in WK_CALL + WK_BOTH:
                ret_bad = rng.choice(["none", "other"])
            cases.append(_mk_ola(rng, size, hop, m, rng.random() < 0.5, "obj:" + wk, num, size_given=size_given,
                                 hop_given=(hop != size) or rng.random() < 0.5, route=rng.choice(ROUTES + ["gens"]),
                                 wsize=wsize, ret_bad=ret_bad))
    # --- window items that are not numbers (tuples of parameters): nothing fails before the first arithmetic ----
    for i in range((90 if quick else 1500) * scale):
        size = rng.randint(1, 6)
        hop = rng.choice([size, max(1, size // 2), rng.randint(1, size)])
        m = rng.choice([0, 0, 1, 2, 3])
        wsize = size if rng.random() < 0.8 else rng.choice([0, max(1, size - 1), size + 1])
        if i % 2 and m >= 1 and hop == size:
            # hop = size without normalisation: no addition ever touches an item and int * tuple is a tuple, so whether
            # anything is raised depends on the TYPE of the samples -- outside the model (ASSUMPTIONS)
            if size >= 2:
                hop = rng.randint(1, size - 1)
            else:
                m = 0
        cases.append(_mk_ola(rng, size, hop, m, i % 2 == 0, "obj:" + rng.choice(WK_OPAQUE), rng.choice(["int", "frac", "float"]),
                             size_given=rng.random() < 0.6 or m == 0, hop_given=(hop != size) or rng.random() < 0.5,
                             route=rng.choice(ROUTES), wsize=wsize, opaque=True))
    # --- the other strategies: `overlap_add(…)` is `overlap_add.numpy(…)` (numpy first, absent here) ----
    for _ in range((12 if quick else 60) * scale):
        size = rng.randint(1, 5)
        c = _mk_ola(rng, size, rng.randint(1, size), rng.randint(0, 3), rng.random() < 0.5,
                    rng.choice(["none", "list", "obj:strategy_dict", "obj:function"]), "int",
                    size_given=rng.random() < 0.5)
        c["strategy"] = rng.choice(["default", "numpy"])
        cases.append(c)
    # --- malformed / outside the quantifier -----------------------------------------------------
    nbad = (160 if quick else 3000) * scale
    for _ in range(nbad):
        size = rng.randint(1, 6)
        hop = rng.randint(1, size)
        m = rng.randint(1, 4)
        kind = rng.choice(["blk_short", "blk_long", "blk_long2", "wnd_size", "wnd_scalar", "wnd_callable_scalar",
                           "hop_gt", "hop_zero", "detect_empty", "declared_size", "first_blk"])
        normalize = rng.random() < 0.5
        wkind = rng.choice(["none", "list", "callable", "gen"])
        num = rng.choice(["int", "frac"])
        if kind in ("blk_short", "blk_long", "blk_long2"):
            blens = [size] * m
            d = {"blk_short": -rng.randint(1, size), "blk_long": 1, "blk_long2": rng.randint(2, 4)}[kind]
            blens[rng.randrange(m)] = max(0, size + d)
            cases.append(_mk_ola(rng, size, hop, m, normalize, wkind, num, blens=blens,
                                 size_given=rng.random() < 0.7))
        elif kind == "first_blk":
            blens = [size] * m
            blens[0] = max(1, size + rng.choice([-1, 1]))
            cases.append(_mk_ola(rng, size, hop, m, normalize, wkind, num, blens=blens, size_given=True))
        elif kind == "wnd_size":
            cases.append(_mk_ola(rng, size, hop, m, normalize, rng.choice(["list", "callable", "gen", "stream"]), num,
                                 wsize=max(1, size + rng.choice([-2, -1, 1, 2]))))
        elif kind == "wnd_scalar":
            cases.append(_mk_ola(rng, size, hop, m, normalize, "scalar", num))
        elif kind == "wnd_callable_scalar":
            cases.append(_mk_ola(rng, size, hop, m, normalize, "callable_scalar", num))
        elif kind == "hop_gt":
            cases.append(_mk_ola(rng, size, size + rng.randint(1, 4), m, normalize, wkind, num))
        elif kind == "hop_zero":
            cases.append(_mk_ola(rng, size, 0, m, normalize, wkind, num))
        elif kind == "detect_empty":
            cases.append(_mk_ola(rng, size, hop, 0, normalize, wkind, num, size_given=False,
                                 hop_given=rng.random() < 0.5, route=rng.choice(ROUTES)))
        else:  # declared size differs from the blocks
            blens = [max(1, size + rng.choice([-1, 1]))] * m
            cases.append(_mk_ola(rng, size, hop, m, normalize, wkind, num, blens=blens, size_given=True))
    # --- blocks -> overlap-add round trip (ties ola_blocks_inverse to Stream.blocks + overlap_add.list) ----
    nrt = (260 if quick else 5000) * scale
    for i in range(nrt):
        cases.append(_mk_ola_sig(rng, i))
    # --- stft wrapper ------------------------------------------------------------------------------
    nst = (450 if quick else 9000) * scale
    for i in range(nst):
        kind = ("plain", "plain", "identity", "identity", "bad", "ola_none", "plain_np")[i % 7]
        cases.append(_mk_stft(rng, kind))
    # --- the length clause at m = 0 and m = 1: every window kind x normalise x (size, hop) --------------
    if scale == 1:
        S0 = 4 if quick else 7
        i = 0
        for size in range(1, S0 + 1):
            for hop in range(1, size + 1):
                for m in (0, 1):
                    for wkind in WKINDS + ["obj:" + wk for wk in WK_ALL]:
                        for normalize in ((False, True) if not wkind.startswith("obj:") else (bool((i + m) % 2),)):
                            i += 1
                            c = _mk_ola(rng, size, hop, m, normalize, wkind, ("int", "frac", "float")[i % 3],
                                        size_given=(m == 0) or i % 3 != 0, hop_given=(hop != size) or i % 2 == 0,
                                        route=ROUTES[i % len(ROUTES)])
                            c["grid"] = "m01"
                            cases.append(c)
    # --- the wrapper on signals too short to form a block (at most size - hop samples, the empty one included)
    for i in range((150 if quick else 2500) * scale):
        c = _mk_stft(rng, ("identity", "plain", "plain", "ola_none")[i % 4])
        merged = {}
        for d in c["chain"] + [c["call"]]:
            for k, v in d:
                merged[k] = v
        sz, hp = merged.get("size"), merged.get("hop")
        if isinstance(sz, int):
            hp = hp if isinstance(hp, int) else sz
            n = rng.randint(0, max(0, sz - hp)) if i % 5 else max(0, sz - hp) + 1      # 1 in 5: just one block
            c["sig"] = [_rand_val(rng, c["num"]) for _ in range(n)]
            c["kind"] = "short"
            c["regime"] = _regime_stft(c)
        cases.append(c)
    # --- histories of the partial / decorator forms (a partial is an immutable options record) -------
    for _ in range((350 if quick else 7000) * scale):
        cases.append(_mk_phist(rng, quick))
    # --- histories: calls sharing argument objects (no argument is modified, no state between calls) ----
    cases.extend(_gen_hist(rng, tier, scale))
    return cases


# ----------------------------------------------------------------------------------------------
# stft cases
# ----------------------------------------------------------------------------------------------
FN1 = ["id", "rev", "neg", "scale", "shift", "rot", "cumsum"]
FN2 = ["addsize", "scalesize"] + FN1
STYLES = ["direct", "decorator", "partial"]


def _cola_wnd(rng, size, hop):
    """a window of `size` items whose hop-shifted copies sum to one (hop | size)"""
    c = size // hop
    w = [None] * size
    for j in range(hop):
        parts = [F(rng.randint(-2, 6), rng.choice([1, 2, 4])) for _ in range(c - 1)]
        parts.append(1 - sum(parts))
        rng.shuffle(parts)
        for i in range(c):
            w[j + i * hop] = enc(parts[i])
    return w


def _split_kwargs(rng, items, style, overrides):
    """distribute (key, value) pairs over the keyword dicts of the chosen calling style and the final call;
    `overrides` are (key, stale value) pairs placed at an earlier level than the real value"""
    nlev = {"direct": 1, "decorator": 1, "partial": rng.choice([2, 2, 3])}[style]
    levels = [[] for _ in range(nlev + 1)]          # last one = keywords of the wrapper call
    place = {}
    for k, v in items:
        lv = rng.randrange(nlev + 1) if rng.random() < 0.8 else nlev
        place[k] = lv
        levels[lv].append([k, v])
    for k, v in overrides:
        if k in place and place[k] > 0:
            lv = rng.randrange(place[k])
            levels[lv].append([k, v])
    for l in levels:
        rng.shuffle(l)
    return levels[:-1], levels[-1]


def _mk_stft(rng, kind):
    num = rng.choice(["int", "int", "frac", "float", "float"])
    size = rng.randint(1, 6)
    hop = rng.choice([None, size, rng.randint(1, size), rng.randint(1, size)])
    objs = {}
    items = [["size", size]]
    overrides = []
    style = rng.choice(STYLES)
    identity = kind == "identity"
    if identity:
        divs = [h for h in range(1, size + 1) if size % h == 0]
        hop = rng.choice(divs)
    if hop is not None or rng.random() < 0.2:
        items.append(["hop", hop if hop is not None else size])
    eff_hop = hop if hop is not None else size
    # analysis window
    wa = rng.choice(["absent", "none", "list", "callable", "gen", "tuple", "obj", "obj", "obj"])
    if identity:
        wa = rng.choice(["absent", "none", "cola", "ones"])
    if wa == "none":
        items.append(["wnd", None])
    elif wa in ("cola", "ones"):
        w = _cola_wnd(rng, size, eff_hop) if wa == "cola" else [1] * size
        objs["@wa"] = {"type": "wnd", "wnd": {"kind": "seq", "w": w}, "wkind": "list"}
        items.append(["wnd", "@wa"])
    elif wa != "absent":
        if wa == "callable":
            wnd = {"kind": "callable", "table": [[n, _rand_wnd(rng, n, num)] for n in sorted({size, eff_hop, size + 1})],
                   "default": None}
        elif wa == "obj":
            wk = rng.choice(WK_DATA + WK_STREAM + WK_CALL * 2 + WK_BOTH * 4)
            r = rng.random()
            wnd = _mk_wobj(rng, wk, size, eff_hop, num, wsize=(size + rng.choice([-1, 1])) if r < 0.06 else None,
                           ret_bad=rng.choice(["none", "none", "other"]) if 0.06 <= r < 0.24 and wk in WK_CALL + WK_BOTH else None)
            wa = "obj:" + wk
        else:
            wnd = {"kind": "seq", "w": _rand_wnd(rng, size, num)}
        objs["@wa"] = {"type": "wnd", "wnd": wnd, "wkind": wa}
        items.append(["wnd", "@wa"])
        if rng.random() < 0.3:
            objs["@wa_old"] = {"type": "wnd", "wnd": {"kind": "seq", "w": _rand_wnd(rng, size, num)}, "wkind": "list"}
            overrides.append(["wnd", "@wa_old"])
    # processing steps
    for role, table in (("before", FN1), ("transform", FN2), ("inverse_transform", FN2), ("after", FN1)):
        r = rng.random()
        if identity or r < 0.45:
            items.append([role, None])
        elif r < 0.85 or kind != "plain_np":
            tag = "@" + role
            objs[tag] = {"type": "fn", "name": rng.choice(table), "arg": _rand_val(rng, "frac" if num == "float" else num)}
            items.append([role, tag])
            if rng.random() < 0.25:
                objs[tag + "_old"] = {"type": "fn", "name": rng.choice(table), "arg": 1}
                overrides.append([role, tag + "_old"])
        # else: left unspecified -> numpy default
    objs["@f"] = {"type": "fn", "name": "id" if identity else rng.choice(FN1),
                  "arg": _rand_val(rng, "frac" if num == "float" else num)}
    # overlap-add strategy and its options
    r = rng.random()
    ola = "@spy" if r < 0.45 else "@list" if r < 0.8 else None if r < 0.95 else "absent"
    if identity:
        ola = rng.choice(["@spy", "@list"])
    if kind == "ola_none":
        ola = None
    if ola != "absent":
        items.append(["ola", ola])
    objs["@spy"] = {"type": "ola", "name": "spy"}
    objs["@list"] = {"type": "ola", "name": "list"}
    normalize = None
    if ola in ("@spy", "@list") or kind == "bad":
        if identity:
            mode = rng.choice(["rect_norm", "cola_nonorm", "ones_nonorm"]) if wa in ("absent", "none", "ones") else "ones_nonorm"
            if mode == "rect_norm":
                if rng.random() < 0.5:
                    items.append(["ola_normalize", True])
                if rng.random() < 0.5:
                    items.append(["ola_wnd", None])
                normalize = True
            else:
                w = _cola_wnd(rng, size, eff_hop) if mode == "cola_nonorm" else [1] * size
                if mode == "ones_nonorm" and wa != "cola" and eff_hop != size:
                    w = _cola_wnd(rng, size, eff_hop)
                objs["@ws"] = {"type": "wnd", "wnd": {"kind": "seq", "w": w}, "wkind": "list"}
                items.append(["ola_wnd", "@ws"])
                items.append(["ola_normalize", False])
                normalize = False
        else:
            if rng.random() < 0.6:
                normalize = rng.random() < 0.5
                items.append(["ola_normalize", rng.choice([normalize, normalize, int(normalize)] + ([None] if not normalize else []))])
            wk = rng.choice(["absent", "none", "list", "list", "callable", "gen", "obj", "obj", "obj"])
            if wk == "none":
                items.append(["ola_wnd", None])
            elif wk != "absent":
                if wk == "callable":
                    wnd = {"kind": "callable", "table": [[n, _rand_wnd(rng, n, num)] for n in sorted({size, eff_hop})], "default": None}
                elif wk == "obj":
                    k2 = rng.choice(WK_DATA + WK_STREAM + WK_CALL * 2 + WK_BOTH * 4)
                    wnd = _mk_wobj(rng, k2, size, eff_hop, num,
                                   ret_bad=rng.choice(["none", "other"]) if rng.random() < 0.08 and k2 in WK_CALL + WK_BOTH else None)
                    wk = "obj:" + k2
                else:
                    wnd = {"kind": "seq", "w": _rand_wnd(rng, size if rng.random() < 0.93 else size + 1, num)}
                objs["@ws"] = {"type": "wnd", "wnd": wnd, "wkind": wk}
                items.append(["ola_wnd", "@ws"])
                if rng.random() < 0.2:
                    objs["@ws_old"] = {"type": "wnd", "wnd": {"kind": "seq", "w": [1] * size}, "wkind": "list"}
                    overrides.append(["ola_wnd", "@ws_old"])
            r = rng.random()
            if r < 0.10:
                items.append(["ola_hop", rng.randint(1, size)])
            elif r < 0.14:
                items.append(["ola_size", rng.choice([size, size + 1])])
            elif r < 0.18:
                items.append(["ola_size", size])
                items.append(["ola_hop", rng.randint(1, size)])
            elif r < 0.30:
                items.append(["ola_" + rng.choice(["foo", "ola_wnd", "siz", "", "latency", "length", "offset", "align", "_x",
                                                   "ola_", "a", "all", "olaola_hop", "o_l_a", "normalise", "Size", "wnd_"]),
                              rng.randint(0, 3)])
    if kind == "bad":
        b = rng.choice(["unknown", "unknown2", "no_size", "hop_gt", "hop_none", "ola_none_opt", "wa_size", "wa_scalar", "wa_empty"])
        if b == "unknown":
            items.append([rng.choice(["foo", "olawnd", "window", "Size", "ol_a_x", "_ola_wnd", "ola_", "OLA_wnd"]), rng.randint(0, 3)])
        elif b == "unknown2":
            items.append(["zzz", 1])
            items.append(["ola_zzz", 2])
        elif b == "no_size":
            items = [it for it in items if it[0] != "size"]
        elif b == "hop_gt":
            items = [it for it in items if it[0] != "hop"] + [["hop", size + rng.randint(1, 3)]]
        elif b == "hop_none":
            items = [it for it in items if it[0] != "hop"] + [["hop", None]]
        elif b == "ola_none_opt":
            items = [it for it in items if it[0] != "ola"] + [["ola", None], ["ola_" + rng.choice(["wnd", "normalize", "x"]), None]]
        else:
            wnd = {"wa_size": {"kind": "seq", "w": _rand_wnd(rng, size + rng.choice([-1, 1, 2]), num)},
                   "wa_scalar": {"kind": "scalar"}, "wa_empty": {"kind": "seq", "w": []}}[b]
            objs["@wa"] = {"type": "wnd", "wnd": wnd, "wkind": "list"}
            items = [it for it in items if it[0] != "wnd"] + [["wnd", "@wa"]]
    chain, call = _split_kwargs(rng, items, style, overrides)
    n = rng.choice([0, 1, size - 1, size, size + 1, rng.randint(0, 14), size + 2 * eff_hop, size + 3 * eff_hop - 1])
    sig = [_rand_val(rng, num) for _ in range(max(0, n))]
    used = {v for d in chain + [call] for _, v in d if isinstance(v, str)} | {"@f"}
    c = {"entry": "stft", "style": style, "chain": chain, "call": call, "func": "@f", "sig": sig,
         "objs": {k: v for k, v in objs.items() if k in used}, "num": num, "kind": kind}
    c["regime"] = _regime_stft(c)
    return c


def _regime_stft(c):
    """exact iff no normalisation is requested anywhere and every number involved is a small dyadic rational"""
    try:
        nums = list(c["sig"])
        for o in c["objs"].values():
            if o["type"] == "wnd":
                w = o["wnd"]
                if w.get("kind") == "seq":
                    nums += w["w"]
                elif w.get("kind") == "callable":
                    for _, l in w["table"]:
                        nums += l
                elif w.get("kind") == "obj":
                    nums += _wobj_nums(w)
            elif o["type"] == "fn":
                nums.append(o.get("arg", 0))
        if not all(_is_dyadic(dec(x), 12) for x in nums):
            return "float"
        merged = {}
        for d in c["chain"] + [c["call"]]:
            for k, v in d:
                merged[k] = v
        if merged.get("ola_normalize", True) not in (False, 0, None):
            return "float"
        return "exact"
    except Exception:
        return "float"


# ----------------------------------------------------------------------------------------------
# impl
# ----------------------------------------------------------------------------------------------
def _err_obs(e):
    msg = str(e)
    kind = err_kind(e)
    if "Window should be" in msg:
        tag = "window-type"
    elif "Incompatible window size" in msg:
        tag = "window-size"
    elif "Wrong block size" in msg:
        tag = "block-size"
    elif kind == "ZeroDivisionError":
        tag = "zero-division"
    elif "max()" in msg:
        tag = "max-empty"
    elif kind == "TypeError" and ("bad operand type for abs()" in msg or "unsupported operand type(s) for +" in msg
                                  or "can't multiply sequence by non-int" in msg):
        tag = "window-items"           # the first arithmetic on a window item that is not a number
    elif "generator raised StopIteration" in msg:
        tag = "generator-raised-StopIteration"
    elif "numpy" in msg and isinstance(e, ImportError):
        kind, tag = "ImportError", "numpy-default"
    else:
        tag = "other:" + msg[:60]
    return {"kind": kind, "tag": tag}


def _py_wnd(c):
    from audiolazy import Stream
    w, wkind, num = c["wnd"], c["wkind"], c["num"]
    if w is None:
        return None
    if w["kind"] == "obj":
        return _build_wobj(w, num)
    if w["kind"] == "scalar":
        return 5
    if w["kind"] == "callable":
        tab = dict((n, [_py(x, num) for x in l]) for n, l in w["table"])
        dflt = None if w.get("default") is None else [_py(x, num) for x in w["default"]]
        if wkind == "callable_gen":
            return lambda n: (x for x in tab[n]) if n in tab else (None if dflt is None else iter(dflt))
        if wkind == "memo":
            # a memoised window function (functools.lru_cache style): the SAME list object on every call
            def memo(n):
                return tab[n] if n in tab else (3 if dflt is None else dflt)
            memo.cache = tab
            return memo
        return lambda n: list(tab[n]) if n in tab else (3 if dflt is None else list(dflt))
    l = [_py(x, num) for x in w["w"]]
    if wkind == "gen":
        return (x for x in l)
    if wkind == "tuple":
        return tuple(l)
    if wkind == "stream":
        return Stream(l)
    return l


def _py_blks(c):
    from audiolazy import Stream
    from collections import deque
    num, route = c["num"], c.get("route", "list")
    blks = [[_py(x, num) for x in b] for b in c["blks"]]
    if route == "iter":
        return (b for b in blks)
    if route == "stream":
        return Stream(blks)
    if route == "tuples":
        return [tuple(b) for b in blks]
    if route == "deques":
        return iter([deque(b) for b in blks])
    if route == "gens":
        return [(x for x in b) for b in blks]
    return blks


# --- stft -----------------------------------------------------------------------------------------
def _fn_table(num):
    def rot(b):
        b = list(b)
        return b[1:] + b[:1]

    def cumsum(b):
        out, acc = [], 0
        for x in b:
            acc = acc + x
            out.append(acc)
        return out
    f1 = {
        "id": lambda b, a: b,
        "rev": lambda b, a: list(reversed(list(b))),
        "neg": lambda b, a: [-x for x in b],
        "scale": lambda b, a: [x * a for x in b],
        "shift": lambda b, a: [x + a for x in b],
        "rot": lambda b, a: rot(b),
        "cumsum": lambda b, a: cumsum(b),
    }
    f2 = {
        "addsize": lambda b, a, n: [x + n for x in b],
        "scalesize": lambda b, a, n: [x * n for x in b],
    }
    return f1, f2


def _stft_plan_err(e):
    msg, kind = str(e), err_kind(e)
    import re
    if "Missing 'size'" in msg:
        return "plan", {"kind": kind, "tag": "missing-size"}
    if "Hop value" in msg:
        return "plan", {"kind": kind, "tag": "hop-gt-size"}
    if "not supported between" in msg:
        return "plan", {"kind": kind, "tag": "hop-not-comparable"}
    m = re.match(r"Extra '(.*)' argument with no overlap-add", msg)
    if m:
        return "plan", {"kind": kind, "tag": "ola-option-without-ola:" + m.group(1)}
    m = re.match(r"Unknown '(.*)' extra argument", msg)
    if m:
        return "plan", {"kind": kind, "tag": "unknown-key:" + m.group(1)}
    if "unexpected keyword argument" in msg:
        return "run", {"kind": kind, "tag": "ola-kwarg"}
    if "numpy" in msg:
        return "run", {"kind": "ImportError", "tag": "numpy-default"}
    return "other", _err_obs(e)


class _StftEnv(object):
    """the Python objects named by the tags of a case (built once: in a history they are shared by the calls)"""

    def __init__(self, objs, num):
        from audiolazy import overlap_add
        self.num = num
        self.rec = rec = {"trace": [], "ola_kwargs": None}
        self.pyobj, self.tag_of = {}, {}
        f1, f2 = _fn_table(num)
        env = self

        def mk_fn(tag, o):
            name, a = o["name"], _py(o.get("arg", 0), num)

            def spy(blk, *extra):
                rec["trace"].append([tag, [enc(x) for x in blk], list(extra)])
                if name in f2:
                    return f2[name](blk, a, *extra)
                return f1[name](blk, a)
            spy.__name__ = "spy_" + tag[1:]
            return spy

        def spy_ola(blks, **kw):
            rec["ola_kwargs"] = [[k, env.canon(v)] for k, v in kw.items()]
            return overlap_add.list(blks, **kw)

        for tag, o in objs.items():
            if o["type"] == "fn":
                self.pyobj[tag] = mk_fn(tag, o)
            elif o["type"] == "wnd":
                self.pyobj[tag] = _py_wnd({"wnd": o["wnd"], "wkind": o.get("wkind", "list"), "num": num})
            elif o["type"] == "ola":
                self.pyobj[tag] = spy_ola if o["name"] == "spy" else overlap_add.list
        for tag, v in self.pyobj.items():
            self.tag_of[id(v)] = tag

    def canon(self, v):
        if v is None or isinstance(v, (bool, int)):
            return v if not isinstance(v, bool) else int(v)
        return self.tag_of.get(id(v), "<object>")

    def kw(self, d):
        return dict((k, self.pyobj[v] if isinstance(v, str) else v) for k, v in d)


def _stft_exec(env, c, sig=None, call_kw=None, cache=None, reuse="none"):
    """one call of the wrapper described by `c` (style, chain, func, call, sig).  `cache` / `reuse`: in a
    history the wrapper ("wrapper") or the first partial application ("partial") is built once and used again"""
    from audiolazy import stft
    rec, kw, pyobj = env.rec, env.kw, env.pyobj
    rec["trace"], rec["ola_kwargs"] = [], None
    if sig is None:
        sig = [_py(x, env.num) for x in c["sig"]]
    if call_kw is None:
        call_kw = kw(c["call"])
    cache = {} if cache is None else cache
    obs = {"phase": None, "err": None, "out": None, "blocks": None}
    try:
        chain = c["chain"]
        func = pyobj[c["func"]]
        proc = cache.get("proc") if reuse == "wrapper" else None
        if proc is None:
            if c["style"] == "direct":
                proc = stft(func, **kw(chain[0]))
            else:
                p = cache.get("partial") if reuse == "partial" else None
                if p is None:
                    p = stft(**kw(chain[0]))                  # what `@stft(**kw)` does
                    if reuse == "partial":
                        cache["partial"] = p
                if c["style"] == "decorator":
                    proc = p(func)
                else:
                    for d in chain[1:-1]:
                        p = p(**kw(d))
                    proc = p(func, **kw(chain[-1]))
            if reuse == "wrapper":
                cache["proc"] = proc
        obs["phase"] = "call"
        res = proc(sig, **call_kw)
        obs["phase"] = "iter"
        merged = {}
        for d in chain + [c["call"]]:
            merged.update(dict((k, v) for k, v in d))
        items = []
        if merged.get("ola", "x") is None:
            obs["blocks"] = items
            for b in res:
                items.append([enc(x) for x in b])       # snapshot at yield time
        else:
            obs["out"] = items
            for x in res:
                items.append(enc(x))
    except Exception as e:
        where, eo = _stft_plan_err(e)
        obs["err"] = dict(eo, where=where)
    obs["trace"] = rec["trace"]
    obs["ola_kwargs"] = rec["ola_kwargs"]
    return obs


def _impl_stft(c):
    return _stft_exec(_StftEnv(c["objs"], c["num"]), c)


def _run_ola(blks, kw, args=(), strategy="list"):
    from audiolazy import overlap_add
    out, err = [], None
    try:
        f = overlap_add if strategy == "default" else getattr(overlap_add, strategy)
        for x in f(blks, *args, **kw):
            out.append(x)
    except Exception as e:
        err = _err_obs(e)
    try:
        eo = [enc(x) for x in out]
    except Exception:        # samples that are not numbers (a window of tuples that went through): reported, never a crash
        if err is None:
            err = {"kind": "none", "tag": "output-items-are-not-numbers:" + repr(out[:3])[:60]}
        eo = []
    return {"out": eo, "err": err, "floats": sum(1 for x in out if isinstance(x, float))}


def impl(c):
    if c["entry"] == "hist":
        return _impl_hist(c)
    if c["entry"] == "phist":
        return _impl_phist(c)
    _zygote_start()            # fork the pristine process before this process runs its first case
    _ISO["dirty"] = True
    from audiolazy import overlap_add
    if c["entry"] == "ola":
        kw = {"normalize": c["normalize"]} if c.get("normalize_given", True) else {}
        if "norm_spell" in c and "normalize" in kw:
            sp = _spell(c["norm_spell"])
            if bool(sp) == bool(c["normalize"]):       # (a shrunk / neighbour case may have flipped `normalize`)
                kw["normalize"] = sp
        if c["size"] is not None:
            kw["size"] = c["size"]
        if c["hop"] is not None:
            kw["hop"] = c["hop"]
        try:
            w = _py_wnd(c)
            if w is not None or c.get("wkind") == "none_explicit":
                kw["wnd"] = w
            blks = _py_blks(c)
        except Exception as e:
            return {"out": [], "err": _err_obs(e), "floats": 0}
        # call shape: keywords / positional (size, hop, wnd, normalize in the signature's order, `None` for
        # what is left to its default) / size and hop positional and the rest as keywords
        args = ()
        style = c.get("argstyle", "kw")
        if style == "pos":
            args = [kw.pop("size", None), kw.pop("hop", None), kw.pop("wnd", None)]
            if "normalize" in kw:
                args.append(kw.pop("normalize"))
        elif style == "mixed":
            args = [kw.pop("size", None)]
            if "hop" in kw:
                args.append(kw.pop("hop"))
        return _run_ola(blks, kw, tuple(args), c.get("strategy", "list"))
    if c["entry"] == "stft":
        return _impl_stft(c)
    if c["entry"] == "ola_sig":
        from audiolazy import Stream, blocks
        out, err = [], None
        try:
            sig = [_py(x, c["num"]) for x in c["sig"]]
            if c.get("route") == "stream":
                blk_sig = Stream(sig).blocks(size=c["bsize"], hop=c["bhop"])
            else:
                blk_sig = blocks(iter(sig), c["bsize"], c["bhop"])
            kw = {"normalize": c["normalize"]}
            if c["size"] is not None:
                kw["size"] = c["size"]
            if c["hop"] is not None:
                kw["hop"] = c["hop"]
            w = _py_wnd(c)
            if w is not None:
                kw["wnd"] = w
            for x in overlap_add.list(blk_sig, **kw):
                out.append(x)
        except Exception as e:
            err = _err_obs(e)
        return {"out": [enc(x) for x in out], "err": err, "floats": sum(1 for x in out if isinstance(x, float))}
    raise ValueError("unknown entry " + c["entry"])


def request(c):
    if c["entry"] == "hist":
        return {"entry": "hist", "calls": [request(sub) for sub in _subcases(c)]}
    if c["entry"] == "phist":
        return {"entry": "phist", "events": c["events"],
                "objs": dict((t, dict((k, v) for k, v in o.items() if k != "wkind")) for t, o in c["objs"].items())}
    r = dict(c)
    for k in ("wkind", "num", "route", "regime", "kind", "normalize_given", "norm_spell", "argstyle", "grid"):
        r.pop(k, None)
    if c["entry"] == "stft":
        r.pop("style", None)
        r["chain"] = c["chain"] + ([[]] if c["style"] == "decorator" else [])
        r["objs"] = dict((t, dict((k, v) for k, v in o.items() if k != "wkind")) for t, o in c["objs"].items())
    return r


# ----------------------------------------------------------------------------------------------
# comparison
# ----------------------------------------------------------------------------------------------
def _same_list(a, b, regime):
    if len(a) != len(b):
        return False
    tol = 0 if regime == "exact" else TOL
    return all(close(dec(x), dec(y), tol) for x, y in zip(a, b))


def _same_blocks(a, b, regime):
    return a is not None and b is not None and len(a) == len(b) and all(_same_list(x, y, regime) for x, y in zip(a, b))


def _has_numpy():
    import importlib.util
    return importlib.util.find_spec("numpy") is not None


def _compare_stft(c, io, drv):
    out = []
    regime = c.get("regime", "float")
    m, sp = drv["model"], drv["spec"]
    e = io.get("err")
    needs_numpy = m.get("run_err") == "numpy-default" or ((m.get("run") or {}).get("err") or {}).get("tag") == "numpy-default"
    if needs_numpy and _has_numpy():
        return []       # the numpy defaults (rfft, fftshift, overlap_add.numpy) are not modelled
    if "phase" not in io:
        return [("model", "impl observation failed: %r" % (io,)), ("spec", "impl observation failed")]
    # ---- model -----------------------------------------------------------------------------------
    if "plan_err" in m:
        want = m["plan_err"]
        if e is None or e["where"] != "plan" or io["phase"] != "call" or (e["kind"], e["tag"]) != (want["kind"], want["tag"]):
            out.append(("model", "wrapper decision differs: impl=%r model=%r" % (e, want)))
            out.append(("spec", "wrapper accepts / rejects other keywords than the property says: impl=%r expected=%r" % (e, want)))
        return out
    plan = m["plan"]
    if e is not None and e["where"] == "plan":
        out.append(("model", "wrapper raised %r, model plans %r" % (e, plan)))
        out.append(("spec", "wrapper rejects keywords the property accepts: %r" % (e,)))
        return out
    spy_used = plan["ola"] == "@spy"
    if spy_used and io["ola_kwargs"] != plan["ola_params"]:
        out.append(("model", "overlap-add keywords differ: impl=%r model=%r" % (io["ola_kwargs"], plan["ola_params"])))
    if "run_err" in m:
        if e is None or e["tag"] != m["run_err"]:
            out.append(("model", "impl=%r where the model stops with %r" % (e, m["run_err"])))
    else:
        run = m["run"]
        ie = None if e is None else {"kind": e["kind"], "tag": e["tag"]}
        if ie != run["err"]:
            out.append(("model", "error differs: impl=%r model=%r" % (e, run["err"])))
        else:
            if run["blocks"] is not None or io["blocks"]:
                if not _same_blocks(io["blocks"] or [], run["blocks"] or [], regime):
                    out.append(("model", "blocks differ: impl=%r model=%r" % (io["blocks"], run["blocks"])))
            elif not _same_list(io["out"] or [], run["out"], regime):
                out.append(("model", "output differs (%s): impl=%r model=%r" % (regime, io["out"], run["out"])))
            if ie is None:
                role_tag = dict((k, v) for k, v in plan["blk"])
                role_tag["func"] = c["func"]
                want = [[role_tag[r], inp] for blk in run["trace"] for r, inp in blk]
                got = [[t, inp] for t, inp, _ in io["trace"]]
                if len(want) != len(got) or any(a[0] != b[0] or not _same_list(a[1], b[1], regime) for a, b in zip(got, want)):
                    out.append(("model", "processing steps called differently: impl=%r model=%r" % (got[:6], want[:6])))
                size = role_tag["size"]
                for t, _, extra in io["trace"]:
                    if t in (role_tag.get("transform"), role_tag.get("inverse_transform")) and extra != [size]:
                        out.append(("model", "transform step not called with (blk, size): extra args %r" % (extra,)))
                        break
    # ---- spec --------------------------------------------------------------------------------------
    if sp is None:
        return out
    if spy_used and io["ola_kwargs"] is not None:
        got = dict((k, v) for k, v in io["ola_kwargs"])
        probe = dict((k, v) for k, v in sp["ola_kwargs"])
        bad = [k for k in set(got) | set(probe) if got.get(k, "<absent>") != probe.get(k, "<absent>")]
        if bad:
            out.append(("spec", "overlap-add is not called with {size, hop} + stripped ola_ options: keys %r impl=%r expected=%r"
                        % (sorted(bad), io["ola_kwargs"], [kv for kv in sp["ola_kwargs"] if kv[1] != "<absent>"])))
    if e is None and sp.get("func_inputs") is not None:
        got = [inp for t, inp, _ in io["trace"] if t == c["func"]]
        if not _same_blocks(got, sp["func_inputs"], regime):
            out.append(("spec", "func does not receive transform(before(window * block)): impl=%r expected=%r"
                        % (got[:4], sp["func_inputs"][:4])))
    if sp.get("covered") is not None:
        if e is not None or io["out"] is None:
            out.append(("spec", "identity stft raised %r" % (e,)))
        else:
            bad = [(n, io["out"][n] if n < len(io["out"]) else None, x) for n, x in sp["covered"]
                   if n >= len(io["out"]) or not close(dec(io["out"][n]), dec(x), 0 if regime == "exact" else TOL)]
            if bad:
                out.append(("spec", "identity stft does not reconstruct covered samples (n, got, input): %r" % (bad[:5],)))
    return out


def compare(c, io, drv):
    _LAST[id(c)] = drv
    if c["entry"] == "hist":
        return _compare_hist(c, io, drv)
    if c["entry"] == "phist":
        return _compare_phist(c, io, drv)
    return _compare_one(c, io, drv)


def _compare_one(c, io, drv):
    if c["entry"] == "stft":
        return _compare_stft(c, io, drv)
    out = []
    regime = c.get("regime", "float")
    if c["entry"] in ("ola", "ola_sig"):
        if c.get("strategy", "list") != "list" and _has_numpy():
            return []       # overlap_add.numpy is not modelled beyond "imports numpy first"
        if "out" not in io:
            return [("model", "impl observation failed: %r" % (io,)), ("spec", "impl observation failed")]
        m = drv["model"]
        if io["err"] != m["err"]:
            out.append(("model", "error differs: impl=%r model=%r" % (io["err"], m["err"])))
        elif not _same_list(io["out"], m["out"], regime):
            out.append(("model", "output differs from model (%s): impl=%r model=%r" % (regime, io["out"], m["out"])))
        s = drv["spec"]
        if s is not None:
            if io["err"] is not None:
                out.append(("spec", "impl raised %r where the property gives %d samples" % (io["err"], len(s["out"]))))
            elif not _same_list(io["out"], s["out"], regime):
                out.append(("spec", "output differs from the windowed hop-shifted sum (%s): impl=%r spec=%r gain=%r"
                            % (regime, io["out"], s["out"], s.get("gain"))))
        cov = drv.get("covered")
        if cov is not None:
            if io["err"] is not None:
                out.append(("spec", "blocks -> overlap-add raised %r" % (io["err"],)))
            else:
                bad = [(n, io["out"][n] if n < len(io["out"]) else None, x) for n, x in cov
                       if n >= len(io["out"]) or not close(dec(io["out"][n]), dec(x), 0 if regime == "exact" else TOL)]
                if bad:
                    out.append(("spec", "overlap-add of the blocks does not give back the covered samples (n, got, input): %r"
                                % (bad[:5],)))
    return out


def nontrivial(c, io):
    if c["entry"] == "phist":
        good = [o for o in io.get("runs", []) if o.get("err") is None and o.get("trace")]
        return bool(good) and max(_ph_uses(c) or [0]) >= 2
    if c["entry"] == "hist":
        good = [o for o in io.get("calls", []) if o.get("err") is None and (o.get("out") or o.get("blocks"))]
        shared = any(len(u) >= 2 and c["objs"][t]["type"] not in ("fn", "ola") for t, u in _tag_uses(c).items())
        return bool(good) and shared
    if c["entry"] == "stft":
        return io.get("err") is None and len(io.get("trace") or []) >= 1
    if c["entry"] == "ola_sig":
        return io.get("err") is None and len(io.get("out", [])) >= 1
    return io.get("err") is None and len(c.get("blks", [])) >= 1 and len(io.get("out", [])) >= 1


def _tally_stft(eng, c, io):
    eng.count("stft_style", c["style"])
    eng.count("stft_kind", c.get("kind"))
    eng.count("stft_regime", c.get("regime"))
    merged = {}
    for d in c["chain"] + [c["call"]]:
        merged.update(dict((k, v) for k, v in d))
    eng.count("stft_ola", {None: "None", "@spy": "spy(list)", "@list": "list"}.get(merged.get("ola", "absent"), "default(numpy)"))
    eng.count("stft_wnd", "none" if merged.get("wnd") is None else c["objs"].get(merged["wnd"], {}).get("wkind", "?"))
    for key in ("wnd", "ola_wnd"):
        w = (c["objs"].get(merged.get(key)) or {}).get("wnd") if isinstance(merged.get(key), str) else None
        if w and w.get("kind") == "obj":
            eng.count("stft_%s_object" % key, "%s/%s" % (w["wk"], w.get("variant")))
            if w.get("call"):
                eng.count("stft_%s_object_call_returns" % key, "+".join(sorted({r["r"] for _, r in w["call"]["table"]})) + " as " + w.get("ret", "list"))
    eng.count("stft_steps_used", sum(1 for r in ("before", "transform", "inverse_transform", "after") if isinstance(merged.get(r), str)))
    eng.count("stft_ola_options", sum(1 for k in merged if k.startswith("ola_")))
    eng.count("stft_n_blocks", min(8, sum(1 for t, _, _ in (io.get("trace") or []) if t == c["func"])))
    e = io.get("err")
    eng.count("stft_impl_error", "none" if e is None else e["tag"].split(":")[0])
    eng.count("stft_kw_levels", len(c["chain"]))


def tally(eng, c, io):
    drv = _LAST.pop(id(c), None) or {}
    if c["entry"] == "hist":
        return _tally_hist(eng, c, io)
    if c["entry"] == "phist":
        return _tally_phist(eng, c, io)
    if c["entry"] == "stft":
        sp = drv.get("spec") or {}
        eng.count("stft_spec_identity_reconstruction", "checked on %s samples" % ("0" if not sp.get("covered") else "1+")
                  if sp.get("covered") is not None else "hypotheses not met")
        eng.count("stft_spec_window_first", "checked" if sp.get("func_inputs") else "no block / error")
        return _tally_stft(eng, c, io)
    if c["entry"] == "ola_sig":
        eng.count("roundtrip", "COLA: covered samples checked" if drv.get("covered") else
                  ("COLA but no covered sample" if drv.get("covered") is not None else "not COLA: sum formula only"))
        eng.count("roundtrip_regime", c.get("regime"))
        eng.count("roundtrip_blocks", min(8, drv.get("n_blocks", 0)))
        eng.count("roundtrip_impl_error", (io.get("err") or {}).get("tag", "none"))
        return
    if c["entry"] != "ola":
        return
    eng.count("ola_spec", "property speaks" if drv.get("spec") is not None else "outside the quantifier (model only)")
    m = len(c["blks"])
    size = c["size"] if c["size"] is not None else (len(c["blks"][0]) if c["blks"] else None)
    hop = c["hop"] if c["hop"] is not None else size
    eng.count("n_blocks", min(m, 8))
    eng.count("size", size)
    if size is not None:
        rel = ("hop=0" if hop == 0 else "hop>size" if hop > size else "hop=size" if hop == size else
               "hop|size" if size % hop == 0 else "hop<size")
        eng.count("hop_vs_size", rel)
    eng.count("window_kind", c["wkind"])
    if c["wkind"].startswith("obj:"):
        w = c["wnd"]
        eng.count("window_object_variant", "%s/%s" % (w["wk"], w.get("variant")))
        if w.get("call"):
            rs = sorted({r["r"] for _, r in w["call"]["table"]})
            eng.count("window_object_call_returns", "+".join(rs) + " as " + w.get("ret", "list"))
        if (w.get("iter") or {}).get("r") == "opaque" and not w.get("call"):
            eng.count("window_items_not_numbers", "%s blocks, normalize=%s, %s -> %s" % (
                "0" if m == 0 else "1+", c["normalize"], "n=size" if w["iter"]["n"] == size else "n!=size",
                (io.get("err") or {}).get("tag", "no error")))
        if w.get("iter") and w.get("call"):
            eng.count("window_object_callable_and_iterable", "%s: iteration gives %s" % (w["wk"], w["iter"]["r"]))
    eng.count("ola_call_shape", c.get("argstyle", "kw"))
    eng.count("ola_strategy", c.get("strategy", "list"))
    eng.count("normalize_spelling", repr(c["norm_spell"]) if "norm_spell" in c else "bool / default")
    eng.count("normalize", str(c["normalize"]) + ("" if c.get("normalize_given", True) else " (default)"))
    eng.count("size_detected", c["size"] is None)
    eng.count("hop_defaulted", c["hop"] is None)
    eng.count("regime", c.get("regime"))
    eng.count("num", c["num"])
    eng.count("route", c.get("route"))
    eng.count("impl_error", (io.get("err") or {}).get("tag", "none"))
    if io.get("err") is None:
        eng.count("float_outputs", "some" if io.get("floats") else "none")
    w = c.get("wnd")
    if w and w.get("kind") == "seq" and w["w"] and all(dec(x) == 0 for x in w["w"]) and c["normalize"]:
        eng.count("gain_zero_branch", "hit")


# ----------------------------------------------------------------------------------------------
# shrinking, neighbours, classification
# ----------------------------------------------------------------------------------------------
def _relabel(c):
    c = dict(c)
    c["regime"] = _regime(c)
    return c


def _relabel_sig(c):
    c = dict(c)
    c["regime"] = _regime(dict(c, blks=[c["sig"]], size=c["bsize"]))
    return c


def _resize(c, size):
    """same case with another block size (blocks and list window cut / padded with 1)"""
    old = c["size"] if c["size"] is not None else (len(c["blks"][0]) if c["blks"] else size)
    blks = [(b + [1] * size)[:size] if len(b) == old else b for b in c["blks"]]
    d = dict(c, blks=blks)
    if c["size"] is not None:
        d["size"] = size
    w = c.get("wnd")
    if w and w.get("kind") == "seq" and len(w["w"]) == old:
        d["wnd"] = {"kind": "seq", "w": (w["w"] + [1] * size)[:size]}
    if c["hop"] is not None and c["hop"] > size >= 1 and c["hop"] <= old:
        d["hop"] = size
    return d


def shrink(c):
    """smaller cases; never wanders into the configuration of the known defect D7 (size detection on no block),
    so that a different failure is not minimised into the known one"""
    if c["entry"] == "hist":
        seen = set()
        for d in _shrink_hist(c):
            k = common.json.dumps(d, sort_keys=True)
            if k not in seen and d["calls"]:
                seen.add(k)
                yield d
        return
    if c["entry"] == "phist":
        for d in _shrink_phist(c):
            yield d
        return
    if c["entry"] == "stft":
        for d in _shrink_stft(c):
            yield d
        return
    if c["entry"] == "ola_sig":
        sig = c["sig"]
        min_len = 0 if c["size"] is not None else 1    # keep away from D7 (no block + size detection)
        if len(sig) > min_len:
            yield dict(c, sig=sig[:-1])
            yield dict(c, sig=sig[1:])
        if any(x not in (0, 1) for x in sig):
            yield _relabel_sig(dict(c, sig=[1] * len(sig)))
        if c["wnd"] is not None:
            yield _relabel_sig(dict(c, wnd=None, wkind="none"))
        if c["normalize"]:
            yield _relabel_sig(dict(c, normalize=False))
        if c["size"] is None:
            yield dict(c, size=c["bsize"])
        return
    if c["entry"] != "ola":
        return
    d7 = c["size"] is None and not c["blks"]
    for d in _shrink_ola(c):
        if d7 or not (d["size"] is None and not d["blks"]):
            yield d


def _shrink_stft(c):
    sig = c["sig"]
    if sig:
        yield dict(c, sig=sig[:-1])
        yield dict(c, sig=sig[1:])
    if any(x not in (0, 1) for x in sig):
        yield dict(c, sig=[1] * len(sig))
    # drop one keyword anywhere
    levels = c["chain"] + [c["call"]]
    for li, lv in enumerate(levels):
        for ki in range(len(lv)):
            nl = [list(x) for x in levels]
            nl[li] = lv[:ki] + lv[ki + 1:]
            yield dict(c, chain=nl[:-1], call=nl[-1])
    # merge the levels of a partial chain
    if len(c["chain"]) > 1:
        merged = {}
        for lv in c["chain"]:
            for k, v in lv:
                merged[k] = v
        yield dict(c, chain=[[[k, v] for k, v in merged.items()]], style="direct")
    if c["style"] != "direct" and len(c["chain"]) == 1:
        yield dict(c, style="direct")
    # simpler processing functions / windows
    for tag, o in c["objs"].items():
        if o["type"] == "fn" and o["name"] != "id":
            yield dict(c, objs=dict(c["objs"], **{tag: dict(o, name="id")}))
        if o["type"] == "wnd" and o["wnd"].get("kind") == "seq" and any(x != 1 for x in o["wnd"]["w"]):
            yield dict(c, objs=dict(c["objs"], **{tag: dict(o, wnd={"kind": "seq", "w": [1] * len(o["wnd"]["w"])}, wkind="list")}))


def _shrink_ola(c):
    blks = c["blks"]
    for i in range(len(blks)):
        yield _relabel(dict(c, blks=blks[:i] + blks[i + 1:]))
    size = c["size"] if c["size"] is not None else (len(blks[0]) if blks else None)
    if size and size > 1:
        yield _relabel(_resize(c, size - 1))
    if c["hop"] is not None and c["hop"] > 1:
        yield _relabel(dict(c, hop=c["hop"] - 1))
    if c["wnd"] is not None and c["wnd"].get("kind") == "callable" and size is not None:
        tab = dict((n, l) for n, l in c["wnd"]["table"])
        if size in tab:
            yield _relabel(dict(c, wnd={"kind": "seq", "w": tab[size]}, wkind="list"))
    if c["wnd"] is not None and c["wnd"].get("kind") == "obj" and size is not None:
        w = c["wnd"]
        for res in [r for n, r in (w.get("call") or {"table": []})["table"] if n == size] + ([w["iter"]] if w.get("iter") else []):
            if res["r"] == "nums":      # candidates only: kept when they still fail
                yield _relabel(dict(c, wnd={"kind": "seq", "w": res["w"]}, wkind="list"))
        if w.get("call") and len(w["call"]["table"]) > 1:
            yield _relabel(dict(c, wnd=dict(w, call=dict(w["call"], table=[r for r in w["call"]["table"] if r[0] == size]))))
        if w.get("ret", "list") != "list":
            yield _relabel(dict(c, wnd=dict(w, ret="list")))
    for k in ("argstyle", "norm_spell", "strategy"):
        if k in c and c[k] not in ("kw", "list"):
            d = dict(c)
            d.pop(k)
            yield _relabel(d)
    if c["wnd"] is not None:
        yield _relabel(dict(c, wnd=None, wkind="none"))
    if c["wnd"] is not None and c["wnd"].get("kind") == "seq":
        w = c["wnd"]["w"]
        if any(x != 1 for x in w):
            yield _relabel(dict(c, wnd={"kind": "seq", "w": [1] * len(w)}))
        for i, x in enumerate(w):
            if x != 1:
                yield _relabel(dict(c, wnd={"kind": "seq", "w": w[:i] + [1] + w[i + 1:]}))
        if c["wkind"] != "list":
            yield _relabel(dict(c, wkind="list"))
    if c["normalize"]:
        yield _relabel(dict(c, normalize=False))
    if c.get("route") != "list":
        yield _relabel(dict(c, route="list"))
    if c["num"] != "int":
        yield _relabel(dict(c, num="int", blks=[[int(dec(x)) for x in b] for b in blks]))
    flat = [(i, j) for i, b in enumerate(blks) for j, x in enumerate(b) if x not in (0, 1)]
    for i, j in flat[:12]:
        nb = [list(b) for b in blks]
        nb[i][j] = 1
        yield _relabel(dict(c, blks=nb))
    if c["size"] is None and blks:
        yield _relabel(dict(c, size=len(blks[0])))
    if c["hop"] is None and size is not None:
        yield _relabel(dict(c, hop=size))


def neighbours(c):
    if c["entry"] != "ola":
        return
    size = c["size"] if c["size"] is not None else (len(c["blks"][0]) if c["blks"] else 1)
    hop = c["hop"] if c["hop"] is not None else size
    for dh in (-1, 1):
        if 1 <= hop + dh <= size:
            yield _relabel(dict(c, hop=hop + dh))
    for ds in (-1, 1):
        if size + ds >= max(1, hop if ds < 0 else 1):
            yield _relabel(_resize(c, size + ds))
    yield _relabel(dict(c, normalize=not c["normalize"]))
    if c["blks"]:
        yield _relabel(dict(c, blks=c["blks"][:-1]))
        yield _relabel(dict(c, blks=c["blks"] + [c["blks"][-1]]))
    yield _relabel(dict(c, wnd=None, wkind="none"))
    for i, b in enumerate(c["blks"]):
        for j in range(len(b)):
            nb = [list(x) for x in c["blks"]]
            nb[i][j] = 0
            yield _relabel(dict(c, blks=nb))


def classify(c, io, drv):
    if c["entry"] == "hist":
        return _classify_hist(c, io, drv)
    if c["entry"] == "phist":
        return _classify_phist(c, io, drv)
    if isinstance(io.get("err"), str):
        return "impl-observation-failed:" + io["err"]
    if c["entry"] == "ola":
        e = io.get("err")
        if e is not None and c["size"] is None and not c["blks"] and e["tag"] == "generator-raised-StopIteration":
            return "ola:size-detection-on-empty-block-stream:RuntimeError"
        if e is not None:
            return "ola:error:%s:%s" % (e["kind"], e["tag"])
        m = drv.get("model", {})
        if len(io.get("out", [])) != len(m.get("out", [])):
            return "ola:length"
        return "ola:content"
    if c["entry"] == "ola_sig":
        e = io.get("err")
        if e is not None and c["size"] is None and drv.get("n_blocks") == 0 and e["tag"] == "generator-raised-StopIteration":
            return "ola:size-detection-on-empty-block-stream:RuntimeError"
        if e is not None:
            return "roundtrip:error:%s:%s" % (e["kind"], e["tag"])
        return "roundtrip:content"
    if c["entry"] == "stft":
        e = io.get("err")
        m = drv.get("model", {})
        if "plan_err" in m or (e is not None and e.get("where") == "plan"):
            return "stft:keywords:%s" % ((e or {}).get("tag", "accepted").split(":")[0],)
        if e is not None:
            return "stft:error:%s:%s" % (e["kind"], e["tag"])
        plan = m.get("plan", {})
        if plan.get("ola") == "@spy" and io.get("ola_kwargs") != plan.get("ola_params"):
            return "stft:ola-keywords"
        return "stft:content"
    return "unclassified"


def extra_checks(eng):
    """the table of Python object kinds of the model (`ALV.C09.WKind.caps`) against REAL objects: every kind the
    model knows is built here, every kind built here is known to the model, and `callable(obj)`,
    `isinstance(obj, Iterable)`, `isinstance(obj, Stream)` are what the table says"""
    import random as _random
    from audiolazy import overlap_add
    table = eng.driver.batch([{"id": ID, "entry": "wkinds"}])[0]
    table = table.get("ok", table)["kinds"]
    lean = dict((r["name"], {"callable": r["callable"], "iterable": r["iterable"], "stream": r["stream"]}) for r in table)
    yield ("window-kind-table-same-kinds", sorted(lean) == sorted(WK_ALL),
           "model: %r harness: %r" % (sorted(lean), sorted(WK_ALL)))
    rng = _random.Random(7)
    bad = []
    n = 0
    for wk in WK_ALL:
        for rep in range(6):
            w = _mk_wobj(rng, wk, 4, 2, "int")
            got = _caps(_build_wobj(w, "int"))
            n += 1
            if got != lean.get(wk):
                bad.append((wk, w.get("variant"), got, lean.get(wk)))
    yield ("window-kind-table-matches-real-objects(%d)" % n, not bad, "kind, variant, real, model: %r" % (bad[:4],))
    yield ("overlap_add-default-strategy-is-numpy", overlap_add.default is overlap_add.numpy and
           overlap_add.list is not overlap_add.numpy, "overlap_add.default = %r" % (overlap_add.default,))
    # --- the source translator (harness/props/c09_tr.py) ------------------------------------------------------------
    eng.extra["translated"] = {
        "translator": "harness/props/c09_tr.py -> lean/ALV/Gen/C09Src.lean",
        "under_translator": [{"source": src, "file": f, "style": style, "lean_definitions": ["ALV.Gen.C09." + d for d in defs],
                              "theorems": ["ALV.Props.C09.src_%s_is_model" % d for d in defs if d != "hopDefault"]}
                             for src, f, style, defs in c09_tr.TRANSLATED],
        "not_under_translator": [{"source": src, "reason": why} for src, why in c09_tr.NOT_TRANSLATED],
    }
    import os
    try:
        text = c09_tr.translate(c09_tr.read_source())
        path = os.path.join(common.LEAN, c09_tr.GEN_REL)
        on_disk = open(path).read() if os.path.exists(path) else None
        yield ("translator-output-is-the-file-the-theorems-were-checked-on", text == on_disk,
               "translate(source) differs from lean/%s" % c09_tr.GEN_REL)
        res = c09_tr.selftest()
        bad = [(n, d) for n, ok, d in res if not ok]
        eng.extra["translator_selftest"] = [{"edit": n, "ok": ok, "result": d[:160]} for n, ok, d in res]
        yield ("translator-selftest(%d edited copies of the source text)" % len(res), not bad, "%r" % (bad[:3],))
    except c09_tr.TranslationError as e:
        yield ("translator-selftest", False, "the source cannot be translated: %s" % e)


def regenerate(eng=None):
    """rewrite lean/ALV/Gen/C09Src.lean from audiolazy/lazy_analysis.py of the repo under test (harness/props/c09_tr.py)"""
    return c09_tr.regenerate(eng)


# ==============================================================================================
# histories: several calls that SHARE argument objects
# ==============================================================================================
# The property fixes the output of a call as a function of the argument VALUES of that call.  Hence
#   (a) a call must not modify its arguments (window list, the list returned by a window callable,
#       block objects, the signal, keyword dictionaries) and
#   (b) the result of a call must not depend on earlier calls.
# A history case is
#   {"entry": "hist", "num": …, "objs": {tag: object}, "calls": [call, …]}
# objects (built ONCE per history, so every call naming the tag receives the same Python object):
#   {"type": "wnd", "wkind": "list"|"tuple"|"memo"|"callable", "wnd": {"kind": "seq"|"callable", …}}
#        memo = window function returning the same list object again; callable = a fresh list per call
#   {"type": "blks", "blks": [[…], …], "route": "list"|"tuples"|"deques"|"iter"|"stream"}   block objects
#   {"type": "sig", "sig": […]}                       signal list handed to the stft wrapper
#   {"type": "kw", "items": [[k, v], …]}              one dict object passed as **kw by several calls
#   {"type": "proc", "style", "chain", "func", "reuse": "wrapper"|"partial"|"none"}   stft wrapper: the same
#        wrapper object called again / the same partial application `stft(**kw)` specialised again / rebuilt
#   {"type": "fn"|"ola", …}                           as in the stft cases
# calls:
#   {"op": "ola", "blks": tag, "kw": tag | [[k, v], …]}                 overlap_add.list(blks, **kw)
#   {"op": "stft", "proc": tag, "sig": tag | […], "call": tag | [[k, v], …]}   proc(sig, **call)
# Oracle: every call is sent to the driver as a stand-alone "ola" / "stft" request built from the pristine
# values in the case (`_subcases`), i.e. the model / spec of that call taken alone.

HIST_WKINDS = ["list", "list", "memo", "memo", "memo", "tuple", "callable", "obj", "obj"]
HIST_ROUTES = ["list", "list", "list", "tuples", "deques", "iter", "stream"]


def _items(c, ref):
    return c["objs"][ref]["items"] if isinstance(ref, str) else ref


def _sub_ola(c, call):
    kw = dict((k, v) for k, v in _items(c, call["kw"]))
    B = c["objs"][call["blks"]]
    wtag = kw.get("wnd")
    wo = c["objs"][wtag] if isinstance(wtag, str) else None
    d = {"entry": "ola", "blks": B["blks"], "size": kw.get("size"), "hop": kw.get("hop"),
         "wnd": wo["wnd"] if wo else None, "normalize": bool(kw.get("normalize", True)),
         "wkind": wo["wkind"] if wo else "none", "num": c["num"], "route": B.get("route", "list")}
    if "normalize" not in kw:
        d["normalize_given"] = False
    d["regime"] = _regime(d)
    return d


def _proc(c, tag):
    """a wrapper description with its full keyword chain; {"partial_of": base} = the first partial application
    `stft(**chain[0])` of `base` specialised a second time (other later levels / another function)"""
    P = c["objs"][tag]
    if P.get("partial_of") in c["objs"]:
        B = c["objs"][P["partial_of"]]
        return dict(P, style=B["style"], chain=[B["chain"][0]] + P["chain"], reuse="partial")
    return P


def _sub_stft(c, call):
    P = _proc(c, call["proc"])
    sig = c["objs"][call["sig"]]["sig"] if isinstance(call["sig"], str) else call["sig"]
    d = {"entry": "stft", "style": P["style"], "chain": P["chain"], "call": _items(c, call["call"]),
         "func": P["func"], "sig": sig,
         "objs": dict((t, o) for t, o in c["objs"].items() if o["type"] in ("wnd", "fn", "ola")),
         "num": c["num"], "kind": "hist"}
    d["regime"] = _regime_stft(d)
    return d


def _subcases(c):
    return [_sub_ola(c, k) if k["op"] == "ola" else _sub_stft(c, k) for k in c["calls"]]


def _fmt_kw(items):
    return ", ".join("%s=%s" % (k, v) for k, v in items)


def _describe(c, upto=None):
    """the history as Python-like text (tags name the shared objects of c["objs"])"""
    out = []
    for k in c["calls"][:upto]:
        if k["op"] == "ola":
            kw = k["kw"]
            out.append("overlap_add.list(%s, %s)" % (k["blks"], ("**%s{%s}" % (kw, _fmt_kw(_items(c, kw))))
                                                     if isinstance(kw, str) else _fmt_kw(kw)))
        else:
            P = _proc(c, k["proc"])
            cal = k["call"]
            out.append("%s[%s %s; %s](%s%s)" % (
                k["proc"], P["style"], P["reuse"], " | ".join(_fmt_kw(l) for l in P["chain"]),
                k["sig"] if isinstance(k["sig"], str) else "sig[%d]" % len(k["sig"]),
                (", **%s{%s}" % (cal, _fmt_kw(_items(c, cal)))) if isinstance(cal, str) else
                (", " + _fmt_kw(cal) if cal else "")))
    kinds = ", ".join("%s=%s" % (t, o.get("wkind") if o["type"] == "wnd" else o["type"])
                      for t, o in sorted(c["objs"].items()) if o["type"] in ("wnd", "blks", "sig", "kw"))
    return "[" + "; ".join(out) + "] with " + kinds


def _tag_uses(c):
    """tag -> list of (call index, slot) for windows / blocks / signals / kwargs / wrappers"""
    uses = {}

    def use(v, i, slot):
        if isinstance(v, str) and v in c["objs"]:
            uses.setdefault(v, []).append((i, slot))
    for i, k in enumerate(c["calls"]):
        if k["op"] == "ola":
            use(k["blks"], i, "blks")
            use(k["kw"], i, "kw")
            for key, v in _items(c, k["kw"]):
                use(v, i, key)
        else:
            use(k["proc"], i, "proc")
            use(k["sig"], i, "sig")
            use(k["call"], i, "kw")
            P = _proc(c, k["proc"])
            if c["objs"][k["proc"]].get("partial_of"):
                use(c["objs"][k["proc"]]["partial_of"], i, "proc")
            merged = {}
            for lv in P["chain"] + [_items(c, k["call"])]:
                for key, v in lv:
                    merged[key] = v
            for key, v in merged.items():
                use(v, i, key)
            use(P["func"], i, "func")
    return uses


def _gc(c):
    """drop the objects no call refers to (directly, through a kwargs dict or through a wrapper)"""
    live, todo = set(), []
    for k in c["calls"]:
        todo += [v for v in (k.get("blks"), k.get("kw"), k.get("proc"), k.get("sig"), k.get("call")) if isinstance(v, str)]
        for key in ("kw", "call"):
            if isinstance(k.get(key), list):
                todo += [v for _, v in k[key] if isinstance(v, str)]
    while todo:
        t = todo.pop()
        if t in live or t not in c["objs"]:
            continue
        live.add(t)
        o = c["objs"][t]
        if o["type"] == "kw":
            todo += [v for _, v in o["items"] if isinstance(v, str)]
        elif o["type"] == "proc":
            todo.append(o["func"])
            if o.get("partial_of"):
                todo.append(o["partial_of"])
            todo += [v for lv in o["chain"] for _, v in lv if isinstance(v, str)]
    return dict(c, objs=dict((t, o) for t, o in c["objs"].items() if t in live))


# ---- generation ---------------------------------------------------------------------------------
def _hist_wnd_obj(rng, sizes, num, wkind=None):
    wkind = wkind or rng.choice(HIST_WKINDS)
    size = sizes[0]
    if wkind == "obj":
        wk = rng.choice(WK_REUSABLE + WK_BOTH * 2)
        return {"type": "wnd", "wkind": "obj:" + wk, "wnd": _mk_wobj(rng, wk, size, sizes[-1], num)}
    if wkind in ("memo", "callable"):
        # a table by size (the code must ask for wnd(size)); every entry has its own values
        wnd = {"kind": "callable", "table": [[n, _rand_wnd(rng, n, num)] for n in sorted(set(sizes))], "default": None}
    else:
        wnd = {"kind": "seq", "w": _rand_wnd(rng, size, num)}
    return {"type": "wnd", "wkind": wkind, "wnd": wnd}


def _hist_ola_calls(rng, objs, size, hop, wtags, btags, n, first_norm=0.7):
    calls = []
    for k in range(n):
        b = rng.choice(btags)
        items = []
        if rng.random() < 0.7 or not objs[b]["blks"]:
            items.append(["size", size])
        h = hop if rng.random() < 0.7 else rng.randint(1, size)
        if h != size or rng.random() < 0.5:
            items.append(["hop", h])
        w = rng.choice([None] + wtags * 3) if wtags else None
        if w is not None or rng.random() < 0.3:
            items.append(["wnd", w])
        norm = rng.random() < (first_norm if k == 0 else 0.5)
        if not norm or rng.random() < 0.6:
            items.append(["normalize", norm])
        rng.shuffle(items)
        calls.append({"op": "ola", "blks": b, "kw": items})
    return calls


def _share_kw(rng, c, key):
    """make two calls pass the same dict object (**kw): the later one takes over the keywords of the earlier"""
    idx = [i for i, k in enumerate(c["calls"]) if key in k and isinstance(k[key], list)]
    if len(idx) < 2:
        return
    i, j = sorted(rng.sample(idx, 2))
    tag = "@k%d" % sum(1 for o in c["objs"].values() if o["type"] == "kw")
    c["objs"][tag] = {"type": "kw", "items": c["calls"][i][key]}
    c["calls"][i][key] = tag
    c["calls"][j][key] = tag


def _mk_hist_ola(rng, quick=True):
    num = rng.choice(["int", "frac", "frac", "float"])
    size = rng.randint(1, 6 if quick else 10)
    hop = rng.choice([1, size, max(1, size // 2), rng.randint(1, size)])
    objs = {}
    nw = rng.choice([1, 1, 2])
    for i in range(nw):
        objs["@w%d" % i] = _hist_wnd_obj(rng, [size, hop], num)
    nb = rng.choice([1, 1, 1, 2])
    for i in range(nb):
        m = rng.choice([0, 1, 2, 2, 3, 3, 4])
        objs["@b%d" % i] = {"type": "blks", "route": rng.choice(HIST_ROUTES),
                            "blks": [[_rand_val(rng, num) for _ in range(size)] for _ in range(m)]}
    n = rng.choice([2, 2, 3, 3, 4])
    c = {"entry": "hist", "num": num, "objs": objs,
         "calls": _hist_ola_calls(rng, objs, size, hop, ["@w%d" % i for i in range(nw)],
                                  ["@b0"] * 3 + ["@b%d" % i for i in range(nb)], n)}
    if rng.random() < 0.3:
        _share_kw(rng, c, "kw")
    return _gc(c)


def _mk_hist_stft(rng, quick=True):
    kind = rng.choice(["plain", "plain", "identity", "identity", "bad", "ola_none"])
    base = _mk_stft(rng, kind)
    num = base["num"]
    objs = dict((t, dict(o)) for t, o in base["objs"].items())
    levels = [[list(kv) for kv in lv] for lv in base["chain"]] + [[list(kv) for kv in base["call"]]]
    merged = {}
    for lv in levels:
        for k, v in lv:
            merged[k] = v
    size = merged.get("size")
    # windows: only kinds that can be handed over twice (no generators / Streams: they are consumed by nature)
    for t, o in objs.items():
        if o["type"] != "wnd":
            continue
        w = o["wnd"]
        if w.get("kind") == "obj" and w["wk"] not in WK_REUSABLE:
            wk = rng.choice(["list", "tuple", "deque", "user_iter_only"])     # data that is not used up by one call
            o["wnd"] = dict(w, wk=wk, call=None)
            o["wkind"] = "obj:" + wk
        elif w.get("kind") == "callable":
            o["wkind"] = rng.choice(["memo", "memo", "callable"])
        elif w.get("kind") == "seq":
            if w["w"] and rng.random() < 0.4:      # the same values behind a memoised window function
                n = len(w["w"])
                o["wnd"] = {"kind": "callable", "table": [[n, w["w"]]], "default": None}
                o["wkind"] = "memo"
            else:
                o["wkind"] = rng.choice(["list", "list", "tuple"])
    # aliasing: one window object for analysis and synthesis
    ola_on = merged.get("ola", "absent") in ("@spy", "@list")
    def aliasable(t):      # a scalar "window" is an int: the spy reports its value, not its tag
        return isinstance(t, str) and objs[t]["wnd"].get("kind") in ("seq", "callable")
    if ola_on and aliasable(merged.get("wnd")) and rng.random() < 0.6:
        wa = merged["wnd"]
        hit = False
        for lv in levels:
            for kv in lv:
                if kv[0] == "ola_wnd":
                    kv[1], hit = wa, True
        if not hit:
            levels[rng.randrange(len(levels))].append(["ola_wnd", wa])
    elif ola_on and aliasable(merged.get("ola_wnd")) and "wnd" not in merged and rng.random() < 0.5:
        levels[rng.randrange(len(levels))].append(["wnd", merged["ola_wnd"]])
    chain, call0 = levels[:-1], levels[-1]
    reuse = rng.choice(["wrapper", "wrapper", "wrapper", "partial", "none"] + (["partial"] * 3 if base["style"] != "direct" else []))
    objs["@p0"] = {"type": "proc", "style": base["style"], "chain": chain, "func": base["func"], "reuse": reuse}
    procs = ["@p0"]
    if reuse == "partial" and base["style"] != "direct" and rng.random() < 0.7:
        # the same partial application `stft(**chain[0])` specialised a second time, differently
        later = [[list(kv) for kv in lv] for lv in chain[1:]]
        func = base["func"]
        if base["style"] == "decorator" or rng.random() < 0.3:
            objs["@g"] = {"type": "fn", "name": rng.choice(FN1), "arg": _rand_val(rng, "frac" if num == "float" else num)}
            func = "@g"
        if later:
            lv = later[rng.randrange(len(later))]
            for _e in range(rng.choice([1, 2])):
                r = rng.random()
                if r < 0.3 and ola_on:
                    lv.append(["ola_normalize", rng.random() < 0.5])
                elif r < 0.5 and isinstance(size, int):
                    lv.append(["hop", rng.randint(1, size)])
                elif r < 0.7 and lv:
                    lv.pop(rng.randrange(len(lv)))
                else:
                    lv.append([rng.choice(["before", "after", "transform", "inverse_transform"]), None])
            for l2 in later:          # one value per key and level
                seen = {}
                for kv in l2:
                    seen[kv[0]] = kv[1]
                l2[:] = [[k, v] for k, v in seen.items()]
        objs["@p1"] = {"type": "proc", "partial_of": "@p0", "chain": later, "func": func, "reuse": "partial"}
        procs.append("@p1")
    merged = {}
    for lv in levels:
        for k, v in lv:
            merged[k] = v
    wtags = sorted(t for t, o in objs.items() if o["type"] == "wnd" and aliasable(t))
    share_sig = rng.random() < 0.5
    if share_sig:
        objs["@s0"] = {"type": "sig", "sig": base["sig"]}
    calls = [{"op": "stft", "proc": "@p0", "sig": "@s0" if share_sig else base["sig"], "call": call0}]
    n = rng.choice([1, 2, 2, 3, 3, 4]) if len(procs) == 1 else rng.choice([2, 3, 3, 4])
    eff_hop = merged.get("hop") or size or 1
    for _ in range(n - 1):
        cal = [list(kv) for kv in call0]
        if rng.random() < 0.65:
            for _e in range(rng.choice([1, 1, 2])):
                keys = dict((k, i) for i, (k, _) in enumerate(cal))

                def put(k, v):
                    if k in keys:
                        cal[keys[k]][1] = v
                    else:
                        cal.append([k, v])
                r = rng.random()
                if r < 0.35 and ola_on:
                    put("ola_normalize", not merged.get("ola_normalize", True) if rng.random() < 0.7 else rng.random() < 0.5)
                elif r < 0.55 and wtags:
                    put("wnd", rng.choice(wtags + [None]))
                elif r < 0.7 and wtags and ola_on:
                    put("ola_wnd", rng.choice(wtags + [None]))
                elif r < 0.8 and isinstance(size, int):
                    put("hop", rng.randint(1, size))
                elif r < 0.9 and cal:
                    cal.pop(rng.randrange(len(cal)))
                else:
                    put(rng.choice(["before", "after"]), None)
        if share_sig and rng.random() < 0.6:
            sig = "@s0"
        else:
            ln = rng.choice([0, 1, (size or 1), (size or 1) + 1, rng.randint(0, 12), (size or 1) + 2 * eff_hop])
            sig = [_rand_val(rng, num) for _ in range(ln)]
        calls.append({"op": "stft", "proc": rng.choice(procs), "sig": sig, "call": cal})
    c = {"entry": "hist", "num": num, "objs": objs, "calls": calls}
    # mixed: overlap_add.list called directly with the windows of the wrapper
    if isinstance(size, int) and size >= 1 and rng.random() < 0.35:
        ok = [t for t in wtags if (objs[t]["wnd"].get("kind") == "seq" and len(objs[t]["wnd"]["w"]) == size) or
              (objs[t]["wnd"].get("kind") == "callable" and size in [r[0] for r in objs[t]["wnd"]["table"]])]
        if ok:
            objs["@b0"] = {"type": "blks", "route": rng.choice(HIST_ROUTES),
                           "blks": [[_rand_val(rng, num) for _ in range(size)] for _ in range(rng.randint(1, 3))]}
            for k in _hist_ola_calls(rng, objs, size, min(eff_hop, size), ok, ["@b0"], rng.choice([1, 1, 2]), first_norm=0.8):
                calls.insert(rng.randrange(len(calls) + 1), k)
    if rng.random() < 0.25:
        _share_kw(rng, c, "call")
    return _gc(c)


def _gen_hist(rng, tier, scale):
    quick = tier == "quick"
    n_ola = (500 if quick else 9000) * scale
    n_stft = (500 if quick else 9000) * scale
    out = [_mk_hist_ola(rng, quick) for _ in range(n_ola)] + [_mk_hist_stft(rng, quick) for _ in range(n_stft)]
    rng.shuffle(out)        # the first ISO_ALWAYS histories (always run in isolation) are a mix
    return out


# ---- impl ---------------------------------------------------------------------------------------
def _enc_seq(xs):
    out = []
    for x in xs:
        try:
            out.append(enc(x))
        except Exception:
            out.append(repr(x))
    return out


def _snapshot(env, objs):
    """the current VALUE of every argument object of the history"""
    snap = {}
    for t, o in objs.items():
        v = env.pyobj.get(t)
        if o["type"] == "wnd":
            if o.get("wkind") == "memo":
                snap[t] = [[n, _enc_seq(l)] for n, l in sorted(v.cache.items())]
            elif o.get("wkind") in ("list", "tuple") and o["wnd"].get("kind") == "seq":
                snap[t] = _enc_seq(v)
        elif o["type"] == "blks":
            snap[t] = [_enc_seq(b) for b in v]
        elif o["type"] == "sig":
            snap[t] = _enc_seq(v)
        elif o["type"] == "kw":
            snap[t] = [[k, env.canon(x)] for k, x in v.items()]
    return snap


# Every history is run on PRISTINE library state: a witness has to be self-contained (its own calls produce
# the failure, not state left in the library by earlier cases of the same run: module globals, default
# arguments, function attributes, caches).  A "zygote" process is forked before any case has run; it never
# runs a case itself and forks one short-lived child per history (a few ms), which returns the observation.
# Cost: ~15 ms per history (fork).  The first ISO_ALWAYS histories of a run are isolated unconditionally; after
# that a history is first run in this process (0.8 ms) and run again in isolation only when it disagrees
# (`_compare_hist`), the isolated observation replacing the in-process one.
ISO_ALWAYS = 300
_ISO = {"zygote": None, "dirty": False, "failed": False, "n": 0}


def _fresh_audiolazy():
    """forget every audiolazy module: the next `from audiolazy import …` executes the sources again"""
    import sys
    for k in [k for k in sys.modules if k == "audiolazy" or k.startswith("audiolazy.")]:
        del sys.modules[k]


def _zygote_start():
    import os, sys, json
    if _ISO["zygote"] is not None or _ISO["failed"]:
        return
    try:
        req_r, req_w = os.pipe()
        res_r, res_w = os.pipe()
        pid = os.fork()
    except Exception:
        _ISO["failed"] = True
        return
    if pid:
        os.close(req_r)
        os.close(res_w)
        _ISO["zygote"] = (pid, os.fdopen(req_w, "w"), os.fdopen(res_r, "r"))
        return
    # ---- zygote ------------------------------------------------------------------------------------
    try:
        os.close(req_w)
        os.close(res_r)
        if _ISO["dirty"]:
            _fresh_audiolazy()
        import audiolazy          # noqa: imported once, pristine; the children inherit it
        inp = os.fdopen(req_r, "r")
        while True:
            line = inp.readline()
            if not line:
                break
            child = os.fork()
            if child == 0:
                try:
                    try:
                        obs = _impl_hist_here(json.loads(line))
                    except Exception as e:
                        import traceback
                        obs = {"err": "UNMAPPED:" + err_kind(e), "trace": traceback.format_exc()[-800:]}
                    os.write(res_w, (json.dumps(obs) + "\n").encode())
                finally:
                    os._exit(0)
            _, status = os.waitpid(child, 0)
            if status != 0:
                os.write(res_w, (json.dumps({"err": "UNMAPPED:child-died", "status": status}) + "\n").encode())
    finally:
        os._exit(0)


def _impl_hist(c, force=False):
    import json
    _zygote_start()
    z = _ISO["zygote"]
    _ISO["n"] += 1
    if z is None or (_ISO["n"] > ISO_ALWAYS and not force):
        _ISO["dirty"] = True
        return dict(_impl_hist_here(c), isolated=False)
    _, out, inp = z
    out.write(json.dumps(c) + "\n")
    out.flush()
    line = inp.readline()
    if not line:
        _ISO["zygote"], _ISO["failed"] = None, True
        _ISO["dirty"] = True
        return dict(_impl_hist_here(c), isolated=False)
    return json.loads(line)


def _impl_hist_here(c):
    from audiolazy import Stream
    from collections import deque
    num, objs = c["num"], c["objs"]
    env = _StftEnv(objs, num)
    for t, o in objs.items():
        if o["type"] == "blks":
            blks = [[_py(x, num) for x in b] for b in o["blks"]]
            route = o.get("route", "list")
            env.pyobj[t] = [tuple(b) for b in blks] if route == "tuples" else [deque(b) for b in blks] if route == "deques" else blks
        elif o["type"] == "sig":
            env.pyobj[t] = [_py(x, num) for x in o["sig"]]
    for t, o in objs.items():
        if o["type"] == "kw":
            env.pyobj[t] = env.kw(o["items"])
    pristine = _snapshot(env, objs)
    caches, obs, mutated, reported = {}, [], [], set()
    for i, (k, sub) in enumerate(zip(c["calls"], _subcases(c))):
        if k["op"] == "ola":
            B = env.pyobj[k["blks"]]
            route = objs[k["blks"]].get("route", "list")
            arg = iter(B) if route == "iter" else Stream(B) if route == "stream" else B
            kw = env.pyobj[k["kw"]] if isinstance(k["kw"], str) else env.kw(k["kw"])
            obs.append(_run_ola(arg, kw))
        else:
            P = _proc(c, k["proc"])
            sig = env.pyobj[k["sig"]] if isinstance(k["sig"], str) else None
            ckw = env.pyobj[k["call"]] if isinstance(k["call"], str) else None
            obs.append(_stft_exec(env, sub, sig=sig, call_kw=ckw, reuse=P["reuse"],
                                  cache=caches.setdefault(objs[k["proc"]].get("partial_of") or k["proc"], {})))
        now = _snapshot(env, objs)
        for t in sorted(now):
            if now[t] != pristine[t] and t not in reported:
                reported.add(t)
                mutated.append({"after_call": i, "obj": t, "before": pristine[t], "after": now[t]})
    return {"calls": obs, "mutated": mutated}


# ---- comparison ---------------------------------------------------------------------------------
def _obj_label(c, t):
    o = c["objs"][t]
    if o["type"] == "wnd":
        return {"memo": "the list returned by the (memoised) window callable", "list": "the caller's window list",
                "tuple": "the caller's window tuple"}.get(o.get("wkind"), "window") + " " + t
    return {"blks": "the caller's block objects", "sig": "the caller's signal list",
            "kw": "the caller's keyword dict"}.get(o["type"], o["type"]) + " " + t


def _compare_hist(c, io, drv):
    out = _compare_hist_raw(c, io, drv)
    if not out:
        return out
    if io.get("isolated") is False and _ISO["zygote"] is not None:
        io2 = _impl_hist(c, force=True)
        if io2.get("isolated") is False:
            return out
        out2 = _compare_hist_raw(c, io2, drv, alone_left=1)
        io.clear()
        io.update(io2)
        if out2:
            return out2
        io["only_after_earlier_cases"] = True
        return [(k, "only after the earlier cases of this run (agrees when run alone on a fresh process: the library "
                    "keeps state somewhere): " + d) for k, d in out]
    return _compare_hist_raw(c, io, drv, alone_left=1)


_ALONE = {}


def _alone_oracle(c, i, o):
    """second, model-free oracle for call #i+1 of a history: the real code on the same call as the ONLY call of a
    fresh process.  The property makes the result a function of the argument values, so the two must agree."""
    if _ISO["zygote"] is None:
        return []
    single = _gc(dict(c, calls=[c["calls"][i]]))
    key = common.json.dumps(single, sort_keys=True)
    if key not in _ALONE:
        if len(_ALONE) > 20000:
            _ALONE.clear()
        _ALONE[key] = _impl_hist(single, force=True)
    alone = _ALONE[key]
    a = (alone.get("calls") or [{}])[0]
    keys = [k for k in ("err", "out", "blocks", "trace", "ola_kwargs") if a.get(k) != o.get(k)]
    if alone.get("isolated") is False or not keys:
        return []
    k0 = keys[0]
    return [("spec", "call #%d depends on the calls before it: %s=%r here, %r when it is the only call of a fresh process"
             % (i + 1, k0, o.get(k0), a.get(k0)))]


def _compare_hist_raw(c, io, drv, alone_left=0):
    out = []
    if "calls" not in io or len(io["calls"]) != len(c["calls"]):
        return [("model", "impl observation failed: %r" % (io,)), ("spec", "impl observation failed")]
    subs = _subcases(c)
    text = _describe(c)
    first = True
    for i, (sub, o, d) in enumerate(zip(subs, io["calls"], drv["calls"])):
        probs = _compare_one(sub, o, d)
        for kind, detail in probs:
            out.append((kind, ("history %s: " % text if first else "") +
                        "call #%d differs from the same call taken alone (%s)" % (i + 1, detail[:260])))
            first = False
        if probs and i > 0 and alone_left:
            alone_left -= 1
            out.extend(_alone_oracle(c, i, o))
    for m in io.get("mutated", []):
        out.append(("spec", ("history %s: " % text if first else "") +
                    "call #%d modified %s: before=%r after=%r" % (m["after_call"] + 1, _obj_label(c, m["obj"]),
                                                                  m["before"], m["after"])))
        first = False
    return out


def _hist_bad_calls(c, io, drv):
    if "calls" not in io:
        return []
    return [i for i, (sub, o, d) in enumerate(zip(_subcases(c), io["calls"], drv["calls"])) if _compare_one(sub, o, d)]


def _classify_hist(c, io, drv):
    if io.get("only_after_earlier_cases"):
        return "hist:state-left-by-earlier-cases-of-the-run"
    bad = _hist_bad_calls(c, io, drv)
    subs = _subcases(c)
    if bad:
        i = bad[0]
        inner = classify(subs[i], io["calls"][i], drv["calls"][i])
        # one object as analysis and synthesis window of the failing call itself: no earlier call is needed
        aliased = any(len(set(s for j, s in u if j == i and s in ("wnd", "ola_wnd"))) > 1 for u in _tag_uses(c).values())
        if i > 0 and _alone_oracle(c, i, io["calls"][i]):
            return "hist:result-depends-on-earlier-calls:" + inner
        if aliased:
            return "hist:aliased-arguments:" + inner
        if i > 0 and _ISO["zygote"] is None:
            return "hist:result-depends-on-earlier-calls:" + inner
        return inner          # the call fails in the same way when it is the only call
    if io.get("mutated"):
        o = c["objs"][io["mutated"][0]["obj"]]
        return "hist:argument-modified:" + (o["type"] if o["type"] != "wnd" else "wnd-" + str(o.get("wkind")))
    return "hist:unclassified"


# ---- statistics ---------------------------------------------------------------------------------
def _tally_hist(eng, c, io):
    calls = c["calls"]
    subs = _subcases(c)
    eng.count("hist_calls", len(calls))
    ops = [k["op"] for k in calls]
    eng.count("hist_ops", "ola only" if set(ops) == {"ola"} else "stft only" if set(ops) == {"stft"} else "mixed")
    shared = set()
    for t, u in _tag_uses(c).items():
        o = c["objs"][t]
        if o["type"] in ("fn", "ola"):
            continue
        ncalls = len(set(i for i, _ in u))
        name = {"wnd": "window:" + str(o.get("wkind")), "blks": "blocks:" + str(o.get("route")), "sig": "signal list",
                "kw": "kwargs dict", "proc": "stft " + ("wrapper object" if o.get("reuse") == "wrapper" else
                                                         "partial application" if o.get("reuse") == "partial" and o.get("style") != "direct"
                                                         else "rebuilt (not shared)")}[o["type"]]
        if ncalls >= 2 and not (o["type"] == "wnd" and o.get("wkind") == "callable") and "not shared" not in name:
            shared.add(name + " in >=2 calls")
        for i in set(i for i, _ in u):
            slots = set(s for j, s in u if j == i)
            if {"wnd", "ola_wnd"} <= slots and o["type"] == "wnd":
                shared.add("window:%s as wnd and ola_wnd of one call" % o.get("wkind"))
    for s in shared or {"nothing"}:
        eng.count("hist_shared_objects", s)
    norms = []
    for k, sub in zip(calls, subs):
        if k["op"] == "ola":
            norms.append("T" if sub["normalize"] else "F")
            eng.count("hist_window_kind", "ola:" + str(sub["wkind"]))
        else:
            merged = {}
            for lv in sub["chain"] + [sub["call"]]:
                for kk, v in lv:
                    merged[kk] = v
            on = merged.get("ola", "absent") is not None
            norms.append("-" if not on else "T" if merged.get("ola_normalize", True) not in (False, 0, None) else "F")
            for key in ("wnd", "ola_wnd"):
                v = merged.get(key)
                eng.count("hist_window_kind", "stft %s:%s" % (key, c["objs"][v].get("wkind") if isinstance(v, str) and v in c["objs"] else "none"))
    pat = "".join(x for x in norms if x != "-")      # overlap-add calls only ("-" = stft call without overlap-add)
    eng.count("hist_normalize_pattern", pat[:4] + ("+" if len(pat) > 4 else "") or "no overlap-add")
    # the precondition of the in-place normalisation class: a normalised call with gain != 1 on a shared window, used again later
    pre = "no"
    seen = set()
    for k, sub in zip(calls, subs):
        if k["op"] == "ola":
            w = dict((a, b) for a, b in _items(c, k["kw"])).get("wnd")
            if isinstance(w, str) and c["objs"][w].get("wkind") in ("memo", "list", "tuple"):
                if w in seen:
                    pre = "yes"
                if sub["normalize"] and sub["wnd"] is not None:
                    try:
                        size = sub["size"] if sub["size"] is not None else len(sub["blks"][0])
                        hop = sub["hop"] if sub["hop"] is not None else size
                        wl = sub["wnd"]["w"] if sub["wnd"]["kind"] == "seq" else dict((n, l) for n, l in sub["wnd"]["table"])[size]
                        if 1 <= hop <= size and len(wl) == size and _strided_gain([dec(x) for x in wl], hop) not in (0, 1):
                            seen.add(w)
                    except Exception:
                        pass
    if set(ops) == {"ola"}:
        eng.count("hist_ola_normalised_gain_ne_1_then_window_reused", pre)
    errs = sum(1 for o in io.get("calls", []) if o.get("err") is not None)
    eng.count("hist_calls_raising", min(errs, 4))
    eng.count("hist_arguments_modified", len(io.get("mutated", [])))
    eng.count("hist_num", c["num"])


# ---- shrinking ----------------------------------------------------------------------------------
def _hist_sizes(c):
    vals = set()
    for o in c["objs"].values():
        if o["type"] == "kw":
            vals |= set(v for k, v in o["items"] if k == "size")
        elif o["type"] == "proc":
            vals |= set(v for lv in o["chain"] for k, v in lv if k == "size")
    for k in c["calls"]:
        for key in ("kw", "call"):
            if isinstance(k.get(key), list):
                vals |= set(v for kk, v in k[key] if kk == "size")
    return vals


def _resize_hist(c, old, new):
    """the whole history with block size old -> new (old > new >= 1): blocks, windows, size / hop keywords"""
    def fix_items(items):
        out = []
        for k, v in items:
            if k == "size" and v == old:
                v = new
            elif k in ("hop", "ola_hop") and isinstance(v, int) and not isinstance(v, bool) and v > new:
                v = new
            out.append([k, v])
        return out
    objs = {}
    for t, o in c["objs"].items():
        o = dict(o)
        if o["type"] == "wnd":
            w = o["wnd"]
            if w.get("kind") == "seq" and len(w["w"]) == old:
                o["wnd"] = {"kind": "seq", "w": w["w"][:new]}
            elif w.get("kind") == "callable":
                tab = dict((n, l) for n, l in w["table"])
                if old in tab:
                    tab[new] = tab.pop(old)[:new]
                o["wnd"] = dict(w, table=[[n, tab[n]] for n in sorted(tab)])
        elif o["type"] == "blks":
            o["blks"] = [b[:new] if len(b) == old else b for b in o["blks"]]
        elif o["type"] == "kw":
            o["items"] = fix_items(o["items"])
        elif o["type"] == "proc":
            o["chain"] = [fix_items(lv) for lv in o["chain"]]
        objs[t] = o
    calls = []
    for k in c["calls"]:
        k = dict(k)
        for key in ("kw", "call"):
            if isinstance(k.get(key), list):
                k[key] = fix_items(k[key])
        calls.append(k)
    return dict(c, objs=objs, calls=calls)


def _shrink_hist(c):
    calls, objs = c["calls"], c["objs"]

    def with_obj(t, o):
        return dict(c, objs=dict(objs, **{t: o}))

    def with_call(i, k):
        return dict(c, calls=calls[:i] + [k] + calls[i + 1:])
    # fewer calls: one call, two calls, one call less
    if len(calls) > 1:
        for i in range(len(calls)):
            yield _gc(dict(c, calls=[calls[i]]))
        if len(calls) > 2:
            for i in range(len(calls)):
                for j in range(i + 1, len(calls)):
                    yield _gc(dict(c, calls=[calls[i], calls[j]]))
        for i in range(len(calls)):
            yield _gc(dict(c, calls=calls[:i] + calls[i + 1:]))
    # every sample value 1 at once
    def ones(o):
        if o["type"] == "blks":
            return dict(o, blks=[[1] * len(b) for b in o["blks"]])
        if o["type"] == "sig":
            return dict(o, sig=[1] * len(o["sig"]))
        return o
    d = dict(c, objs=dict((t, ones(o)) for t, o in objs.items()),
             calls=[dict(k, sig=[1] * len(k["sig"])) if isinstance(k.get("sig"), list) else k for k in calls])
    if d != c:
        yield d
    # smaller size (only when the history has one size throughout)
    sizes = _hist_sizes(c)
    blens = set(len(b) for o in objs.values() if o["type"] == "blks" for b in o["blks"])
    if len(sizes | blens) == 1:
        old = list(sizes | blens)[0]
        if isinstance(old, int) and old > 1:
            yield _resize_hist(c, old, old - 1)
    # the shared objects
    for t, o in sorted(objs.items()):
        if o["type"] == "blks":
            for i in range(len(o["blks"])):
                yield with_obj(t, dict(o, blks=o["blks"][:i] + o["blks"][i + 1:]))
            if any(x not in (0, 1) for b in o["blks"] for x in b):
                yield with_obj(t, dict(o, blks=[[1] * len(b) for b in o["blks"]]))
            if o.get("route") != "list":
                yield with_obj(t, dict(o, route="list"))
        elif o["type"] == "sig":
            if o["sig"]:
                yield with_obj(t, dict(o, sig=o["sig"][:-1]))
                yield with_obj(t, dict(o, sig=o["sig"][1:]))
            if any(x not in (0, 1) for x in o["sig"]):
                yield with_obj(t, dict(o, sig=[1] * len(o["sig"])))
        elif o["type"] == "wnd":
            w = o["wnd"]
            if w.get("kind") == "seq":
                if any(x not in (1, 2) for x in w["w"]):
                    yield with_obj(t, dict(o, wnd={"kind": "seq", "w": [2] * len(w["w"])}))
                if any(x != 1 for x in w["w"]):
                    yield with_obj(t, dict(o, wnd={"kind": "seq", "w": [1] * len(w["w"])}))
                if o.get("wkind") == "tuple":
                    yield with_obj(t, dict(o, wkind="list"))
            elif w.get("kind") == "callable":
                tab = w["table"]
                for i in range(len(tab)):
                    if len(tab) > 1:
                        yield with_obj(t, dict(o, wnd=dict(w, table=tab[:i] + tab[i + 1:])))
                    if any(x not in (1, 2) for x in tab[i][1]):
                        yield with_obj(t, dict(o, wnd=dict(w, table=tab[:i] + [[tab[i][0], [2] * len(tab[i][1])]] + tab[i + 1:])))
                    if any(x != 1 for x in tab[i][1]):
                        yield with_obj(t, dict(o, wnd=dict(w, table=tab[:i] + [[tab[i][0], [1] * len(tab[i][1])]] + tab[i + 1:])))
                if o.get("wkind") == "memo":
                    yield with_obj(t, dict(o, wkind="callable"))
        elif o["type"] == "fn" and o["name"] != "id":
            yield with_obj(t, dict(o, name="id"))
        elif o["type"] == "kw":
            for i in range(len(o["items"])):
                yield _gc(with_obj(t, dict(o, items=o["items"][:i] + o["items"][i + 1:])))
        elif o["type"] == "proc":
            ch = o["chain"]
            for li, lv in enumerate(ch):
                for ki in range(len(lv)):
                    yield _gc(with_obj(t, dict(o, chain=ch[:li] + [lv[:ki] + lv[ki + 1:]] + ch[li + 1:])))
            if o.get("partial_of") or any(q.get("partial_of") == t for q in objs.values()):
                continue        # two specialisations of one partial application: keep the structure
            if o["reuse"] != "none":
                yield with_obj(t, dict(o, reuse="none"))
            if len(ch) > 1:
                merged = {}
                for lv in ch:
                    for k, v in lv:
                        merged[k] = v
                yield with_obj(t, dict(o, chain=[[[k, v] for k, v in merged.items()]], style="direct"))
            elif o["style"] != "direct":
                yield with_obj(t, dict(o, style="direct"))
    # the calls
    for i, k in enumerate(calls):
        for key in ("kw", "call"):
            if key not in k:
                continue
            if isinstance(k[key], str):
                yield _gc(with_call(i, dict(k, **{key: objs[k[key]]["items"]})))
                continue
            items = k[key]
            for j, (kk, v) in enumerate(items):
                yield _gc(with_call(i, dict(k, **{key: items[:j] + items[j + 1:]})))
                if kk in ("normalize", "ola_normalize") and v:
                    yield with_call(i, dict(k, **{key: items[:j] + [[kk, False]] + items[j + 1:]}))
                if kk == "hop" and isinstance(v, int) and v > 1:
                    yield with_call(i, dict(k, **{key: items[:j] + [[kk, v - 1]] + items[j + 1:]}))
        if k["op"] == "stft":
            if objs[k["proc"]].get("partial_of"):
                yield _gc(with_call(i, dict(k, proc=objs[k["proc"]]["partial_of"])))
            if isinstance(k["sig"], str):
                yield _gc(with_call(i, dict(k, sig=objs[k["sig"]]["sig"])))
            else:
                sig = k["sig"]
                if sig:
                    yield with_call(i, dict(k, sig=sig[:-1]))
                    yield with_call(i, dict(k, sig=sig[1:]))
                if any(x not in (0, 1) for x in sig):
                    yield with_call(i, dict(k, sig=[1] * len(sig)))


# ==============================================================================================
# histories of the stft partial / decorator forms (lean/ALV/Model/C09Hist.lean)
# ==============================================================================================
# {"entry": "phist", "num": …, "objs": {tag: object as in the stft cases},
#  "events": [{"op": "new", "kw": [[k, v], …]}                      p_i = stft(**kw)
#             {"op": "derive", "parent": i, "kw": …}                p_i = p_parent(**kw)
#             {"op": "build", "parent": i, "kw": …, "func": tag, "deco": bool}   proc_j = p_parent(func, **kw)  /  @p_parent
#             {"op": "direct", "kw": …, "func": tag}                proc_j = stft(func, **kw)
#             {"op": "run", "proc": j, "sig": […], "call": [[k, v], …]}           proc_j(sig, **call)
# Partials and processors are named by creation order.  The driver replays the events on the model's store
# (`runOps`) and answers every run from the record the store holds for that processor ("model") and from the merge
# of the keyword dicts on the processor's OWN path (`runChains` + `stftDefaults`, "spec").


def _ph_paths(c, upto=None):
    """own keyword path of every partial / processor (the harness' own replay, used for labels and regimes)"""
    parts, procs, funcs = [], [], []
    for ev in c["events"][:upto]:
        op = ev["op"]
        if op == "new":
            parts.append([ev["kw"]])
        elif op == "derive":
            parts.append(parts[ev["parent"]] + [ev["kw"]])
        elif op == "build":
            procs.append(parts[ev["parent"]] + [ev["kw"]])
            funcs.append(ev["func"])
        elif op == "direct":
            procs.append([ev["kw"]])
            funcs.append(ev["func"])
    return parts, procs, funcs


def _ph_uses(c):
    """how often every partial is used as a parent"""
    n = {}
    for ev in c["events"]:
        if ev["op"] in ("derive", "build"):
            n[ev["parent"]] = n.get(ev["parent"], 0) + 1
    return list(n.values())


def _ph_subcases(c):
    """every run as the stand-alone stft case of ITS OWN options"""
    _, procs, funcs = _ph_paths(c)
    subs = []
    for ev in c["events"]:
        if ev["op"] == "run":
            d = {"entry": "stft", "style": "partial", "chain": procs[ev["proc"]], "call": ev["call"],
                 "func": funcs[ev["proc"]], "sig": ev["sig"],
                 "objs": dict((t, o) for t, o in c["objs"].items() if o["type"] in ("wnd", "fn", "ola")),
                 "num": c["num"], "kind": "phist"}
            d["regime"] = _regime_stft(d)
            subs.append(d)
    return subs


def _ph_describe(c):
    out, np_, nq = [], 0, 0
    for ev in c["events"]:
        op = ev["op"]
        if op == "new":
            out.append("p%d = stft(%s)" % (np_, _fmt_kw(ev["kw"])))
            np_ += 1
        elif op == "derive":
            out.append("p%d = p%d(%s)" % (np_, ev["parent"], _fmt_kw(ev["kw"])))
            np_ += 1
        elif op == "build":
            out.append("f%d = p%d(%s%s)" % (nq, ev["parent"], ev["func"], (", " + _fmt_kw(ev["kw"])) if ev["kw"] else ""))
            nq += 1
        elif op == "direct":
            out.append("f%d = stft(%s, %s)" % (nq, ev["func"], _fmt_kw(ev["kw"])))
            nq += 1
        else:
            out.append("f%d(sig[%d]%s)" % (ev["proc"], len(ev["sig"]), (", " + _fmt_kw(ev["call"])) if ev["call"] else ""))
    return "; ".join(out)


def _mk_phist(rng, quick=True):
    base = _mk_stft(rng, rng.choice(["plain", "plain", "identity", "identity", "ola_none", "bad"]))
    num = base["num"]
    objs = dict((t, dict(o)) for t, o in base["objs"].items())
    for t, o in objs.items():         # windows that can be handed over more than once
        if o["type"] != "wnd":
            continue
        w = o["wnd"]
        if w.get("kind") == "obj" and w["wk"] not in WK_REUSABLE:
            wk = rng.choice(["list", "tuple", "deque", "user_iter_only"])
            o["wnd"] = dict(w, wk=wk, call=None)
            o["wkind"] = "obj:" + wk
        elif w.get("kind") == "seq":
            o["wkind"] = rng.choice(["list", "tuple"])
        elif w.get("kind") == "callable":
            o["wkind"] = "callable"
    merged = {}
    for lv in base["chain"] + [base["call"]]:
        for k, v in lv:
            merged[k] = v
    items = [[k, v] for k, v in merged.items()]
    size = merged.get("size")
    isz = size if isinstance(size, int) else 4
    wtags = sorted(t for t, o in objs.items() if o["type"] == "wnd")
    ola_on = merged.get("ola", "absent") in ("@spy", "@list")
    objs.setdefault("@g", {"type": "fn", "name": rng.choice(FN1), "arg": _rand_val(rng, "frac" if num == "float" else num)})
    objs["@h"] = {"type": "fn", "name": "id" if base["kind"] == "identity" else rng.choice(FN1),
                  "arg": _rand_val(rng, "frac" if num == "float" else num)}      # a second user function
    if wtags and rng.random() < 0.5:
        objs["@w2"] = {"type": "wnd", "wkind": "list", "wnd": {"kind": "seq", "w": _rand_wnd(rng, isz, num)}}
        wtags.append("@w2")

    def variation():
        """keywords a derivation adds: the ones a sibling must not inherit"""
        kw = []
        for _ in range(rng.choice([0, 1, 1, 1, 2, 2, 3])):
            r = rng.random()
            if r < 0.30:
                kw.append(["hop", rng.randint(1, isz)])
            elif r < 0.45 and ola_on:
                kw.append(["ola_normalize", rng.random() < 0.5])
            elif r < 0.60 and wtags:
                kw.append(["wnd", rng.choice(wtags + [None])])
            elif r < 0.72 and wtags and ola_on:
                kw.append(["ola_wnd", rng.choice([t for t in wtags if objs[t]["wnd"].get("kind") != "scalar"] + [None])])
            elif r < 0.80:
                kw.append([rng.choice(["before", "after"]), rng.choice([None, "@g"])])
            elif r < 0.86 and ola_on:
                kw.append(["ola_hop", rng.randint(1, isz)])
            elif r < 0.90:
                kw.append(["size", isz + rng.choice([0, 1])])
            elif r < 0.93:
                kw.append([rng.choice(["foo", "ola_latency", "olawnd"]), 1])
            elif items:
                kw.append(list(rng.choice(items)))
        seen = {}
        for k, v in kw:
            seen[k] = v
        return [[k, v] for k, v in seen.items()]

    # the root partial gets most of the base keywords, the rest is given along the way
    root = [kv for kv in items if rng.random() < 0.75 or kv[0] in ("size", "ola", "transform", "inverse_transform", "before", "after")]
    rest = [kv for kv in items if kv not in root]
    events = [{"op": "new", "kw": root}]
    nparts, nprocs = 1, 0
    n = rng.choice([2, 3, 3, 4, 4, 5, 6] if quick else [2, 3, 4, 5, 6, 7, 8, 9])
    pending = []
    for step in range(n):
        r = rng.random()
        # prefer parents that were used already: the same partial used several times is the point
        used = [ev["parent"] for ev in events if ev["op"] in ("derive", "build")]
        parent = rng.choice(used) if used and rng.random() < 0.6 else rng.randrange(nparts)
        kw = variation() + [kv for kv in rest if rng.random() < 0.5]
        seen = {}
        for k, v in kw:
            seen[k] = v
        kw = [[k, v] for k, v in seen.items()]
        if r < 0.30:
            events.append({"op": "derive", "parent": parent, "kw": kw})
            nparts += 1
        elif r < 0.90 or nprocs == 0 and step == n - 1:
            if rng.random() < 0.3:
                kw = []          # bare `@p` / `p(func)`: the processor that must see the partial as it was given
            events.append({"op": "build", "parent": parent, "kw": kw, "func": rng.choice(["@f", "@f", "@h"]),
                           "deco": not kw and rng.random() < 0.5})
            pending.append(nprocs)
            nprocs += 1
        elif r < 0.95:
            events.append({"op": "new", "kw": [kv for kv in items if rng.random() < 0.7] + variation()[:1]})
            nparts += 1
        else:
            events.append({"op": "direct", "kw": items, "func": "@f"})
            pending.append(nprocs)
            nprocs += 1
        # runs: at once, or after later derivations
        while pending and rng.random() < 0.5:
            j = pending.pop(rng.randrange(len(pending)))
            events.append(_ph_run(rng, j, isz, merged, num, rest))
    while pending:
        j = pending.pop(rng.randrange(len(pending)))
        events.append(_ph_run(rng, j, isz, merged, num, rest))
    used_tags = {"@f", "@h"} | {v for ev in events for key in ("kw", "call") for _, v in ev.get(key, []) if isinstance(v, str)}
    return {"entry": "phist", "num": num, "objs": dict((t, o) for t, o in objs.items() if t in used_tags),
            "events": events}


def _ph_run(rng, j, isz, merged, num, rest):
    eff_hop = merged.get("hop") if isinstance(merged.get("hop"), int) else isz
    n = rng.choice([0, 1, isz, isz + 1, rng.randint(0, 12), isz + 2 * eff_hop])
    call = [kv for kv in rest if rng.random() < 0.3]
    if rng.random() < 0.15:
        call.append(["hop", rng.randint(1, isz)])
    seen = {}
    for k, v in call:
        seen[k] = v
    return {"op": "run", "proc": j, "sig": [_rand_val(rng, num) for _ in range(n)], "call": [[k, v] for k, v in seen.items()]}


def _impl_phist(c):
    _zygote_start()
    _ISO["dirty"] = True
    from audiolazy import stft
    env = _StftEnv(c["objs"], c["num"])
    parts, procs, runs = [], [], []
    _, paths, _ = _ph_paths(c)
    try:
        for ev in c["events"]:
            op = ev["op"]
            if op == "new":
                parts.append(stft(**env.kw(ev["kw"])))
            elif op == "derive":
                parts.append(parts[ev["parent"]](**env.kw(ev["kw"])))
            elif op == "build":
                f = env.pyobj[ev["func"]]
                if ev.get("deco") and not ev["kw"]:
                    deco = parts[ev["parent"]]
                    procs.append(deco(f))                 # what `@p` does
                else:
                    procs.append(parts[ev["parent"]](f, **env.kw(ev["kw"])))
            elif op == "direct":
                procs.append(stft(env.pyobj[ev["func"]], **env.kw(ev["kw"])))
            else:
                j = ev["proc"]
                merged = {}
                for lv in paths[j] + [ev["call"]]:
                    for k, v in lv:
                        merged[k] = v
                runs.append(_run_proc(env, procs[j], [_py(x, env.num) for x in ev["sig"]], env.kw(ev["call"]), merged))
    except Exception as e:
        return {"err": "history event raised %s: %s" % (err_kind(e), str(e)[:80]), "runs": runs}
    return {"runs": runs}


def _run_proc(env, proc, sig, call_kw, merged):
    """one call of a processor, observed like `_stft_exec` does"""
    rec = env.rec
    rec["trace"], rec["ola_kwargs"] = [], None
    obs = {"phase": "call", "err": None, "out": None, "blocks": None}
    try:
        res = proc(sig, **call_kw)
        obs["phase"] = "iter"
        items = []
        if merged.get("ola", "x") is None:
            obs["blocks"] = items
            for b in res:
                items.append([enc(x) for x in b])
        else:
            obs["out"] = items
            for x in res:
                items.append(enc(x))
    except Exception as e:
        where, eo = _stft_plan_err(e)
        obs["err"] = dict(eo, where=where)
    obs["trace"] = rec["trace"]
    obs["ola_kwargs"] = rec["ola_kwargs"]
    return obs


def _compare_phist(c, io, drv):
    subs = _ph_subcases(c)
    if "runs" not in io or isinstance(io.get("err"), str) or len(io["runs"]) != len(subs) or len(drv.get("runs", [])) != len(subs):
        return [("model", "impl observation failed: %r" % (io.get("err", io),)), ("spec", "impl observation failed")]
    out, first = [], True
    text = _ph_describe(c)
    for i, (sub, o, d) in enumerate(zip(subs, io["runs"], drv["runs"])):
        for kind, detail in _compare_stft(sub, o, d):
            out.append((kind, ("history %s: " % text if first else "") +
                        "run #%d does not use the options of its own derivation path %s (%s)"
                        % (i + 1, " | ".join(_fmt_kw(l) for l in sub["chain"]), detail[:260])))
            first = False
    return out


def _classify_phist(c, io, drv):
    if isinstance(io.get("err"), str):
        return "phist:impl-observation-failed"
    subs = _ph_subcases(c)
    for sub, o, d in zip(subs, io.get("runs", []), drv.get("runs", [])):
        if _compare_stft(sub, o, d):
            return "phist:" + classify(sub, o, d)
    return "phist:none"


def _tally_phist(eng, c, io):
    evs = c["events"]
    eng.count("phist_events", len(evs))
    eng.count("phist_max_uses_of_one_partial", max(_ph_uses(c) or [0]))
    parts, procs, _ = _ph_paths(c)
    eng.count("phist_deepest_path", max(len(p) for p in procs) if procs else 0)
    eng.count("phist_processors", len(procs))
    # the situation of the theorem: an earlier derivation from the same partial gave a keyword that a later one omits
    seen, hit = {}, False
    for ev in evs:
        if ev["op"] in ("derive", "build"):
            ks = set(k for k, _ in ev["kw"])
            if seen.get(ev["parent"], set()) - ks:
                hit = True
            seen.setdefault(ev["parent"], set()).update(ks)
    eng.count("phist_sibling_keyword_omitted_later", "yes" if hit else "no")
    eng.count("phist_bare_decorator", sum(1 for ev in evs if ev["op"] == "build" and not ev["kw"]))
    # runs that happen after a LATER derivation from an ancestor of their processor
    eng.count("phist_runs_after_later_events", sum(1 for i, ev in enumerate(evs) if ev["op"] == "run" and
              any(e2["op"] in ("derive", "build") for e2 in evs[[k for k, e3 in enumerate(evs) if e3["op"] in ("build", "direct")][ev["proc"]] + 1:i])))
    for o in io.get("runs", []):
        e = o.get("err")
        eng.count("phist_run_error", "none" if e is None else e["tag"].split(":")[0])


def _ph_drop(c, idx):
    """the history without event #idx (and without what depended on it), names re-numbered"""
    evs = c["events"]
    pmap, qmap, out = {}, {}, []
    np_, nq = 0, 0
    cp, cq = 0, 0
    for i, ev in enumerate(evs):
        op = ev["op"]
        keep = i != idx
        if op in ("derive", "build") and ev["parent"] not in pmap:
            keep = False
        if op == "run" and ev["proc"] not in qmap:
            keep = False
        if op in ("new", "derive"):
            if keep:
                pmap[cp] = np_
                np_ += 1
            cp += 1
        elif op in ("build", "direct"):
            if keep:
                qmap[cq] = nq
                nq += 1
            cq += 1
        if keep:
            ev = dict(ev)
            if "parent" in ev:
                ev["parent"] = pmap[ev["parent"]]
            if "proc" in ev:
                ev["proc"] = qmap[ev["proc"]]
            out.append(ev)
    return dict(c, events=out)


def _shrink_phist(c):
    evs = c["events"]
    for i in range(len(evs) - 1, -1, -1):
        d = _ph_drop(c, i)
        if any(ev["op"] == "run" for ev in d["events"]):
            yield d
    for i, ev in enumerate(evs):
        for key in ("kw", "call"):
            for ki in range(len(ev.get(key, []))):
                ne = dict(ev)
                ne[key] = ev[key][:ki] + ev[key][ki + 1:]
                yield dict(c, events=evs[:i] + [ne] + evs[i + 1:])
        if ev["op"] == "run" and ev["sig"]:
            yield dict(c, events=evs[:i] + [dict(ev, sig=ev["sig"][:-1])] + evs[i + 1:])
            if any(x not in (0, 1) for x in ev["sig"]):
                yield dict(c, events=evs[:i] + [dict(ev, sig=[1] * len(ev["sig"]))] + evs[i + 1:])
    for tag, o in c["objs"].items():
        if o["type"] == "fn" and o["name"] != "id":
            yield dict(c, objs=dict(c["objs"], **{tag: dict(o, name="id")}))
