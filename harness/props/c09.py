"""C09 — overlap_add.list and the stft wrapper.  Tie: small exhaustive grid + random + malformed stream.

Only `overlap_add.list` can be tied: `overlap_add.numpy` (the default strategy) needs numpy, which the
sandbox interpreter does not have; its loop (`blk[:-hop] += old[hop:]`) is the same recurrence.
"""
import common
from common import enc, dec, err_kind, close
from fractions import Fraction as F

ID = "C09"
RULE = ("grid (size<=6 x hop<=size x m<=4 x normalise x window kind) + random (size<=8, m<=5, four window "
        "kinds + tuple/Stream/empty, int/Fraction/float samples) + malformed stream (wrong block or window "
        "length, non-iterable window, hop>size, hop=0, size detection on no block); non-trivial = no error, "
        "at least one block and one output sample; distinct = distinct JSON case")
TRUSTED = [
    "hand-written Lean model ALV/Model/C09.lean of overlap_add.list and of the stft wrapper (modelled, not "
    "verified: Python slice assignment, iterator consumption by map(), generator protocol, Stream.blocks = C08 model)",
    "overlap_add.numpy is NOT tied (numpy unavailable in the sandbox); only overlap_add.list is run",
    "regime labelling (harness/props/c09.py:_regime): exact comparison when every intermediate value is a small dyadic "
    "rational (binary floats exact), else relative tolerance 1e-9",
]
ASSUMPTIONS = [
    "size >= 1; the property quantifies over 1 <= hop <= size (hop > size and hop = 0 are modelled and tied, "
    "but the spec is silent there)",
    "normalisation is modelled over an ordered field (int / Fraction / float windows); complex windows are outside",
    "ceil(size / hop) is computed by the code in floating point; modelled as exact integer ceiling",
]

MANIFEST = {
    "text": "Lean 4 theorems about an executable, code-shaped model of overlap_add.list (window resolution, normalisation gain, "
            "slice-assignment loop, flush, size checks) and of the stft wrapper (keyword merge and routing, blk_gen, run), for all "
            "block counts / sizes / hops / windows / keyword dictionaries; tied to /repo by a differential run (impl vs model vs spec) "
            "on every check",
    "note": "overlap_add.numpy cannot be run here (no numpy) and is not tied; Python slice assignment, map() consumption and the "
            "generator protocol are modelled, not verified; floats injected by the impl (mem=[0.]*size, 1/ceil) are compared exactly "
            "on dyadic inputs and with relative tolerance 1e-9 otherwise; known defect D7 recorded in known_findings/C09.json",
    "technique": "Lean 4 machine-checked proof over an executable model + differential correspondence with spies in three calling styles",
}

TOL = F(1, 10 ** 9)
_LAST = {}     # id(case) -> last driver payload (read by tally)


# ----------------------------------------------------------------------------------------------
# numbers
# ----------------------------------------------------------------------------------------------
def _is_dyadic(x, maxbits=24):
    x = F(x)
    d = x.denominator
    return d & (d - 1) == 0 and d <= 2 ** maxbits and abs(x.numerator) <= 2 ** maxbits


def _py(j, num):
    """JSON number -> the Python value handed to the impl"""
    v = dec(j)
    if num == "float":
        return float(v)
    if num == "frac":
        return v
    return int(v) if v.denominator == 1 else v


def _rand_val(rng, num):
    if num == "int":
        return rng.randint(-9, 9)
    if num == "float":      # dyadic, so that the float is exactly the rational sent to Lean
        return enc(F(rng.randint(-64, 64), rng.choice([1, 2, 4, 8])))
    r = rng.random()
    if r < 0.5:
        return enc(F(rng.randint(-12, 12), rng.choice([1, 2, 4, 8])))
    return enc(F(rng.randint(-12, 12), rng.choice([1, 2, 3, 5, 6, 7])))


def _rand_wnd(rng, size, num):
    r = rng.random()
    if r < 0.12:
        return [1] * size
    if r < 0.2:
        return [0] * size                      # gain 0 branch
    if r < 0.35:                               # triangular-like (COLA for hop = size/2)
        half = (size + 1) // 2
        return [enc(F(min(i + 1, size - i), half)) for i in range(size)]
    if r < 0.5:
        return [rng.choice([1, 2, 4, enc(F(1, 2)), enc(F(1, 4)), -1, -2, 0]) for _ in range(size)]
    return [_rand_val(rng, "frac" if num == "int" and rng.random() < .3 else num) for _ in range(size)]


def _strided_gain(w, hop):
    return max(sum(abs(x) for x in w[j::hop]) for j in range(hop))


def _regime(c):
    """'exact' iff every true intermediate value is a small dyadic rational (then binary floating point
    computes it exactly); otherwise 'float' (the impl injects floats: mem=[0.]*size, 1/ceil(), pad 0.)."""
    try:
        vals = [dec(x) for b in c["blks"] for x in b]
        if not all(_is_dyadic(v) for v in vals):
            return "float"
        size = c["size"] if c["size"] is not None else (len(c["blks"][0]) if c["blks"] else 0)
        hop = c["hop"] if c["hop"] is not None else size
        w = c.get("wnd")
        wl = None
        if w is not None and w.get("kind") == "seq":
            wl = [dec(x) for x in w["w"]]
        elif w is not None and w.get("kind") == "callable":
            tab = dict((n, l) for n, l in w["table"])
            l = tab.get(size, w.get("default"))
            wl = [dec(x) for x in l] if l is not None else None
        if wl is not None and not all(_is_dyadic(v) for v in wl):
            return "float"
        if c["normalize"] and hop >= 1 and size >= 1:
            if wl:
                g = _strided_gain(wl, hop)
                if g != 0 and not all(_is_dyadic(v / g) for v in wl):
                    return "float"
            else:
                cdiv = -(-size // hop)
                if cdiv & (cdiv - 1):
                    return "float"
        return "exact"
    except Exception:
        return "float"


# ----------------------------------------------------------------------------------------------
# generation
# ----------------------------------------------------------------------------------------------
WKINDS = ["none", "list", "callable", "gen", "tuple", "stream", "callable_gen"]
ROUTES = ["list", "iter", "stream", "tuples", "deques"]


def _mk_ola(rng, size, hop, m, normalize, wkind, num, size_given=True, hop_given=True, route="list",
            wsize=None, blens=None):
    blens = blens if blens is not None else [size] * m
    blks = [[_rand_val(rng, num) for _ in range(n)] for n in blens]
    wsize = size if wsize is None else wsize
    if wkind == "none":
        wnd = None
    elif wkind in ("callable", "callable_gen"):
        # a table by size: the code must call wnd(size), not wnd(hop) or wnd(len(first block) + 1)
        table = [[n, _rand_wnd(rng, n + (wsize - size), num)] for n in sorted({size, hop, max(size - 1, 1), size + 1}) if n + (wsize - size) >= 0]
        wnd = {"kind": "callable", "table": table, "default": None}
    elif wkind == "scalar":
        wnd = {"kind": "scalar"}
    elif wkind == "callable_scalar":
        wnd = {"kind": "callable", "table": [], "default": None}
    elif wkind == "empty":
        wnd = {"kind": "seq", "w": []}
    else:
        wnd = {"kind": "seq", "w": _rand_wnd(rng, wsize, num)}
    c = {"entry": "ola", "blks": blks, "size": size if size_given else None,
         "hop": hop if hop_given else None, "wnd": wnd, "normalize": normalize,
         "wkind": wkind, "num": num, "route": route}
    if normalize and rng.random() < 0.5:
        c["normalize_given"] = False          # rely on the default normalize=True
    c["regime"] = _regime(c)
    return c


def _mk_ola_sig(rng, i):
    size = rng.randint(1, 8)
    divs = [h for h in range(1, size + 1) if size % h == 0]
    cola = i % 3 != 2
    hop = rng.choice(divs) if cola else rng.randint(1, size)
    num = rng.choice(["int", "frac", "float", "float"])
    n = rng.choice([0, 1, size - 1, size, size + 1, rng.randint(0, 30), size + 3 * hop, size + 2 * hop - 1])
    sig = [_rand_val(rng, num) for _ in range(max(0, n))]
    mode = rng.choice(["rect_norm", "cola", "cola", "cola_scaled_norm", "random"]) if cola else "random"
    normalize = False
    if mode == "rect_norm":
        wnd, normalize, wkind = None, True, "none"
    elif mode == "cola":
        wnd, wkind = {"kind": "seq", "w": _cola_wnd(rng, size, hop)}, rng.choice(["list", "gen", "tuple"])
    elif mode == "cola_scaled_norm":
        # a non-negative COLA window times a constant: normalisation divides the constant out again
        c = size // hop
        w = [None] * size
        for j in range(hop):
            parts = [F(rng.randint(0, 4), 4) for _ in range(c - 1)]
            parts.append(max(F(0), 1 - sum(parts)))
            tot = sum(parts)
            parts = [p / tot for p in parts] if tot else [F(1, c)] * c
            for k in range(c):
                w[j + k * hop] = parts[k]
        scale = rng.choice([2, 3, F(1, 2), 5])
        wnd, normalize, wkind = {"kind": "seq", "w": [enc(x * scale) for x in w]}, True, "list"
    else:
        wk = rng.choice(["none", "list", "callable"])
        normalize = rng.random() < 0.5
        wkind = wk
        if wk == "none":
            wnd = None
        elif wk == "callable":
            wnd = {"kind": "callable", "table": [[m, _rand_wnd(rng, m, num)] for m in sorted({size, hop})], "default": None}
        else:
            wnd = {"kind": "seq", "w": _rand_wnd(rng, size, num)}
    c = {"entry": "ola_sig", "sig": sig, "bsize": size, "bhop": hop,
         "size": size if rng.random() < 0.5 else None, "hop": hop, "wnd": wnd, "normalize": normalize,
         "wkind": wkind, "num": num, "route": rng.choice(["stream", "func"])}
    c["regime"] = _regime(dict(c, blks=[sig], size=size))
    return c


def generate(rng, tier, scale=1):
    cases = []
    quick = tier == "quick"
    S = 6 if quick else 9
    M = 4 if quick else 6
    # --- grid over the property's quantifier ----------------------------------------------------
    if scale == 1:
        i = 0
        for size in range(1, S + 1):
            for hop in range(1, size + 1):
                for m in range(0, M + 1):
                    for normalize in (False, True):
                        i += 1
                        wkind = WKINDS[i % len(WKINDS)]
                        num = ("int", "frac", "float")[i % 3]
                        cases.append(_mk_ola(rng, size, hop, m, normalize, wkind, num,
                                             size_given=(i % 4 != 0) or m == 0,
                                             hop_given=(hop != size) or i % 2 == 0,
                                             route=ROUTES[i % len(ROUTES)]))
    # --- random -----------------------------------------------------------------------------------
    nrand = (500 if quick else 18000) * scale
    for _ in range(nrand):
        size = rng.randint(1, 8 if quick else 16)
        hop = rng.choice([1, size, max(1, size // 2), rng.randint(1, size), rng.randint(1, size)])
        m = rng.choice([0, 1, 2, 3, 4, 5] if quick else list(range(0, 13)))
        wkind = rng.choice(WKINDS + ["list", "none", "empty"])
        num = rng.choice(["int", "frac", "frac", "float"])
        size_given = rng.random() < 0.6 or m == 0
        cases.append(_mk_ola(rng, size, hop, m, rng.random() < 0.6, wkind, num, size_given=size_given,
                             hop_given=(hop != size) or rng.random() < 0.5, route=rng.choice(ROUTES)))
    # --- malformed / outside the quantifier -----------------------------------------------------
    nbad = (160 if quick else 3000) * scale
    for _ in range(nbad):
        size = rng.randint(1, 6)
        hop = rng.randint(1, size)
        m = rng.randint(1, 4)
        kind = rng.choice(["blk_short", "blk_long", "blk_long2", "wnd_size", "wnd_scalar", "wnd_callable_scalar",
                           "hop_gt", "hop_zero", "detect_empty", "declared_size", "first_blk"])
        normalize = rng.random() < 0.5
        wkind = rng.choice(["none", "list", "callable", "gen"])
        num = rng.choice(["int", "frac"])
        if kind in ("blk_short", "blk_long", "blk_long2"):
            blens = [size] * m
            d = {"blk_short": -rng.randint(1, size), "blk_long": 1, "blk_long2": rng.randint(2, 4)}[kind]
            blens[rng.randrange(m)] = max(0, size + d)
            cases.append(_mk_ola(rng, size, hop, m, normalize, wkind, num, blens=blens,
                                 size_given=rng.random() < 0.7))
        elif kind == "first_blk":
            blens = [size] * m
            blens[0] = max(1, size + rng.choice([-1, 1]))
            cases.append(_mk_ola(rng, size, hop, m, normalize, wkind, num, blens=blens, size_given=True))
        elif kind == "wnd_size":
            cases.append(_mk_ola(rng, size, hop, m, normalize, rng.choice(["list", "callable", "gen", "stream"]), num,
                                 wsize=max(1, size + rng.choice([-2, -1, 1, 2]))))
        elif kind == "wnd_scalar":
            cases.append(_mk_ola(rng, size, hop, m, normalize, "scalar", num))
        elif kind == "wnd_callable_scalar":
            cases.append(_mk_ola(rng, size, hop, m, normalize, "callable_scalar", num))
        elif kind == "hop_gt":
            cases.append(_mk_ola(rng, size, size + rng.randint(1, 4), m, normalize, wkind, num))
        elif kind == "hop_zero":
            cases.append(_mk_ola(rng, size, 0, m, normalize, wkind, num))
        elif kind == "detect_empty":
            cases.append(_mk_ola(rng, size, hop, 0, normalize, wkind, num, size_given=False,
                                 hop_given=rng.random() < 0.5, route=rng.choice(ROUTES)))
        else:  # declared size differs from the blocks
            blens = [max(1, size + rng.choice([-1, 1]))] * m
            cases.append(_mk_ola(rng, size, hop, m, normalize, wkind, num, blens=blens, size_given=True))
    # --- blocks -> overlap-add round trip (ties ola_blocks_inverse to Stream.blocks + overlap_add.list) ----
    nrt = (260 if quick else 5000) * scale
    for i in range(nrt):
        cases.append(_mk_ola_sig(rng, i))
    # --- stft wrapper ------------------------------------------------------------------------------
    nst = (450 if quick else 9000) * scale
    for i in range(nst):
        kind = ("plain", "plain", "identity", "identity", "bad", "ola_none", "plain_np")[i % 7]
        cases.append(_mk_stft(rng, kind))
    return cases


# ----------------------------------------------------------------------------------------------
# stft cases
# ----------------------------------------------------------------------------------------------
FN1 = ["id", "rev", "neg", "scale", "shift", "rot", "cumsum"]
FN2 = ["addsize", "scalesize"] + FN1
STYLES = ["direct", "decorator", "partial"]


def _cola_wnd(rng, size, hop):
    """a window of `size` items whose hop-shifted copies sum to one (hop | size)"""
    c = size // hop
    w = [None] * size
    for j in range(hop):
        parts = [F(rng.randint(-2, 6), rng.choice([1, 2, 4])) for _ in range(c - 1)]
        parts.append(1 - sum(parts))
        rng.shuffle(parts)
        for i in range(c):
            w[j + i * hop] = enc(parts[i])
    return w


def _split_kwargs(rng, items, style, overrides):
    """distribute (key, value) pairs over the keyword dicts of the chosen calling style and the final call;
    `overrides` are (key, stale value) pairs placed at an earlier level than the real value"""
    nlev = {"direct": 1, "decorator": 1, "partial": rng.choice([2, 2, 3])}[style]
    levels = [[] for _ in range(nlev + 1)]          # last one = keywords of the wrapper call
    place = {}
    for k, v in items:
        lv = rng.randrange(nlev + 1) if rng.random() < 0.8 else nlev
        place[k] = lv
        levels[lv].append([k, v])
    for k, v in overrides:
        if k in place and place[k] > 0:
            lv = rng.randrange(place[k])
            levels[lv].append([k, v])
    for l in levels:
        rng.shuffle(l)
    return levels[:-1], levels[-1]


def _mk_stft(rng, kind):
    num = rng.choice(["int", "int", "frac", "float", "float"])
    size = rng.randint(1, 6)
    hop = rng.choice([None, size, rng.randint(1, size), rng.randint(1, size)])
    objs = {}
    items = [["size", size]]
    overrides = []
    style = rng.choice(STYLES)
    identity = kind == "identity"
    if identity:
        divs = [h for h in range(1, size + 1) if size % h == 0]
        hop = rng.choice(divs)
    if hop is not None or rng.random() < 0.2:
        items.append(["hop", hop if hop is not None else size])
    eff_hop = hop if hop is not None else size
    # analysis window
    wa = rng.choice(["absent", "none", "list", "callable", "gen", "tuple"])
    if identity:
        wa = rng.choice(["absent", "none", "cola", "ones"])
    if wa == "none":
        items.append(["wnd", None])
    elif wa in ("cola", "ones"):
        w = _cola_wnd(rng, size, eff_hop) if wa == "cola" else [1] * size
        objs["@wa"] = {"type": "wnd", "wnd": {"kind": "seq", "w": w}, "wkind": "list"}
        items.append(["wnd", "@wa"])
    elif wa != "absent":
        if wa == "callable":
            wnd = {"kind": "callable", "table": [[n, _rand_wnd(rng, n, num)] for n in sorted({size, eff_hop, size + 1})],
                   "default": None}
        else:
            wnd = {"kind": "seq", "w": _rand_wnd(rng, size, num)}
        objs["@wa"] = {"type": "wnd", "wnd": wnd, "wkind": wa}
        items.append(["wnd", "@wa"])
        if rng.random() < 0.3:
            objs["@wa_old"] = {"type": "wnd", "wnd": {"kind": "seq", "w": _rand_wnd(rng, size, num)}, "wkind": "list"}
            overrides.append(["wnd", "@wa_old"])
    # processing steps
    for role, table in (("before", FN1), ("transform", FN2), ("inverse_transform", FN2), ("after", FN1)):
        r = rng.random()
        if identity or r < 0.45:
            items.append([role, None])
        elif r < 0.85 or kind != "plain_np":
            tag = "@" + role
            objs[tag] = {"type": "fn", "name": rng.choice(table), "arg": _rand_val(rng, "frac" if num == "float" else num)}
            items.append([role, tag])
            if rng.random() < 0.25:
                objs[tag + "_old"] = {"type": "fn", "name": rng.choice(table), "arg": 1}
                overrides.append([role, tag + "_old"])
        # else: left unspecified -> numpy default
    objs["@f"] = {"type": "fn", "name": "id" if identity else rng.choice(FN1),
                  "arg": _rand_val(rng, "frac" if num == "float" else num)}
    # overlap-add strategy and its options
    r = rng.random()
    ola = "@spy" if r < 0.45 else "@list" if r < 0.8 else None if r < 0.95 else "absent"
    if identity:
        ola = rng.choice(["@spy", "@list"])
    if kind == "ola_none":
        ola = None
    if ola != "absent":
        items.append(["ola", ola])
    objs["@spy"] = {"type": "ola", "name": "spy"}
    objs["@list"] = {"type": "ola", "name": "list"}
    normalize = None
    if ola in ("@spy", "@list") or kind == "bad":
        if identity:
            mode = rng.choice(["rect_norm", "cola_nonorm", "ones_nonorm"]) if wa in ("absent", "none", "ones") else "ones_nonorm"
            if mode == "rect_norm":
                if rng.random() < 0.5:
                    items.append(["ola_normalize", True])
                if rng.random() < 0.5:
                    items.append(["ola_wnd", None])
                normalize = True
            else:
                w = _cola_wnd(rng, size, eff_hop) if mode == "cola_nonorm" else [1] * size
                if mode == "ones_nonorm" and wa != "cola" and eff_hop != size:
                    w = _cola_wnd(rng, size, eff_hop)
                objs["@ws"] = {"type": "wnd", "wnd": {"kind": "seq", "w": w}, "wkind": "list"}
                items.append(["ola_wnd", "@ws"])
                items.append(["ola_normalize", False])
                normalize = False
        else:
            if rng.random() < 0.6:
                normalize = rng.random() < 0.5
                items.append(["ola_normalize", normalize])
            wk = rng.choice(["absent", "none", "list", "list", "callable", "gen"])
            if wk == "none":
                items.append(["ola_wnd", None])
            elif wk != "absent":
                if wk == "callable":
                    wnd = {"kind": "callable", "table": [[n, _rand_wnd(rng, n, num)] for n in sorted({size, eff_hop})], "default": None}
                else:
                    wnd = {"kind": "seq", "w": _rand_wnd(rng, size if rng.random() < 0.93 else size + 1, num)}
                objs["@ws"] = {"type": "wnd", "wnd": wnd, "wkind": wk}
                items.append(["ola_wnd", "@ws"])
                if rng.random() < 0.2:
                    objs["@ws_old"] = {"type": "wnd", "wnd": {"kind": "seq", "w": [1] * size}, "wkind": "list"}
                    overrides.append(["ola_wnd", "@ws_old"])
            r = rng.random()
            if r < 0.08:
                items.append(["ola_hop", rng.randint(1, size)])
            elif r < 0.12:
                items.append(["ola_size", rng.choice([size, size + 1])])
            elif r < 0.16:
                items.append(["ola_" + rng.choice(["foo", "ola_wnd", "siz", ""]), rng.randint(0, 3)])
    if kind == "bad":
        b = rng.choice(["unknown", "unknown2", "no_size", "hop_gt", "hop_none", "ola_none_opt", "wa_size", "wa_scalar", "wa_empty"])
        if b == "unknown":
            items.append([rng.choice(["foo", "olawnd", "window", "Size", "ol_a_x", "_ola_wnd", "ola_", "OLA_wnd"]), rng.randint(0, 3)])
        elif b == "unknown2":
            items.append(["zzz", 1])
            items.append(["ola_zzz", 2])
        elif b == "no_size":
            items = [it for it in items if it[0] != "size"]
        elif b == "hop_gt":
            items = [it for it in items if it[0] != "hop"] + [["hop", size + rng.randint(1, 3)]]
        elif b == "hop_none":
            items = [it for it in items if it[0] != "hop"] + [["hop", None]]
        elif b == "ola_none_opt":
            items = [it for it in items if it[0] != "ola"] + [["ola", None], ["ola_" + rng.choice(["wnd", "normalize", "x"]), None]]
        else:
            wnd = {"wa_size": {"kind": "seq", "w": _rand_wnd(rng, size + rng.choice([-1, 1, 2]), num)},
                   "wa_scalar": {"kind": "scalar"}, "wa_empty": {"kind": "seq", "w": []}}[b]
            objs["@wa"] = {"type": "wnd", "wnd": wnd, "wkind": "list"}
            items = [it for it in items if it[0] != "wnd"] + [["wnd", "@wa"]]
    chain, call = _split_kwargs(rng, items, style, overrides)
    n = rng.choice([0, 1, size - 1, size, size + 1, rng.randint(0, 14), size + 2 * eff_hop, size + 3 * eff_hop - 1])
    sig = [_rand_val(rng, num) for _ in range(max(0, n))]
    used = {v for d in chain + [call] for _, v in d if isinstance(v, str)} | {"@f"}
    c = {"entry": "stft", "style": style, "chain": chain, "call": call, "func": "@f", "sig": sig,
         "objs": {k: v for k, v in objs.items() if k in used}, "num": num, "kind": kind}
    c["regime"] = _regime_stft(c)
    return c


def _regime_stft(c):
    """exact iff no normalisation is requested anywhere and every number involved is a small dyadic rational"""
    try:
        nums = list(c["sig"])
        for o in c["objs"].values():
            if o["type"] == "wnd":
                w = o["wnd"]
                if w.get("kind") == "seq":
                    nums += w["w"]
                elif w.get("kind") == "callable":
                    for _, l in w["table"]:
                        nums += l
            elif o["type"] == "fn":
                nums.append(o.get("arg", 0))
        if not all(_is_dyadic(dec(x), 12) for x in nums):
            return "float"
        merged = {}
        for d in c["chain"] + [c["call"]]:
            for k, v in d:
                merged[k] = v
        if merged.get("ola_normalize", True) not in (False, 0, None):
            return "float"
        return "exact"
    except Exception:
        return "float"


# ----------------------------------------------------------------------------------------------
# impl
# ----------------------------------------------------------------------------------------------
def _err_obs(e):
    msg = str(e)
    kind = err_kind(e)
    if "Window should be" in msg:
        tag = "window-type"
    elif "Incompatible window size" in msg:
        tag = "window-size"
    elif "Wrong block size" in msg:
        tag = "block-size"
    elif kind == "ZeroDivisionError":
        tag = "zero-division"
    elif "max()" in msg:
        tag = "max-empty"
    elif "generator raised StopIteration" in msg:
        tag = "generator-raised-StopIteration"
    else:
        tag = "other:" + msg[:60]
    return {"kind": kind, "tag": tag}


def _py_wnd(c):
    from audiolazy import Stream
    w, wkind, num = c["wnd"], c["wkind"], c["num"]
    if w is None:
        return None
    if w["kind"] == "scalar":
        return 5
    if w["kind"] == "callable":
        tab = dict((n, [_py(x, num) for x in l]) for n, l in w["table"])
        dflt = None if w.get("default") is None else [_py(x, num) for x in w["default"]]
        if wkind == "callable_gen":
            return lambda n: (x for x in tab[n]) if n in tab else (None if dflt is None else iter(dflt))
        return lambda n: list(tab[n]) if n in tab else (3 if dflt is None else list(dflt))
    l = [_py(x, num) for x in w["w"]]
    if wkind == "gen":
        return (x for x in l)
    if wkind == "tuple":
        return tuple(l)
    if wkind == "stream":
        return Stream(l)
    return l


def _py_blks(c):
    from audiolazy import Stream
    from collections import deque
    num, route = c["num"], c.get("route", "list")
    blks = [[_py(x, num) for x in b] for b in c["blks"]]
    if route == "iter":
        return (b for b in blks)
    if route == "stream":
        return Stream(blks)
    if route == "tuples":
        return [tuple(b) for b in blks]
    if route == "deques":
        return iter([deque(b) for b in blks])
    return blks


# --- stft -----------------------------------------------------------------------------------------
def _fn_table(num):
    def rot(b):
        b = list(b)
        return b[1:] + b[:1]

    def cumsum(b):
        out, acc = [], 0
        for x in b:
            acc = acc + x
            out.append(acc)
        return out
    f1 = {
        "id": lambda b, a: b,
        "rev": lambda b, a: list(reversed(list(b))),
        "neg": lambda b, a: [-x for x in b],
        "scale": lambda b, a: [x * a for x in b],
        "shift": lambda b, a: [x + a for x in b],
        "rot": lambda b, a: rot(b),
        "cumsum": lambda b, a: cumsum(b),
    }
    f2 = {
        "addsize": lambda b, a, n: [x + n for x in b],
        "scalesize": lambda b, a, n: [x * n for x in b],
    }
    return f1, f2


def _stft_plan_err(e):
    msg, kind = str(e), err_kind(e)
    import re
    if "Missing 'size'" in msg:
        return "plan", {"kind": kind, "tag": "missing-size"}
    if "Hop value" in msg:
        return "plan", {"kind": kind, "tag": "hop-gt-size"}
    if "not supported between" in msg:
        return "plan", {"kind": kind, "tag": "hop-not-comparable"}
    m = re.match(r"Extra '(.*)' argument with no overlap-add", msg)
    if m:
        return "plan", {"kind": kind, "tag": "ola-option-without-ola:" + m.group(1)}
    m = re.match(r"Unknown '(.*)' extra argument", msg)
    if m:
        return "plan", {"kind": kind, "tag": "unknown-key:" + m.group(1)}
    if "unexpected keyword argument" in msg:
        return "run", {"kind": kind, "tag": "ola-kwarg"}
    if "numpy" in msg:
        return "run", {"kind": "ImportError", "tag": "numpy-default"}
    return "other", _err_obs(e)


def _impl_stft(c):
    from audiolazy import stft, overlap_add, Stream
    num = c["num"]
    rec = {"trace": [], "ola_kwargs": None}
    f1, f2 = _fn_table(num)
    pyobj, tag_of = {}, {}

    def mk_fn(tag, o):
        name, a = o["name"], _py(o.get("arg", 0), num)

        def spy(blk, *extra):
            rec["trace"].append([tag, [enc(x) for x in blk], list(extra)])
            if name in f2:
                return f2[name](blk, a, *extra)
            return f1[name](blk, a)
        spy.__name__ = "spy_" + tag[1:]
        return spy

    def canon(v):
        if v is None or isinstance(v, (bool, int)):
            return v if not isinstance(v, bool) else int(v)
        return tag_of.get(id(v), "<object>")

    def spy_ola(blks, **kw):
        rec["ola_kwargs"] = [[k, canon(v)] for k, v in kw.items()]
        return overlap_add.list(blks, **kw)

    for tag, o in c["objs"].items():
        if o["type"] == "fn":
            pyobj[tag] = mk_fn(tag, o)
        elif o["type"] == "wnd":
            pyobj[tag] = _py_wnd({"wnd": o["wnd"], "wkind": o.get("wkind", "list"), "num": num})
        elif o["type"] == "ola":
            pyobj[tag] = spy_ola if o["name"] == "spy" else overlap_add.list
    for tag, v in pyobj.items():
        tag_of[id(v)] = tag

    def kw(d):
        return dict((k, pyobj[v] if isinstance(v, str) else v) for k, v in d)

    sig = [_py(x, num) for x in c["sig"]]
    obs = {"phase": None, "err": None, "out": None, "blocks": None}
    try:
        chain = c["chain"]
        func = pyobj[c["func"]]
        if c["style"] == "direct":
            proc = stft(func, **kw(chain[0]))
        elif c["style"] == "decorator":
            proc = stft(**kw(chain[0]))(func)            # what `@stft(**kw)` does
        else:
            p = stft(**kw(chain[0]))
            for d in chain[1:-1]:
                p = p(**kw(d))
            proc = p(func, **kw(chain[-1]))
        obs["phase"] = "call"
        res = proc(sig, **kw(c["call"]))
        obs["phase"] = "iter"
        merged = {}
        for d in chain + [c["call"]]:
            merged.update(dict((k, v) for k, v in d))
        items = []
        if merged.get("ola", "x") is None:
            obs["blocks"] = items
            for b in res:
                items.append([enc(x) for x in b])       # snapshot at yield time
        else:
            obs["out"] = items
            for x in res:
                items.append(enc(x))
    except Exception as e:
        where, eo = _stft_plan_err(e)
        obs["err"] = dict(eo, where=where)
    obs["trace"] = rec["trace"]
    obs["ola_kwargs"] = rec["ola_kwargs"]
    return obs


def impl(c):
    from audiolazy import overlap_add
    if c["entry"] == "ola":
        out, err = [], None
        try:
            kw = {"normalize": c["normalize"]} if c.get("normalize_given", True) else {}
            if c["size"] is not None:
                kw["size"] = c["size"]
            if c["hop"] is not None:
                kw["hop"] = c["hop"]
            w = _py_wnd(c)
            if w is not None or c.get("wkind") == "none_explicit":
                kw["wnd"] = w
            for x in overlap_add.list(_py_blks(c), **kw):
                out.append(x)
        except Exception as e:
            err = _err_obs(e)
        return {"out": [enc(x) for x in out], "err": err,
                "floats": sum(1 for x in out if isinstance(x, float))}
    if c["entry"] == "stft":
        return _impl_stft(c)
    if c["entry"] == "ola_sig":
        from audiolazy import Stream, blocks
        out, err = [], None
        try:
            sig = [_py(x, c["num"]) for x in c["sig"]]
            if c.get("route") == "stream":
                blk_sig = Stream(sig).blocks(size=c["bsize"], hop=c["bhop"])
            else:
                blk_sig = blocks(iter(sig), c["bsize"], c["bhop"])
            kw = {"normalize": c["normalize"]}
            if c["size"] is not None:
                kw["size"] = c["size"]
            if c["hop"] is not None:
                kw["hop"] = c["hop"]
            w = _py_wnd(c)
            if w is not None:
                kw["wnd"] = w
            for x in overlap_add.list(blk_sig, **kw):
                out.append(x)
        except Exception as e:
            err = _err_obs(e)
        return {"out": [enc(x) for x in out], "err": err, "floats": sum(1 for x in out if isinstance(x, float))}
    raise ValueError("unknown entry " + c["entry"])


def request(c):
    r = dict(c)
    for k in ("wkind", "num", "route", "regime", "kind", "normalize_given"):
        r.pop(k, None)
    if c["entry"] == "stft":
        r.pop("style", None)
        r["chain"] = c["chain"] + ([[]] if c["style"] == "decorator" else [])
        r["objs"] = dict((t, dict((k, v) for k, v in o.items() if k != "wkind")) for t, o in c["objs"].items())
    return r


# ----------------------------------------------------------------------------------------------
# comparison
# ----------------------------------------------------------------------------------------------
def _same_list(a, b, regime):
    if len(a) != len(b):
        return False
    tol = 0 if regime == "exact" else TOL
    return all(close(dec(x), dec(y), tol) for x, y in zip(a, b))


def _same_blocks(a, b, regime):
    return a is not None and b is not None and len(a) == len(b) and all(_same_list(x, y, regime) for x, y in zip(a, b))


def _has_numpy():
    import importlib.util
    return importlib.util.find_spec("numpy") is not None


def _compare_stft(c, io, drv):
    out = []
    regime = c.get("regime", "float")
    m, sp = drv["model"], drv["spec"]
    e = io.get("err")
    needs_numpy = m.get("run_err") == "numpy-default" or ((m.get("run") or {}).get("err") or {}).get("tag") == "numpy-default"
    if needs_numpy and _has_numpy():
        return []       # the numpy defaults (rfft, fftshift, overlap_add.numpy) are not modelled
    if "phase" not in io:
        return [("model", "impl observation failed: %r" % (io,)), ("spec", "impl observation failed")]
    # ---- model -----------------------------------------------------------------------------------
    if "plan_err" in m:
        want = m["plan_err"]
        if e is None or e["where"] != "plan" or io["phase"] != "call" or (e["kind"], e["tag"]) != (want["kind"], want["tag"]):
            out.append(("model", "wrapper decision differs: impl=%r model=%r" % (e, want)))
            out.append(("spec", "wrapper accepts / rejects other keywords than the property says: impl=%r expected=%r" % (e, want)))
        return out
    plan = m["plan"]
    if e is not None and e["where"] == "plan":
        out.append(("model", "wrapper raised %r, model plans %r" % (e, plan)))
        out.append(("spec", "wrapper rejects keywords the property accepts: %r" % (e,)))
        return out
    spy_used = plan["ola"] == "@spy"
    if spy_used and io["ola_kwargs"] != plan["ola_params"]:
        out.append(("model", "overlap-add keywords differ: impl=%r model=%r" % (io["ola_kwargs"], plan["ola_params"])))
    if "run_err" in m:
        if e is None or e["tag"] != m["run_err"]:
            out.append(("model", "impl=%r where the model stops with %r" % (e, m["run_err"])))
    else:
        run = m["run"]
        ie = None if e is None else {"kind": e["kind"], "tag": e["tag"]}
        if ie != run["err"]:
            out.append(("model", "error differs: impl=%r model=%r" % (e, run["err"])))
        else:
            if run["blocks"] is not None or io["blocks"]:
                if not _same_blocks(io["blocks"] or [], run["blocks"] or [], regime):
                    out.append(("model", "blocks differ: impl=%r model=%r" % (io["blocks"], run["blocks"])))
            elif not _same_list(io["out"] or [], run["out"], regime):
                out.append(("model", "output differs (%s): impl=%r model=%r" % (regime, io["out"], run["out"])))
            if ie is None:
                role_tag = dict((k, v) for k, v in plan["blk"])
                role_tag["func"] = c["func"]
                want = [[role_tag[r], inp] for blk in run["trace"] for r, inp in blk]
                got = [[t, inp] for t, inp, _ in io["trace"]]
                if len(want) != len(got) or any(a[0] != b[0] or not _same_list(a[1], b[1], regime) for a, b in zip(got, want)):
                    out.append(("model", "processing steps called differently: impl=%r model=%r" % (got[:6], want[:6])))
                size = role_tag["size"]
                for t, _, extra in io["trace"]:
                    if t in (role_tag.get("transform"), role_tag.get("inverse_transform")) and extra != [size]:
                        out.append(("model", "transform step not called with (blk, size): extra args %r" % (extra,)))
                        break
    # ---- spec --------------------------------------------------------------------------------------
    if sp is None:
        return out
    if spy_used and io["ola_kwargs"] is not None:
        got = dict((k, v) for k, v in io["ola_kwargs"])
        probe = dict((k, v) for k, v in sp["ola_kwargs"])
        bad = [k for k in set(got) | set(probe) if got.get(k, "<absent>") != probe.get(k, "<absent>")]
        if bad:
            out.append(("spec", "overlap-add is not called with {size, hop} + stripped ola_ options: keys %r impl=%r expected=%r"
                        % (sorted(bad), io["ola_kwargs"], [kv for kv in sp["ola_kwargs"] if kv[1] != "<absent>"])))
    if e is None and sp.get("func_inputs") is not None:
        got = [inp for t, inp, _ in io["trace"] if t == c["func"]]
        if not _same_blocks(got, sp["func_inputs"], regime):
            out.append(("spec", "func does not receive transform(before(window * block)): impl=%r expected=%r"
                        % (got[:4], sp["func_inputs"][:4])))
    if sp.get("covered") is not None:
        if e is not None or io["out"] is None:
            out.append(("spec", "identity stft raised %r" % (e,)))
        else:
            bad = [(n, io["out"][n] if n < len(io["out"]) else None, x) for n, x in sp["covered"]
                   if n >= len(io["out"]) or not close(dec(io["out"][n]), dec(x), 0 if regime == "exact" else TOL)]
            if bad:
                out.append(("spec", "identity stft does not reconstruct covered samples (n, got, input): %r" % (bad[:5],)))
    return out


def compare(c, io, drv):
    _LAST[id(c)] = drv
    if c["entry"] == "stft":
        return _compare_stft(c, io, drv)
    out = []
    regime = c.get("regime", "float")
    if c["entry"] in ("ola", "ola_sig"):
        if "out" not in io:
            return [("model", "impl observation failed: %r" % (io,)), ("spec", "impl observation failed")]
        m = drv["model"]
        if io["err"] != m["err"]:
            out.append(("model", "error differs: impl=%r model=%r" % (io["err"], m["err"])))
        elif not _same_list(io["out"], m["out"], regime):
            out.append(("model", "output differs from model (%s): impl=%r model=%r" % (regime, io["out"], m["out"])))
        s = drv["spec"]
        if s is not None:
            if io["err"] is not None:
                out.append(("spec", "impl raised %r where the property gives %d samples" % (io["err"], len(s["out"]))))
            elif not _same_list(io["out"], s["out"], regime):
                out.append(("spec", "output differs from the windowed hop-shifted sum (%s): impl=%r spec=%r gain=%r"
                            % (regime, io["out"], s["out"], s.get("gain"))))
        cov = drv.get("covered")
        if cov is not None:
            if io["err"] is not None:
                out.append(("spec", "blocks -> overlap-add raised %r" % (io["err"],)))
            else:
                bad = [(n, io["out"][n] if n < len(io["out"]) else None, x) for n, x in cov
                       if n >= len(io["out"]) or not close(dec(io["out"][n]), dec(x), 0 if regime == "exact" else TOL)]
                if bad:
                    out.append(("spec", "overlap-add of the blocks does not give back the covered samples (n, got, input): %r"
                                % (bad[:5],)))
    return out


def nontrivial(c, io):
    if c["entry"] == "stft":
        return io.get("err") is None and len(io.get("trace") or []) >= 1
    if c["entry"] == "ola_sig":
        return io.get("err") is None and len(io.get("out", [])) >= 1
    return io.get("err") is None and len(c.get("blks", [])) >= 1 and len(io.get("out", [])) >= 1


def _tally_stft(eng, c, io):
    eng.count("stft_style", c["style"])
    eng.count("stft_kind", c.get("kind"))
    eng.count("stft_regime", c.get("regime"))
    merged = {}
    for d in c["chain"] + [c["call"]]:
        merged.update(dict((k, v) for k, v in d))
    eng.count("stft_ola", {None: "None", "@spy": "spy(list)", "@list": "list"}.get(merged.get("ola", "absent"), "default(numpy)"))
    eng.count("stft_wnd", "none" if merged.get("wnd") is None else c["objs"].get(merged["wnd"], {}).get("wkind", "?"))
    eng.count("stft_steps_used", sum(1 for r in ("before", "transform", "inverse_transform", "after") if isinstance(merged.get(r), str)))
    eng.count("stft_ola_options", sum(1 for k in merged if k.startswith("ola_")))
    eng.count("stft_n_blocks", min(8, sum(1 for t, _, _ in (io.get("trace") or []) if t == c["func"])))
    e = io.get("err")
    eng.count("stft_impl_error", "none" if e is None else e["tag"].split(":")[0])
    eng.count("stft_kw_levels", len(c["chain"]))


def tally(eng, c, io):
    drv = _LAST.pop(id(c), None) or {}
    if c["entry"] == "stft":
        sp = drv.get("spec") or {}
        eng.count("stft_spec_identity_reconstruction", "checked on %s samples" % ("0" if not sp.get("covered") else "1+")
                  if sp.get("covered") is not None else "hypotheses not met")
        eng.count("stft_spec_window_first", "checked" if sp.get("func_inputs") else "no block / error")
        return _tally_stft(eng, c, io)
    if c["entry"] == "ola_sig":
        eng.count("roundtrip", "COLA: covered samples checked" if drv.get("covered") else
                  ("COLA but no covered sample" if drv.get("covered") is not None else "not COLA: sum formula only"))
        eng.count("roundtrip_regime", c.get("regime"))
        eng.count("roundtrip_blocks", min(8, drv.get("n_blocks", 0)))
        eng.count("roundtrip_impl_error", (io.get("err") or {}).get("tag", "none"))
        return
    if c["entry"] != "ola":
        return
    eng.count("ola_spec", "property speaks" if drv.get("spec") is not None else "outside the quantifier (model only)")
    m = len(c["blks"])
    size = c["size"] if c["size"] is not None else (len(c["blks"][0]) if c["blks"] else None)
    hop = c["hop"] if c["hop"] is not None else size
    eng.count("n_blocks", min(m, 8))
    eng.count("size", size)
    if size is not None:
        rel = ("hop=0" if hop == 0 else "hop>size" if hop > size else "hop=size" if hop == size else
               "hop|size" if size % hop == 0 else "hop<size")
        eng.count("hop_vs_size", rel)
    eng.count("window_kind", c["wkind"])
    eng.count("normalize", str(c["normalize"]) + ("" if c.get("normalize_given", True) else " (default)"))
    eng.count("size_detected", c["size"] is None)
    eng.count("hop_defaulted", c["hop"] is None)
    eng.count("regime", c.get("regime"))
    eng.count("num", c["num"])
    eng.count("route", c.get("route"))
    eng.count("impl_error", (io.get("err") or {}).get("tag", "none"))
    if io.get("err") is None:
        eng.count("float_outputs", "some" if io.get("floats") else "none")
    w = c.get("wnd")
    if w and w.get("kind") == "seq" and w["w"] and all(dec(x) == 0 for x in w["w"]) and c["normalize"]:
        eng.count("gain_zero_branch", "hit")


# ----------------------------------------------------------------------------------------------
# shrinking, neighbours, classification
# ----------------------------------------------------------------------------------------------
def _relabel(c):
    c = dict(c)
    c["regime"] = _regime(c)
    return c


def _relabel_sig(c):
    c = dict(c)
    c["regime"] = _regime(dict(c, blks=[c["sig"]], size=c["bsize"]))
    return c


def _resize(c, size):
    """same case with another block size (blocks and list window cut / padded with 1)"""
    old = c["size"] if c["size"] is not None else (len(c["blks"][0]) if c["blks"] else size)
    blks = [(b + [1] * size)[:size] if len(b) == old else b for b in c["blks"]]
    d = dict(c, blks=blks)
    if c["size"] is not None:
        d["size"] = size
    w = c.get("wnd")
    if w and w.get("kind") == "seq" and len(w["w"]) == old:
        d["wnd"] = {"kind": "seq", "w": (w["w"] + [1] * size)[:size]}
    if c["hop"] is not None and c["hop"] > size >= 1 and c["hop"] <= old:
        d["hop"] = size
    return d


def shrink(c):
    """smaller cases; never wanders into the configuration of the known defect D7 (size detection on no block),
    so that a different failure is not minimised into the known one"""
    if c["entry"] == "stft":
        for d in _shrink_stft(c):
            yield d
        return
    if c["entry"] == "ola_sig":
        sig = c["sig"]
        min_len = 0 if c["size"] is not None else 1    # keep away from D7 (no block + size detection)
        if len(sig) > min_len:
            yield dict(c, sig=sig[:-1])
            yield dict(c, sig=sig[1:])
        if any(x not in (0, 1) for x in sig):
            yield _relabel_sig(dict(c, sig=[1] * len(sig)))
        if c["wnd"] is not None:
            yield _relabel_sig(dict(c, wnd=None, wkind="none"))
        if c["normalize"]:
            yield _relabel_sig(dict(c, normalize=False))
        if c["size"] is None:
            yield dict(c, size=c["bsize"])
        return
    if c["entry"] != "ola":
        return
    d7 = c["size"] is None and not c["blks"]
    for d in _shrink_ola(c):
        if d7 or not (d["size"] is None and not d["blks"]):
            yield d


def _shrink_stft(c):
    sig = c["sig"]
    if sig:
        yield dict(c, sig=sig[:-1])
        yield dict(c, sig=sig[1:])
    if any(x not in (0, 1) for x in sig):
        yield dict(c, sig=[1] * len(sig))
    # drop one keyword anywhere
    levels = c["chain"] + [c["call"]]
    for li, lv in enumerate(levels):
        for ki in range(len(lv)):
            nl = [list(x) for x in levels]
            nl[li] = lv[:ki] + lv[ki + 1:]
            yield dict(c, chain=nl[:-1], call=nl[-1])
    # merge the levels of a partial chain
    if len(c["chain"]) > 1:
        merged = {}
        for lv in c["chain"]:
            for k, v in lv:
                merged[k] = v
        yield dict(c, chain=[[[k, v] for k, v in merged.items()]], style="direct")
    if c["style"] != "direct" and len(c["chain"]) == 1:
        yield dict(c, style="direct")
    # simpler processing functions / windows
    for tag, o in c["objs"].items():
        if o["type"] == "fn" and o["name"] != "id":
            yield dict(c, objs=dict(c["objs"], **{tag: dict(o, name="id")}))
        if o["type"] == "wnd" and o["wnd"].get("kind") == "seq" and any(x != 1 for x in o["wnd"]["w"]):
            yield dict(c, objs=dict(c["objs"], **{tag: dict(o, wnd={"kind": "seq", "w": [1] * len(o["wnd"]["w"])}, wkind="list")}))


def _shrink_ola(c):
    blks = c["blks"]
    for i in range(len(blks)):
        yield _relabel(dict(c, blks=blks[:i] + blks[i + 1:]))
    size = c["size"] if c["size"] is not None else (len(blks[0]) if blks else None)
    if size and size > 1:
        yield _relabel(_resize(c, size - 1))
    if c["hop"] is not None and c["hop"] > 1:
        yield _relabel(dict(c, hop=c["hop"] - 1))
    if c["wnd"] is not None and c["wnd"].get("kind") == "callable" and size is not None:
        tab = dict((n, l) for n, l in c["wnd"]["table"])
        if size in tab:
            yield _relabel(dict(c, wnd={"kind": "seq", "w": tab[size]}, wkind="list"))
    if c["wnd"] is not None:
        yield _relabel(dict(c, wnd=None, wkind="none"))
    if c["wnd"] is not None and c["wnd"].get("kind") == "seq":
        w = c["wnd"]["w"]
        if any(x != 1 for x in w):
            yield _relabel(dict(c, wnd={"kind": "seq", "w": [1] * len(w)}))
        for i, x in enumerate(w):
            if x != 1:
                yield _relabel(dict(c, wnd={"kind": "seq", "w": w[:i] + [1] + w[i + 1:]}))
        if c["wkind"] != "list":
            yield _relabel(dict(c, wkind="list"))
    if c["normalize"]:
        yield _relabel(dict(c, normalize=False))
    if c.get("route") != "list":
        yield _relabel(dict(c, route="list"))
    if c["num"] != "int":
        yield _relabel(dict(c, num="int", blks=[[int(dec(x)) for x in b] for b in blks]))
    flat = [(i, j) for i, b in enumerate(blks) for j, x in enumerate(b) if x not in (0, 1)]
    for i, j in flat[:12]:
        nb = [list(b) for b in blks]
        nb[i][j] = 1
        yield _relabel(dict(c, blks=nb))
    if c["size"] is None and blks:
        yield _relabel(dict(c, size=len(blks[0])))
    if c["hop"] is None and size is not None:
        yield _relabel(dict(c, hop=size))


def neighbours(c):
    if c["entry"] != "ola":
        return
    size = c["size"] if c["size"] is not None else (len(c["blks"][0]) if c["blks"] else 1)
    hop = c["hop"] if c["hop"] is not None else size
    for dh in (-1, 1):
        if 1 <= hop + dh <= size:
            yield _relabel(dict(c, hop=hop + dh))
    for ds in (-1, 1):
        if size + ds >= max(1, hop if ds < 0 else 1):
            yield _relabel(_resize(c, size + ds))
    yield _relabel(dict(c, normalize=not c["normalize"]))
    if c["blks"]:
        yield _relabel(dict(c, blks=c["blks"][:-1]))
        yield _relabel(dict(c, blks=c["blks"] + [c["blks"][-1]]))
    yield _relabel(dict(c, wnd=None, wkind="none"))
    for i, b in enumerate(c["blks"]):
        for j in range(len(b)):
            nb = [list(x) for x in c["blks"]]
            nb[i][j] = 0
            yield _relabel(dict(c, blks=nb))


def classify(c, io, drv):
    if c["entry"] == "ola":
        e = io.get("err")
        if e is not None and c["size"] is None and not c["blks"] and e["tag"] == "generator-raised-StopIteration":
            return "ola:size-detection-on-empty-block-stream:RuntimeError"
        if e is not None:
            return "ola:error:%s:%s" % (e["kind"], e["tag"])
        m = drv.get("model", {})
        if len(io.get("out", [])) != len(m.get("out", [])):
            return "ola:length"
        return "ola:content"
    if c["entry"] == "ola_sig":
        e = io.get("err")
        if e is not None and c["size"] is None and drv.get("n_blocks") == 0 and e["tag"] == "generator-raised-StopIteration":
            return "ola:size-detection-on-empty-block-stream:RuntimeError"
        if e is not None:
            return "roundtrip:error:%s:%s" % (e["kind"], e["tag"])
        return "roundtrip:content"
    if c["entry"] == "stft":
        e = io.get("err")
        m = drv.get("model", {})
        if "plan_err" in m or (e is not None and e.get("where") == "plan"):
            return "stft:keywords:%s" % ((e or {}).get("tag", "accepted").split(":")[0],)
        if e is not None:
            return "stft:error:%s:%s" % (e["kind"], e["tag"])
        plan = m.get("plan", {})
        if plan.get("ola") == "@spy" and io.get("ola_kwargs") != plan.get("ola_params"):
            return "stft:ola-keywords"
        return "stft:content"
    return "unclassified"
