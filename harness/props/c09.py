"""C09 — overlap_add.list and the stft wrapper.  Tie: small exhaustive grid + random + malformed stream.

Only `overlap_add.list` can be tied: `overlap_add.numpy` (the default strategy) needs numpy, which the
sandbox interpreter does not have; its loop (`blk[:-hop] += old[hop:]`) is the same recurrence.
"""
import common
from common import enc, dec, err_kind, close
from fractions import Fraction as F

ID = "C09"
RULE = ("grid (size<=6 x hop<=size x m<=4 x normalise x window kind) + random (size<=8, m<=5, four window "
        "kinds + tuple/Stream/empty, int/Fraction/float samples) + malformed stream (wrong block or window "
        "length, non-iterable window, hop>size, hop=0, size detection on no block); non-trivial = no error, "
        "at least one block and one output sample; distinct = distinct JSON case")
TRUSTED = [
    "hand-written Lean model ALV/Model/C09.lean of overlap_add.list and of the stft wrapper (modelled, not "
    "verified: Python slice assignment, iterator consumption by map(), generator protocol, Stream.blocks = C08 model)",
    "overlap_add.numpy is NOT tied (numpy unavailable in the sandbox); only overlap_add.list is run",
    "regime labelling (harness/props/c09.py:_regime): exact comparison when every intermediate value is a small dyadic "
    "rational (binary floats exact), else relative tolerance 1e-9",
]
ASSUMPTIONS = [
    "size >= 1; the property quantifies over 1 <= hop <= size (hop > size and hop = 0 are modelled and tied, "
    "but the spec is silent there)",
    "normalisation is modelled over an ordered field (int / Fraction / float windows); complex windows are outside",
    "ceil(size / hop) is computed by the code in floating point; modelled as exact integer ceiling",
]

TOL = F(1, 10 ** 9)


# ----------------------------------------------------------------------------------------------
# numbers
# ----------------------------------------------------------------------------------------------
def _is_dyadic(x, maxbits=24):
    x = F(x)
    d = x.denominator
    return d & (d - 1) == 0 and d <= 2 ** maxbits and abs(x.numerator) <= 2 ** maxbits


def _py(j, num):
    """JSON number -> the Python value handed to the impl"""
    v = dec(j)
    if num == "float":
        return float(v)
    if num == "frac":
        return v
    return int(v) if v.denominator == 1 else v


def _rand_val(rng, num):
    if num == "int":
        return rng.randint(-9, 9)
    if num == "float":      # dyadic, so that the float is exactly the rational sent to Lean
        return enc(F(rng.randint(-64, 64), rng.choice([1, 2, 4, 8])))
    r = rng.random()
    if r < 0.5:
        return enc(F(rng.randint(-12, 12), rng.choice([1, 2, 4, 8])))
    return enc(F(rng.randint(-12, 12), rng.choice([1, 2, 3, 5, 6, 7])))


def _rand_wnd(rng, size, num):
    r = rng.random()
    if r < 0.12:
        return [1] * size
    if r < 0.2:
        return [0] * size                      # gain 0 branch
    if r < 0.35:                               # triangular-like (COLA for hop = size/2)
        half = (size + 1) // 2
        return [enc(F(min(i + 1, size - i), half)) for i in range(size)]
    if r < 0.5:
        return [rng.choice([1, 2, 4, enc(F(1, 2)), enc(F(1, 4)), -1, -2, 0]) for _ in range(size)]
    return [_rand_val(rng, "frac" if num == "int" and rng.random() < .3 else num) for _ in range(size)]


def _strided_gain(w, hop):
    return max(sum(abs(x) for x in w[j::hop]) for j in range(hop))


def _regime(c):
    """'exact' iff every true intermediate value is a small dyadic rational (then binary floating point
    computes it exactly); otherwise 'float' (the impl injects floats: mem=[0.]*size, 1/ceil(), pad 0.)."""
    try:
        vals = [dec(x) for b in c["blks"] for x in b]
        if not all(_is_dyadic(v) for v in vals):
            return "float"
        size = c["size"] if c["size"] is not None else (len(c["blks"][0]) if c["blks"] else 0)
        hop = c["hop"] if c["hop"] is not None else size
        w = c.get("wnd")
        wl = None
        if w is not None and w.get("kind") == "seq":
            wl = [dec(x) for x in w["w"]]
        elif w is not None and w.get("kind") == "callable":
            tab = dict((n, l) for n, l in w["table"])
            l = tab.get(size, w.get("default"))
            wl = [dec(x) for x in l] if l is not None else None
        if wl is not None and not all(_is_dyadic(v) for v in wl):
            return "float"
        if c["normalize"] and hop >= 1 and size >= 1:
            if wl:
                g = _strided_gain(wl, hop)
                if g != 0 and not all(_is_dyadic(v / g) for v in wl):
                    return "float"
            else:
                cdiv = -(-size // hop)
                if cdiv & (cdiv - 1):
                    return "float"
        return "exact"
    except Exception:
        return "float"


# ----------------------------------------------------------------------------------------------
# generation
# ----------------------------------------------------------------------------------------------
WKINDS = ["none", "list", "callable", "gen", "tuple", "stream", "callable_gen"]
ROUTES = ["list", "iter", "stream", "tuples", "deques"]


def _mk_ola(rng, size, hop, m, normalize, wkind, num, size_given=True, hop_given=True, route="list",
            wsize=None, blens=None):
    blens = blens if blens is not None else [size] * m
    blks = [[_rand_val(rng, num) for _ in range(n)] for n in blens]
    wsize = size if wsize is None else wsize
    if wkind == "none":
        wnd = None
    elif wkind in ("callable", "callable_gen"):
        # a table by size: the code must call wnd(size), not wnd(hop) or wnd(len(first block) + 1)
        table = [[n, _rand_wnd(rng, n + (wsize - size), num)] for n in sorted({size, hop, max(size - 1, 1), size + 1}) if n + (wsize - size) >= 0]
        wnd = {"kind": "callable", "table": table, "default": None}
    elif wkind == "scalar":
        wnd = {"kind": "scalar"}
    elif wkind == "callable_scalar":
        wnd = {"kind": "callable", "table": [], "default": None}
    elif wkind == "empty":
        wnd = {"kind": "seq", "w": []}
    else:
        wnd = {"kind": "seq", "w": _rand_wnd(rng, wsize, num)}
    c = {"entry": "ola", "blks": blks, "size": size if size_given else None,
         "hop": hop if hop_given else None, "wnd": wnd, "normalize": normalize,
         "wkind": wkind, "num": num, "route": route}
    c["regime"] = _regime(c)
    return c


def generate(rng, tier, scale=1):
    cases = []
    quick = tier == "quick"
    S = 6 if quick else 9
    M = 4 if quick else 6
    # --- grid over the property's quantifier ----------------------------------------------------
    if scale == 1:
        i = 0
        for size in range(1, S + 1):
            for hop in range(1, size + 1):
                for m in range(0, M + 1):
                    for normalize in (False, True):
                        i += 1
                        wkind = WKINDS[i % len(WKINDS)]
                        num = ("int", "frac", "float")[i % 3]
                        cases.append(_mk_ola(rng, size, hop, m, normalize, wkind, num,
                                             size_given=(i % 4 != 0) or m == 0,
                                             hop_given=(hop != size) or i % 2 == 0,
                                             route=ROUTES[i % len(ROUTES)]))
    # --- random -----------------------------------------------------------------------------------
    nrand = (500 if quick else 18000) * scale
    for _ in range(nrand):
        size = rng.randint(1, 8 if quick else 16)
        hop = rng.choice([1, size, max(1, size // 2), rng.randint(1, size), rng.randint(1, size)])
        m = rng.choice([0, 1, 2, 3, 4, 5] if quick else list(range(0, 13)))
        wkind = rng.choice(WKINDS + ["list", "none", "empty"])
        num = rng.choice(["int", "frac", "frac", "float"])
        size_given = rng.random() < 0.6 or m == 0
        cases.append(_mk_ola(rng, size, hop, m, rng.random() < 0.6, wkind, num, size_given=size_given,
                             hop_given=(hop != size) or rng.random() < 0.5, route=rng.choice(ROUTES)))
    # --- malformed / outside the quantifier -----------------------------------------------------
    nbad = (160 if quick else 3000) * scale
    for _ in range(nbad):
        size = rng.randint(1, 6)
        hop = rng.randint(1, size)
        m = rng.randint(1, 4)
        kind = rng.choice(["blk_short", "blk_long", "blk_long2", "wnd_size", "wnd_scalar", "wnd_callable_scalar",
                           "hop_gt", "hop_zero", "detect_empty", "declared_size", "first_blk"])
        normalize = rng.random() < 0.5
        wkind = rng.choice(["none", "list", "callable", "gen"])
        num = rng.choice(["int", "frac"])
        if kind in ("blk_short", "blk_long", "blk_long2"):
            blens = [size] * m
            d = {"blk_short": -rng.randint(1, size), "blk_long": 1, "blk_long2": rng.randint(2, 4)}[kind]
            blens[rng.randrange(m)] = max(0, size + d)
            cases.append(_mk_ola(rng, size, hop, m, normalize, wkind, num, blens=blens,
                                 size_given=rng.random() < 0.7))
        elif kind == "first_blk":
            blens = [size] * m
            blens[0] = max(1, size + rng.choice([-1, 1]))
            cases.append(_mk_ola(rng, size, hop, m, normalize, wkind, num, blens=blens, size_given=True))
        elif kind == "wnd_size":
            cases.append(_mk_ola(rng, size, hop, m, normalize, rng.choice(["list", "callable", "gen", "stream"]), num,
                                 wsize=max(1, size + rng.choice([-2, -1, 1, 2]))))
        elif kind == "wnd_scalar":
            cases.append(_mk_ola(rng, size, hop, m, normalize, "scalar", num))
        elif kind == "wnd_callable_scalar":
            cases.append(_mk_ola(rng, size, hop, m, normalize, "callable_scalar", num))
        elif kind == "hop_gt":
            cases.append(_mk_ola(rng, size, size + rng.randint(1, 4), m, normalize, wkind, num))
        elif kind == "hop_zero":
            cases.append(_mk_ola(rng, size, 0, m, normalize, wkind, num))
        elif kind == "detect_empty":
            cases.append(_mk_ola(rng, size, hop, 0, normalize, wkind, num, size_given=False,
                                 hop_given=rng.random() < 0.5, route=rng.choice(ROUTES)))
        else:  # declared size differs from the blocks
            blens = [max(1, size + rng.choice([-1, 1]))] * m
            cases.append(_mk_ola(rng, size, hop, m, normalize, wkind, num, blens=blens, size_given=True))
    return cases


# ----------------------------------------------------------------------------------------------
# impl
# ----------------------------------------------------------------------------------------------
def _err_obs(e):
    msg = str(e)
    kind = err_kind(e)
    if "Window should be" in msg:
        tag = "window-type"
    elif "Incompatible window size" in msg:
        tag = "window-size"
    elif "Wrong block size" in msg:
        tag = "block-size"
    elif kind == "ZeroDivisionError":
        tag = "zero-division"
    elif "max()" in msg:
        tag = "max-empty"
    elif "generator raised StopIteration" in msg:
        tag = "generator-raised-StopIteration"
    else:
        tag = "other:" + msg[:60]
    return {"kind": kind, "tag": tag}


def _py_wnd(c):
    from audiolazy import Stream
    w, wkind, num = c["wnd"], c["wkind"], c["num"]
    if w is None:
        return None
    if w["kind"] == "scalar":
        return 5
    if w["kind"] == "callable":
        tab = dict((n, [_py(x, num) for x in l]) for n, l in w["table"])
        dflt = None if w.get("default") is None else [_py(x, num) for x in w["default"]]
        if wkind == "callable_gen":
            return lambda n: (x for x in tab[n]) if n in tab else (None if dflt is None else iter(dflt))
        return lambda n: list(tab[n]) if n in tab else (3 if dflt is None else list(dflt))
    l = [_py(x, num) for x in w["w"]]
    if wkind == "gen":
        return (x for x in l)
    if wkind == "tuple":
        return tuple(l)
    if wkind == "stream":
        return Stream(l)
    return l


def _py_blks(c):
    from audiolazy import Stream
    from collections import deque
    num, route = c["num"], c.get("route", "list")
    blks = [[_py(x, num) for x in b] for b in c["blks"]]
    if route == "iter":
        return (b for b in blks)
    if route == "stream":
        return Stream(blks)
    if route == "tuples":
        return [tuple(b) for b in blks]
    if route == "deques":
        return iter([deque(b) for b in blks])
    return blks


def impl(c):
    from audiolazy import overlap_add
    if c["entry"] == "ola":
        out, err = [], None
        try:
            kw = {"normalize": c["normalize"]}
            if c["size"] is not None:
                kw["size"] = c["size"]
            if c["hop"] is not None:
                kw["hop"] = c["hop"]
            w = _py_wnd(c)
            if w is not None or c.get("wkind") == "none_explicit":
                kw["wnd"] = w
            for x in overlap_add.list(_py_blks(c), **kw):
                out.append(x)
        except Exception as e:
            err = _err_obs(e)
        return {"out": [enc(x) for x in out], "err": err,
                "floats": sum(1 for x in out if isinstance(x, float))}
    raise ValueError("unknown entry " + c["entry"])


def request(c):
    r = dict(c)
    for k in ("wkind", "num", "route", "regime"):
        r.pop(k, None)
    return r


# ----------------------------------------------------------------------------------------------
# comparison
# ----------------------------------------------------------------------------------------------
def _same_list(a, b, regime):
    if len(a) != len(b):
        return False
    tol = 0 if regime == "exact" else TOL
    return all(close(dec(x), dec(y), tol) for x, y in zip(a, b))


def compare(c, io, drv):
    out = []
    regime = c.get("regime", "float")
    if c["entry"] == "ola":
        if "out" not in io:
            return [("model", "impl observation failed: %r" % (io,)), ("spec", "impl observation failed")]
        m = drv["model"]
        if io["err"] != m["err"]:
            out.append(("model", "error differs: impl=%r model=%r" % (io["err"], m["err"])))
        elif not _same_list(io["out"], m["out"], regime):
            out.append(("model", "output differs from model (%s): impl=%r model=%r" % (regime, io["out"], m["out"])))
        s = drv["spec"]
        if s is not None:
            if io["err"] is not None:
                out.append(("spec", "impl raised %r where the property gives %d samples" % (io["err"], len(s["out"]))))
            elif not _same_list(io["out"], s["out"], regime):
                out.append(("spec", "output differs from the windowed hop-shifted sum (%s): impl=%r spec=%r gain=%r"
                            % (regime, io["out"], s["out"], s.get("gain"))))
    return out


def nontrivial(c, io):
    return io.get("err") is None and len(c.get("blks", [])) >= 1 and len(io.get("out", [])) >= 1


def tally(eng, c, io):
    if c["entry"] != "ola":
        return
    m = len(c["blks"])
    size = c["size"] if c["size"] is not None else (len(c["blks"][0]) if c["blks"] else None)
    hop = c["hop"] if c["hop"] is not None else size
    eng.count("n_blocks", min(m, 8))
    eng.count("size", size)
    if size is not None:
        rel = ("hop=0" if hop == 0 else "hop>size" if hop > size else "hop=size" if hop == size else
               "hop|size" if size % hop == 0 else "hop<size")
        eng.count("hop_vs_size", rel)
    eng.count("window_kind", c["wkind"])
    eng.count("normalize", c["normalize"])
    eng.count("size_detected", c["size"] is None)
    eng.count("hop_defaulted", c["hop"] is None)
    eng.count("regime", c.get("regime"))
    eng.count("num", c["num"])
    eng.count("route", c.get("route"))
    eng.count("impl_error", (io.get("err") or {}).get("tag", "none"))
    if io.get("err") is None:
        eng.count("float_outputs", "some" if io.get("floats") else "none")
    w = c.get("wnd")
    if w and w.get("kind") == "seq" and w["w"] and all(dec(x) == 0 for x in w["w"]) and c["normalize"]:
        eng.count("gain_zero_branch", "hit")


# ----------------------------------------------------------------------------------------------
# shrinking, neighbours, classification
# ----------------------------------------------------------------------------------------------
def _relabel(c):
    c = dict(c)
    c["regime"] = _regime(c)
    return c


def _resize(c, size):
    """same case with another block size (blocks and list window cut / padded with 1)"""
    old = c["size"] if c["size"] is not None else (len(c["blks"][0]) if c["blks"] else size)
    blks = [(b + [1] * size)[:size] if len(b) == old else b for b in c["blks"]]
    d = dict(c, blks=blks)
    if c["size"] is not None:
        d["size"] = size
    w = c.get("wnd")
    if w and w.get("kind") == "seq" and len(w["w"]) == old:
        d["wnd"] = {"kind": "seq", "w": (w["w"] + [1] * size)[:size]}
    if c["hop"] is not None and c["hop"] > size >= 1 and c["hop"] <= old:
        d["hop"] = size
    return d


def shrink(c):
    if c["entry"] != "ola":
        return
    blks = c["blks"]
    for i in range(len(blks)):
        yield _relabel(dict(c, blks=blks[:i] + blks[i + 1:]))
    size = c["size"] if c["size"] is not None else (len(blks[0]) if blks else None)
    if size and size > 1:
        yield _relabel(_resize(c, size - 1))
    if c["hop"] is not None and c["hop"] > 1:
        yield _relabel(dict(c, hop=c["hop"] - 1))
    if c["wnd"] is not None and c["wnd"].get("kind") == "callable" and size is not None:
        tab = dict((n, l) for n, l in c["wnd"]["table"])
        if size in tab:
            yield _relabel(dict(c, wnd={"kind": "seq", "w": tab[size]}, wkind="list"))
    if c["wnd"] is not None:
        yield _relabel(dict(c, wnd=None, wkind="none"))
    if c["wnd"] is not None and c["wnd"].get("kind") == "seq":
        w = c["wnd"]["w"]
        if any(x != 1 for x in w):
            yield _relabel(dict(c, wnd={"kind": "seq", "w": [1] * len(w)}))
        for i, x in enumerate(w):
            if x != 1:
                yield _relabel(dict(c, wnd={"kind": "seq", "w": w[:i] + [1] + w[i + 1:]}))
        if c["wkind"] != "list":
            yield _relabel(dict(c, wkind="list"))
    if c["normalize"]:
        yield _relabel(dict(c, normalize=False))
    if c.get("route") != "list":
        yield _relabel(dict(c, route="list"))
    if c["num"] != "int":
        yield _relabel(dict(c, num="int", blks=[[int(dec(x)) for x in b] for b in blks]))
    flat = [(i, j) for i, b in enumerate(blks) for j, x in enumerate(b) if x not in (0, 1)]
    for i, j in flat[:12]:
        nb = [list(b) for b in blks]
        nb[i][j] = 1
        yield _relabel(dict(c, blks=nb))
    if c["size"] is None and blks:
        yield _relabel(dict(c, size=len(blks[0])))
    if c["hop"] is None and size is not None:
        yield _relabel(dict(c, hop=size))


def neighbours(c):
    if c["entry"] != "ola":
        return
    size = c["size"] if c["size"] is not None else (len(c["blks"][0]) if c["blks"] else 1)
    hop = c["hop"] if c["hop"] is not None else size
    for dh in (-1, 1):
        if 1 <= hop + dh <= size:
            yield _relabel(dict(c, hop=hop + dh))
    for ds in (-1, 1):
        if size + ds >= max(1, hop if ds < 0 else 1):
            yield _relabel(_resize(c, size + ds))
    yield _relabel(dict(c, normalize=not c["normalize"]))
    if c["blks"]:
        yield _relabel(dict(c, blks=c["blks"][:-1]))
        yield _relabel(dict(c, blks=c["blks"] + [c["blks"][-1]]))
    yield _relabel(dict(c, wnd=None, wkind="none"))
    for i, b in enumerate(c["blks"]):
        for j in range(len(b)):
            nb = [list(x) for x in c["blks"]]
            nb[i][j] = 0
            yield _relabel(dict(c, blks=nb))


def classify(c, io, drv):
    if c["entry"] == "ola":
        e = io.get("err")
        if e is not None and c["size"] is None and not c["blks"] and e["tag"] == "generator-raised-StopIteration":
            return "ola:size-detection-on-empty-block-stream:RuntimeError"
        if e is not None:
            return "ola:error:%s:%s" % (e["kind"], e["tag"])
        m = drv.get("model", {})
        if len(io.get("out", [])) != len(m.get("out", [])):
            return "ola:length"
        return "ola:content"
    return "unclassified"
