"""C13 — history-shaped and long-run cases (helper of harness/props/c13.py).

Three entries:

  hist      several designs built from a small heap of PARAMETER OBJECTS that they share (the same Stream /
            ControlStream / generator / list / tuple / tee hub passed to two or three designs of the same or of
            different strategies; numbers of different types that compare equal), consumed one instant at a time in
            an interleaved order, with control values changed between the instants.  Oracle: the Lean history model /
            spec (ALV/Model/C13Hist.lean, ALV/Spec/C13Hist.lean): which value of each shared object each instant
            gets, the constant design of those values, its contract record, and what the caller's own objects yield
            after the history.
  combhist  ONE comb filter object called on several signals (list / tuple / Stream / generator / iterator), the
            outputs alive at the same time and consumed in an interleaved order: every run must be the difference
            equation from rest on its own signal, the signals must be left alone.
  run       a constant design run in the time domain on a long signal against the C04 difference equation on the
            model coefficients (correspondence).

Long comb delays use the ordinary `comb` entry with a compact signal description `sig` instead of `xs`.
"""
import itertools
import math
import warnings

from common import enc, dec, err_kind

PI = math.pi
VIEW = 2

# python object flavour -> how the model says it hands out values when shared
PY_FLAV = {"Stream": "pool", "sub": "pool", "gen": "pool", "iter": "pool",
           "list": "tee", "tuple": "tee", "thub": "tee", "ctrl": "ctrl"}
STREAMISH = ("Stream", "sub", "thub", "ctrl")        # Stream instances: inside the property's quantifier
COUNTED = ("Stream", "sub", "gen")                  # pulls from the underlying iterator are counted
LP = ["pole", "z", "pole_exp", "z_exp"]
RES = ["poles_exp", "freq_poles_exp", "z_exp", "freq_z_exp"]


def _b():
    from props import c13
    return c13


def _f(x):
    """enc(float(x)) without the detour through Fraction (same encoding: int or 'p/q' in lowest terms)"""
    x = float(x)
    if x != x or x in (float("inf"), float("-inf")):
        return enc(x)
    p, q = x.as_integer_ratio()
    return p if q == 1 else "%d/%d" % (p, q)


def _fl(j):
    """float(dec(j)) without the detour through Fraction: int / int is correctly rounded (exact for the
    binary values the transport carries)"""
    if type(j) is str:
        p, sep, q = j.partition("/")
        if sep:
            return int(p) / int(q)
    elif type(j) is int:
        return float(j)
    v = dec(j)
    return v if isinstance(v, float) else float(v)


# ----------------------------------------------------------------------------------------------
# isolation: a pristine process, forked before this process runs its first case, forks one short-lived child per
# request (a few ms) which runs the case on the real code and returns the observation.  Used (a) for the first
# ISO_ALWAYS histories of a run unconditionally, (b) for ANY case that disagrees in-process: the witness reported is
# the isolated observation whenever the case also fails alone (self-contained, replayable), and is labelled
# "only after the earlier cases of this run" when it does not (state kept between calls by the library).
# ----------------------------------------------------------------------------------------------
ISO_ALWAYS = 150
_ISO = {"zygote": None, "failed": False, "n": 0}


def zygote_start():
    import os
    import json
    if _ISO["zygote"] is not None or _ISO["failed"]:
        return
    try:
        req_r, req_w = os.pipe()
        res_r, res_w = os.pipe()
        pid = os.fork()
    except Exception:
        _ISO["failed"] = True
        return
    if pid:
        os.close(req_r)
        os.close(res_w)
        _ISO["zygote"] = (pid, os.fdopen(req_w, "w"), os.fdopen(res_r, "r"))
        return
    try:                                   # ---- zygote
        os.close(req_w)
        os.close(res_r)
        import audiolazy          # noqa: imported once, no design ever called here; the children inherit it
        inp = os.fdopen(req_r, "r")
        while True:
            line = inp.readline()
            if not line:
                break
            child = os.fork()
            if child == 0:
                try:
                    try:
                        obs = _b().impl_here(json.loads(line))
                    except Exception as e:
                        obs = {"err": "UNMAPPED:" + err_kind(e)}
                    os.write(res_w, (json.dumps(obs) + "\n").encode())
                finally:
                    os._exit(0)
            _, status = os.waitpid(child, 0)
            if status != 0:
                os.write(res_w, (json.dumps({"err": "UNMAPPED:child-died"}) + "\n").encode())
    finally:
        os._exit(0)


def isolated_impl(c):
    """the observation of case c run alone in a fresh process; None when isolation is unavailable"""
    import json
    zygote_start()
    z = _ISO["zygote"]
    if z is None:
        return None
    _, out, inp = z
    try:
        out.write(json.dumps(c) + "\n")
        out.flush()
        line = inp.readline()
    except Exception:
        line = ""
    if not line:
        _ISO["zygote"], _ISO["failed"] = None, True
        return None
    obs = json.loads(line)
    obs["isolated"] = True
    return obs


# ----------------------------------------------------------------------------------------------
# signals (compact description, expanded on both sides)
# ----------------------------------------------------------------------------------------------
def sig_values(sig):
    """{"kind": "impulse"|"lcg"|"ramp", "n": N, "seed": s} -> list of floats (multiples of 1/4 in [-2, 2])"""
    n = sig["n"]
    k = sig["kind"]
    if k == "impulse":
        return [1.0] + [0.0] * (n - 1) if n else []
    if k == "ramp":
        return [((7 * i) % 11 - 5) / 4.0 for i in range(n)]
    x = (sig.get("seed", 1) * 2654435761 + 12345) % (2 ** 32)
    out = []
    for _ in range(n):
        x = (x * 1664525 + 1013904223) % (2 ** 32)
        out.append(((x >> 16) % 17 - 8) / 4.0)
    return out


def xs_of(c):
    if "sig" in c:
        return sig_values(c["sig"])
    return [_fl(x) for x in c["xs"]]


# ----------------------------------------------------------------------------------------------
# hist: structure helpers
# ----------------------------------------------------------------------------------------------
def _roles(d):
    """roles of the two arguments of a design"""
    k = d["kind"]
    if k in ("lowpass", "highpass"):
        return ("freq", None)
    if k in ("resonator", "klapuri"):
        return ("freq", "bw")
    return ("tau" if d["strategy"] == "tau" else "alpha", None)


def needs_stream(d, which):
    """arguments on which the strategy does arithmetic directly (`exp(-cutoff)`, `cos(freq)` times a number,
    `-delay / tau`): only Stream instances (and numbers) work there; other iterables raise TypeError"""
    k, st = d["kind"], d.get("strategy")
    if which == "p2":
        return False
    if k in ("lowpass", "highpass"):
        return st in ("pole_exp", "z_exp")
    if k == "resonator":
        return st in ("poles_exp", "z_exp", "freq_z_exp")
    if k == "comb":
        return st == "tau"
    return False


def _src_of(p):
    return p.get("src") if isinstance(p, dict) else None


def uses(c, i):
    """how many design arguments name heap object i"""
    return sum(1 for d in c["dsgs"] for w in ("p1", "p2") if _src_of(d[w]) == i)


def outside(c, strict=False):
    """does a design get an iterable that is not a Stream instance?  The property quantifies over numbers and
    Stream-valued parameters: a strategy may refuse any other iterable with a TypeError when it is called
    (today: the arguments of `needs_stream`; strict=True asks for exactly those); when it accepts one, the
    coefficients must still follow it sample by sample."""
    for d in c["dsgs"]:
        for w in ("p1", "p2"):
            i = _src_of(d[w])
            if i is not None and c["srcs"][i]["flav"] not in STREAMISH and (needs_stream(d, w) or not strict):
                return True
    return False


def valid(c):
    ns, nd = len(c["srcs"]), len(c["dsgs"])
    if not nd or any(not s["vals"] for s in c["srcs"]):
        return False
    built = set()
    for op in c["ops"]:
        if op[0] == "build":
            if not 0 <= op[1] < nd or op[1] in built:
                return False
            built.add(op[1])
        elif op[0] == "take":
            if op[1] not in built or c["dsgs"][op[1]].get("bad"):
                return False
        elif op[0] == "set":
            if not 0 <= op[1] < ns or c["srcs"][op[1]]["flav"] != "ctrl":
                return False
        else:
            return False
    for d in c["dsgs"]:
        both = [_src_of(d[w]) for w in ("p1", "p2")]
        for w in ("p1", "p2"):
            i = _src_of(d[w])
            if i is not None and not 0 <= i < ns:
                return False
        # one pool object for both arguments of one call: the order of the two pulls inside one instant is an
        # implementation detail (the model reads the first argument first); not generated
        if both[0] is not None and both[0] == both[1] and PY_FLAV[c["srcs"][both[0]]["flav"]] == "pool":
            return False
    return any(op[0] == "take" for op in c["ops"])


def request_hist(c):
    def par(p):
        return {"src": p["src"]} if "src" in p else {"const": p["const"]}
    return {"entry": "hist", "view": VIEW,
            "srcs": [{"flav": PY_FLAV[s["flav"]], "vals": s["vals"]} for s in c["srcs"]],
            "dsgs": [dict({"kind": d["kind"], "p1": par(d["p1"]), "p2": par(d["p2"])},
                          **{k: d[k] for k in ("strategy", "delay") if k in d}) for d in c["dsgs"]],
            "ops": [({"op": "set", "i": op[1], "v": op[2]} if op[0] == "set" else {"op": op[0], "j": op[1]})
                    for op in c["ops"]]}


# ----------------------------------------------------------------------------------------------
# hist: the real code
# ----------------------------------------------------------------------------------------------
def _const(p):
    from fractions import Fraction
    v = dec(p["const"])
    t = p.get("type", "float")
    if t == "int":
        return int(v)
    if t == "bool":
        return bool(v)
    if t == "frac":
        return Fraction(v)
    return float(v)


def _build_sources(c):
    import audiolazy as al

    class Sub(al.Stream):
        """a Stream subclass with its own __iter__ (observationally the same stream)"""
        def __iter__(self):
            inner = al.Stream.__iter__(self)
            return (x for x in inner)

    ntake = sum(1 for op in c["ops"] if op[0] == "take")
    N = 2 * ntake + VIEW + 2
    objs, counters, pristine = [], [], []
    for i, s in enumerate(c["srcs"]):
        vals = [_fl(v) for v in s["vals"]]
        cnt = [0]

        def cyc(vals=vals, cnt=cnt):
            for v in itertools.cycle(vals):
                cnt[0] += 1
                yield v
        fl = s["flav"]
        finite = [vals[k % len(vals)] for k in range(N)]
        if fl == "Stream":
            o = al.Stream(cyc())
        elif fl == "sub":
            o = Sub(cyc())
        elif fl == "gen":
            o = cyc()
        elif fl == "iter":
            o = iter(finite)
        elif fl == "list":
            o = list(finite)
        elif fl == "tuple":
            o = tuple(finite)
        elif fl == "thub":
            o = al.thub(cyc(), uses(c, i) + 1)
        else:
            o = al.ControlStream(vals[0])
        objs.append(o)
        counters.append(cnt)
        pristine.append(finite)
    return objs, counters, pristine


def _make_design(d, objs):
    import audiolazy as al

    def arg(p):
        return objs[p["src"]] if "src" in p else _const(p)
    k = d["kind"]
    bad = d.get("bad")
    call = d.get("call")

    def fn(sd):
        return sd if call == "default" else sd[d["strategy"]]
    if k in ("lowpass", "highpass"):
        if call == "kw":
            return getattr(al, k)[d["strategy"]](cutoff=arg(d["p1"]))
        return fn(getattr(al, k))(arg(d["p1"]))
    if k == "resonator":
        bw = None if bad == "none-bw" else arg(d["p2"])
        if call == "kw":
            return al.resonator[d["strategy"]](bandwidth=bw, freq=arg(d["p1"]))
        return fn(al.resonator)(arg(d["p1"]), bw)
    if k == "klapuri":
        bw = None if bad == "none-bw" else arg(d["p2"])
        if call == "kw":
            return al.gammatone.klapuri(bandwidth=bw, freq=arg(d["p1"]))
        return al.gammatone.klapuri(arg(d["p1"]), bw)
    from fractions import Fraction
    delay = float(d["delay"]) if d.get("dtype") == "float" else d["delay"]
    if bad == "frac-delay":
        delay = Fraction(2 * d["delay"] + 1, 2)
    if call == "kw":
        return al.comb[d["strategy"]](**{"delay": delay, ("tau" if d["strategy"] == "tau" else "alpha"): arg(d["p1"])})
    return fn(al.comb)(delay, arg(d["p1"]))


def _instant(cols):
    """the dense coefficient list of one instant; None when a coefficient stream has ended"""
    from audiolazy import Stream
    top = max(cols) if cols else -1
    out = []
    for k in range(top + 1):
        v = cols.get(k, 0)
        if isinstance(v, Stream):
            got = v.take(1)
            if len(got) != 1:
                return None
            v = got[0]
        out.append(enc(float(v)))
    return out


def impl_hist(c):
    import audiolazy as al
    with warnings.catch_warnings():
        warnings.simplefilter("ignore")
        objs, counters, pristine = _build_sources(c)
        designs = {}
        steps = []
        for op in c["ops"]:
            try:
                if op[0] == "build":
                    filt = _make_design(c["dsgs"][op[1]], objs)
                    secs = list(filt) if isinstance(filt, al.CascadeFilter) else [filt]
                    designs[op[1]] = [({int(k): v for k, v in f.numdict.items()},
                                       {int(k): v for k, v in f.dendict.items()}) for f in secs]
                    st = {"built": len(secs), "type": type(filt).__name__}
                elif op[0] == "set":
                    objs[op[1]].value = _fl(op[2])
                    st = {}
                else:
                    if designs.get(op[1]) is None:
                        st = {"err": "not-built"}
                    else:
                        secs = []
                        for numc, denc in designs[op[1]]:
                            n, dn = _instant(numc), _instant(denc)
                            secs.append(None if n is None or dn is None else {"num": n, "den": dn})
                        st = {"secs": secs}
            except Exception as ex:
                st = {"err": err_kind(ex)}
                if op[0] == "build":
                    designs[op[1]] = None
            st["pulls"] = [cnt[0] for cnt in counters]
            steps.append(st)
        final = []
        for i, (s, o) in enumerate(zip(c["srcs"], objs)):
            fl = s["flav"]
            try:
                if fl in ("Stream", "sub"):
                    f = {"next": [enc(float(x)) for x in o.take(VIEW)]}
                elif fl in ("gen", "iter"):
                    f = {"next": [enc(float(next(o))) for _ in range(VIEW)]}
                elif fl in ("list", "tuple"):
                    f = {"next": [enc(float(x)) for x in o[:VIEW]],
                         "unchanged": type(o) is (list if fl == "list" else tuple) and list(o) == pristine[i]}
                elif fl == "thub":
                    f = {"next": [enc(float(x)) for x in al.Stream(o).take(VIEW)]}
                else:
                    f = {"next": [enc(float(x)) for x in o.take(VIEW)], "value": enc(float(o.value))}
            except Exception as ex:
                f = {"err": err_kind(ex)}
            final.append(f)
        for s, o in zip(c["srcs"], objs):
            if s["flav"] == "thub":
                o._iters[:] = []          # copies reserved for calls that raised: no MemoryLeakWarning from __del__
        del designs, objs
        if any(d.get("bad") for d in c["dsgs"]):
            import gc
            gc.collect()                  # tee hubs left half used inside a call that raised: collected (and their
            #                               warning filtered) here, not in the middle of a later case
        return {"steps": steps, "final": final}


# ----------------------------------------------------------------------------------------------
# hist: comparison
# ----------------------------------------------------------------------------------------------
def _obs_of(sec, at):
    """the observation record _check_contract reads, computed from the coefficient lists of one instant"""
    b = _b()
    o = {"num": sec["num"], "den": sec["den"]}
    o["dc"] = _f(b._resp(sec["num"], sec["den"], 0.0))
    o["nyq"] = _f(b._resp(sec["num"], sec["den"], PI))
    o["grid"] = [_f(b._resp(sec["num"], sec["den"], w)) for w in b.GRID]
    o["at"] = _f(b._resp(sec["num"], sec["den"], at))
    return o


def _trim(xs, n):
    xs = list(xs)
    # a time varying coefficient that happens to be zero is still stored
    while len(xs) > n and _fl(xs[-1]) == 0:
        xs.pop()
    return xs


def problems_hist(c, io, drv):
    b = _b()
    out = []
    out_ok = outside(c)
    expected_pulls = [0] * len(c["srcs"])
    for t, op in enumerate(c["ops"]):
        st = io["steps"][t]
        d = c["dsgs"][op[1]] if op[0] != "set" else None
        name = "hist.set" if d is None else d["kind"] + "." + str(d.get("strategy", "klapuri"))
        if op[0] == "take":
            for w in ("p1", "p2"):
                i = _src_of(d[w])
                if i is not None:
                    expected_pulls[i] += 1
        if "err" in st and op[0] == "build" and d.get("bad"):
            pass          # a call that cannot succeed: whatever it raises, the shared objects must be left alone
        elif "err" in st:
            if op[0] == "build" and st["err"] == "TypeError" and out_ok:
                return out        # a non-Stream iterable where the strategy needs a Stream: outside the property
            if st["err"] == "not-built" and out_ok:
                return out
            out.append(("model", name + ":raised", "step %d %r raised %s" % (t, op, st["err"])))
            out.append(("spec", name + ":raised:" + st["err"], "step %d %r raised %s" % (t, op, st["err"])))
            return out
        if op[0] == "take":
            spec, model, contracts = drv["spec"][t], drv["model"][t], drv["contracts"][t]
            secs = st["secs"]
            if len(secs) != len(spec["secs"]):
                out.append(("spec", name + ":sections", "%d sections, required %d" % (len(secs), len(spec["secs"]))))
                return out
            for k, sec in enumerate(secs):
                if sec is None:
                    out.append(("spec", name + ":ended", "step %d: a coefficient stream of design %d ended" % (t, op[1])))
                    return out
                for part in ("num", "den"):
                    got = _trim(sec[part], len(spec["secs"][k][part]))
                    if not b._ulp_close(got, spec["secs"][k][part]):
                        out.append(("spec", name + ":sample-by-sample",
                                    "step %d (design %d, section %d) %s: %r; the constant design for the values this "
                                    "instant must get (%r, %r) has %r" % (
                                        t, op[1], k, part, [_fl(x) for x in got], _fl(spec["v1"]), _fl(spec["v2"]),
                                        [_fl(x) for x in spec["secs"][k][part]])))
                    if not b._ulp_close(got, model["secs"][k][part]):
                        out.append(("model", name + ":sample-by-sample", "step %d section %d %s: impl %r model %r" % (
                            t, k, part, [_fl(x) for x in got], [_fl(x) for x in model["secs"][k][part]])))
                if contracts:
                    sec2 = {"num": _trim(sec["num"], 1), "den": _trim(sec["den"], 1)}
                    b._check_contract(name, _obs_of(sec2, _fl(spec["v1"])), contracts[k], out)
                if out:
                    return out
        for i, s in enumerate(c["srcs"]):
            if s["flav"] in COUNTED and st["pulls"][i] != expected_pulls[i]:
                out.append(("spec", "hist:pulls:" + ("more" if st["pulls"][i] > expected_pulls[i] else "fewer"),
                            "after step %d %r: %d values pulled from the shared %s object %d, %d design instants were "
                            "requested from it" % (t, op, st["pulls"][i], s["flav"], i, expected_pulls[i])))
                return out
    for i, (s, f) in enumerate(zip(c["srcs"], io["final"])):
        cl = "hist:caller-object:" + PY_FLAV[s["flav"]]
        if "err" in f:
            out.append(("spec", cl + ":raised:" + f["err"], "object %d (%s) raised %s when read after the history" % (
                i, s["flav"], f["err"])))
            continue
        want = drv["final_spec"][i]
        if not b._close_list(f["next"], want, 1e-15):
            out.append(("spec", cl, "object %d (%s) yields %r after the history, required %r" % (
                i, s["flav"], [_fl(x) for x in f["next"]], [_fl(x) for x in want])))
        if not b._close_list(drv["final"][i], want, 0):
            out.append(("model", cl, "model %r spec %r" % (drv["final"][i], want)))
        if f.get("unchanged") is False:
            out.append(("spec", cl + ":modified", "the %s object %d was modified" % (s["flav"], i)))
        if "value" in f and not b._close_list([f["value"]], want[:1], 1e-15):
            out.append(("spec", cl + ":value", "control %d has .value %r, required %r" % (i, _fl(f["value"]), _fl(want[0]))))
    return out


# ----------------------------------------------------------------------------------------------
# combhist / run
# ----------------------------------------------------------------------------------------------
def _signal_obj(xs, flav):
    import audiolazy as al
    if flav == "tuple":
        return tuple(xs)
    if flav == "Stream":
        return al.Stream(list(xs))
    if flav == "gen":
        return (x for x in list(xs))
    if flav == "iter":
        return iter(list(xs))
    return list(xs)


def _comb_param(c):
    from fractions import Fraction
    v = dec(c["param"])
    t = c.get("ptype", "float")
    if isinstance(v, float):
        return v
    return int(v) if t == "int" else Fraction(v) if t == "frac" else bool(v) if t == "bool" else float(v)


def impl_combhist(c):
    import audiolazy as al
    with warnings.catch_warnings():
        warnings.simplefilter("ignore")
        try:
            delay = float(c["delay"]) if c.get("dtype") == "float" else c["delay"]
            filt = al.comb[c["strategy"]](delay, _comb_param(c))
            # a run with a parameter of its own uses another filter object of the same strategy and delay (one object
            # per distinct parameter, built in order of first use)
            filts = {}
            for r in c["runs"]:
                if "param" in r:
                    k = repr((r["param"], r.get("ptype", "float")))
                    if k not in filts:
                        filts[k] = al.comb[c["strategy"]](delay, _comb_param(r))
            sigs = [xs_of(r) for r in c["runs"]]
            objs = [_signal_obj(xs, r.get("flav", "list")) for xs, r in zip(sigs, c["runs"])]
            its = [iter((filts[repr((r["param"], r.get("ptype", "float")))] if "param" in r else filt)(o))
                   for o, r in zip(objs, c["runs"])]
            outs = [[] for _ in its]
            done = [False] * len(its)
            for k in c["order"]:
                if not done[k]:
                    try:
                        outs[k].append(enc(float(next(its[k]))))
                    except StopIteration:
                        done[k] = True
            for k, it_ in enumerate(its):
                if not done[k]:
                    outs[k].extend(enc(float(y)) for y in it_)
            same = [not isinstance(o, (list, tuple)) or list(o) == xs for o, xs in zip(objs, sigs)]
            return {"num": [enc(float(x)) for x in filt.numerator], "den": [enc(float(x)) for x in filt.denominator],
                    "outs": outs, "inputs_unchanged": same}
        except Exception as ex:
            return {"err": err_kind(ex)}


def request_combhist(c):
    return {"entry": "multi", "cases": [
        {"entry": "comb", "strategy": c["strategy"], "delay": c["delay"], "param": r.get("param", c["param"]),
         "xs": [_f(x) for x in xs_of(r)]} for r in c["runs"]]}


def problems_combhist(c, io, drv):
    b = _b()
    name = "comb." + c["strategy"]
    if "err" in io:
        return [("model", name + ":raised", "impl raised " + io["err"]),
                ("spec", name + ":raised:" + io["err"], "impl raised " + io["err"])]
    out = []
    b._check_coefs(name, io, drv["results"][0]["model"], out)
    for k, (got, r) in enumerate(zip(io["outs"], drv["results"])):
        if not b._close_list(got, r["run"], b.TOL):
            out.append(("model", name + ":run", "run %d: output %r, difference equation on model coefficients %r" % (
                k, _first_diff(got, r["run"]), None)))
        if not b._close_list(got, r["spec"]["out"], b.TOL):
            out.append(("spec", name + ":difference-equation", "run %d of %d on the same filter object: %s" % (
                k, len(io["outs"]), _first_diff(got, r["spec"]["out"]))))
        if not io["inputs_unchanged"][k]:
            out.append(("spec", name + ":input-modified", "run %d: the input %s was modified" % (k, c["runs"][k].get("flav", "list"))))
    return out


def _first_diff(got, want):
    g, w = [_fl(x) for x in got], [_fl(x) for x in want]
    if len(g) != len(w):
        return "%d output samples, required %d" % (len(g), len(w))
    for n, (p, q) in enumerate(zip(g, w)):
        if abs(p - q) > 1e-9 * max(1.0, abs(q)):
            return "y[%d] = %r, required %r (y[%d:%d] = %r, required %r)" % (n, p, q, max(0, n - 1), n + 3,
                                                                               g[max(0, n - 1):n + 3], w[max(0, n - 1):n + 3])
    return "equal"


def impl_run(c):
    import audiolazy as al
    d = c["design"]
    with warnings.catch_warnings():
        warnings.simplefilter("ignore")
        try:
            e = d["entry"]
            if e in ("lowpass", "highpass"):
                filt = getattr(al, e)[d["strategy"]](_fl(d["cutoff"]))
            elif e == "resonator":
                filt = al.resonator[d["strategy"]](_fl(d["freq"]), _fl(d["bandwidth"]))
            elif d["strategy"] == "sampled":
                filt = al.gammatone.sampled(_fl(d["freq"]), _fl(d["bandwidth"]), phase=_fl(d["phase"]), eta=d["eta"])
            else:
                filt = al.gammatone[d["strategy"]](_fl(d["freq"]), _fl(d["bandwidth"]))
            xs = xs_of(c)
            obj = _signal_obj(xs, c.get("flav", "list"))
            out = [enc(float(y)) for y in filt(obj)]
            return {"out": out, "input_unchanged": not isinstance(obj, (list, tuple)) or list(obj) == xs}
        except Exception as ex:
            return {"err": err_kind(ex)}


def request_run(c):
    return {"entry": "run", "design": c["design"], "xs": [_f(x) for x in xs_of(c)]}


def problems_run(c, io, drv):
    b = _b()
    d = c["design"]
    name = d["entry"] + "." + d["strategy"]
    if "err" in io:
        return [("model", name + ":raised", "impl raised " + io["err"]),
                ("spec", name + ":raised:" + io["err"], "impl raised " + io["err"])]
    out = []
    if not b._close_list(io["out"], drv["run"], 1e-8):
        out.append(("model", name + ":time-domain-run", _first_diff(io["out"], drv["run"])))
    if not io["input_unchanged"]:
        out.append(("model", name + ":input-modified", "the input was modified"))
    return out


# ----------------------------------------------------------------------------------------------
# generation
# ----------------------------------------------------------------------------------------------
def _freq(rng, safe=False):
    if safe:
        return 0.6 + rng.random() * 1.9
    return _b()._rand_freq(rng)


def _role_value(rng, role, safe=False):
    if role == "freq":
        return _freq(rng, safe)
    if role == "bw":
        return _b()._rand_bw(rng)
    if role == "tau":
        return rng.choice([0.5, 1.0, 2.5, 10.0, rng.uniform(0.2, 40)])
    return rng.choice([0.5, -0.75, 0.25, -0.125, 0.9375, rng.randint(-15, 15) / 16.0 or 0.5])


TYPED = {     # numerically equal numbers of different python types, per role
    "freq": [(1, ["int", "float", "frac", "bool"]), (2, ["int", "float", "frac"]), (3, ["int", "float", "frac"]),
             (0.5, ["float", "frac"]), (1.5, ["float", "frac"])],
    "bw": [(1, ["int", "float", "frac", "bool"]), (0.5, ["float", "frac"]), (0.125, ["float", "frac"])],
    "alpha": [(1, ["int", "float", "frac", "bool"]), (-1, ["int", "float", "frac"]), (0, ["int", "float", "frac", "bool"]),
              (0.5, ["float", "frac"]), (-0.75, ["float", "frac"]), (2, ["int", "float", "frac"])],
    "tau": [(1, ["int", "float", "frac", "bool"]), (2, ["int", "float", "frac"]), (5, ["int", "float", "frac"]),
            (2.5, ["float", "frac"])],
}


def _design(kind, strategy=None, delay=None):
    d = {"kind": kind}
    if strategy is not None:
        d["strategy"] = strategy
    if delay is not None:
        d["delay"] = delay
    return d


ALL_DESIGNS = ([_design(b, s) for b in ("lowpass", "highpass") for s in LP] +
               [_design("resonator", s) for s in RES] + [_design("klapuri")] +
               [_design("comb", s, 3) for s in ("fb", "ff", "tau")])


def _zsafe(ds):
    return any(d["kind"] == "resonator" and d["strategy"] == "z_exp" for d in ds)


def _fill(rng, d, p1=None, p2=None, safe=False, typed=False):
    """complete a design with constant arguments where no object is given"""
    r1, r2 = _roles(d)
    d = dict(d)

    def const(role):
        if typed:
            v, ts = rng.choice(TYPED[role])
            if safe and role == "freq" and not 0.6 <= v <= 2.5:
                v, ts = 1, TYPED["freq"][0][1]
            return {"const": _f(v), "type": rng.choice(ts)}
        return {"const": _f(_role_value(rng, role, safe)), "type": "float"}
    d["p1"] = p1 if p1 is not None else const(r1)
    d["p2"] = p2 if p2 is not None else (const(r2) if r2 else {"const": 0, "type": "int"})
    # call shape inside a history (harness only; the Lean side is the call layer, theorem calls_with_omitted_parameters):
    # all-keyword arguments, or the StrategyDict called directly when the strategy is its default
    u = rng.random()
    if u < 0.2:
        d["call"] = "kw"
    elif u < 0.45 and (d["kind"], d.get("strategy")) in DEFAULT_CALLS:
        d["call"] = "default"
    return d


DEFAULT_CALLS = {("lowpass", "pole"), ("highpass", "z"), ("resonator", "poles_exp"), ("comb", "fb")}


def _interleave(rng, nd, per, ctrls, pattern):
    """build steps first (pattern 'late': the second design is built after the first was used), then `per`
    instants of every design in the given interleaving, control changes in between"""
    ops = []
    takes = []
    if pattern == "seq":
        for j in range(nd):
            takes += [j] * per
    elif pattern == "rr":
        for _ in range(per):
            takes += list(range(nd))
    else:
        takes = [j for j in range(nd) for _ in range(per)]
        rng.shuffle(takes)
    if pattern == "late" and nd > 1:
        ops.append(["build", 0])
        ops.append(["take", 0])
        for j in range(1, nd):
            ops.append(["build", j])
        takes = [j for j in range(nd) for _ in range(per)]
        rng.shuffle(takes)
    else:
        for j in range(nd):
            ops.append(["build", j])
    for n, j in enumerate(takes):
        for (i, role, safe) in ctrls:
            if rng.random() < (0.5 if n else 0.25):
                ops.append(["set", i, _f(_role_value(rng, role, safe))])
        ops.append(["take", j])
    return ops


def _bank(rng, designs, flav, role, pattern, per=2, nvals=3):
    """designs (1-3) that all take ONE object for their argument of role `role`"""
    safe = _zsafe(designs)
    src = {"flav": flav, "vals": [_f(_role_value(rng, role, safe)) for _ in range(1 if flav == "ctrl" else nvals)]}
    ds = []
    for d in designs:
        r1, r2 = _roles(d)
        ds.append(_fill(rng, d, p1={"src": 0} if r1 == role else None, p2={"src": 0} if r2 == role else None, safe=safe))
    ctrls = [(0, role, safe)] if flav == "ctrl" else []
    return {"entry": "hist", "srcs": [src], "dsgs": ds, "ops": _interleave(rng, len(ds), per, ctrls, pattern)}


def _with_role(role):
    return [d for d in ALL_DESIGNS if role in _roles(d)]


def gen_hist(rng, tier, scale=1):
    quick = tier == "quick"
    cases = []
    flavs = list(PY_FLAV)
    if scale == 1:
        # every design x every flavour: a bank of two of the same strategy sharing ONE object
        for d in ALL_DESIGNS:
            for role in [r for r in _roles(d) if r]:
                for fl in flavs:
                    w = "p1" if _roles(d)[0] == role else "p2"
                    if fl not in STREAMISH and needs_stream(d, w) and rng.random() < 0.75:
                        continue      # a few of the combinations outside the property are kept (TypeError branch)
                    for pattern in (("rr",) if quick else ("rr", "seq", "late")):
                        cases.append(_bank(rng, [d, d], fl, role, pattern))
        # banks of three with different bandwidths / different strategies sharing the frequency object
        for fl in STREAMISH:
            for st in RES:
                cases.append(_bank(rng, [_design("resonator", st)] * 3, fl, "freq", "rr", per=2))
            cases.append(_bank(rng, [_design("resonator", s) for s in RES], fl, "freq", "rand"))
            cases.append(_bank(rng, [_design("lowpass", s) for s in LP], fl, "freq", "rand"))
            cases.append(_bank(rng, [_design("highpass", s) for s in LP], fl, "freq", "late"))
            cases.append(_bank(rng, [_design("lowpass", "pole"), _design("resonator", "poles_exp"), _design("klapuri")],
                               fl, "freq", "rand"))
            cases.append(_bank(rng, [_design("resonator", "z_exp"), _design("klapuri"), _design("resonator", "freq_z_exp")],
                               fl, "bw", "rr"))
            cases.append(_bank(rng, [_design("comb", "fb", 2), _design("comb", "ff", 5), _design("comb", "fb", 64)],
                               fl, "alpha", "rand"))
        # twins: two EQUAL but distinct parameter objects (equal tuples hash alike; two controls holding the same value,
        # one of which is changed later), one design each
        for fl in ("tuple", "list", "ctrl", "Stream", "thub"):
            for d, role in ((_design("resonator", "poles_exp"), "bw"), (_design("resonator", "freq_z_exp"), "freq"),
                            (_design("lowpass", "z"), "freq"), (_design("highpass", "pole_exp"), "freq"),
                            (_design("comb", "fb", 2), "alpha"), (_design("klapuri"), "bw")):
                w = "p1" if _roles(d)[0] == role else "p2"
                if fl not in STREAMISH and needs_stream(d, w):
                    continue
                c = _bank(rng, [d, d], fl, role, "rr", per=2, nvals=2)
                c["srcs"].append(dict(c["srcs"][0]))
                c["dsgs"][1] = dict(c["dsgs"][1], **{w: {"src": 1}})
                cases.append(c)
        # a call that raises in the middle of a history (comb with a non-integer delay, resonator / klapuri with
        # bandwidth None) while the shared object is in use by two other designs
        for fl in STREAMISH + ("gen",):
            for good, bad, role in ((_design("comb", "fb", 3), dict(_design("comb", "ff", 2), bad="frac-delay"), "alpha"),
                                    (_design("resonator", "freq_poles_exp"), dict(_design("resonator", "poles_exp"), bad="none-bw"), "freq"),
                                    (_design("lowpass", "z"), dict(_design("klapuri"), bad="none-bw"), "freq")):
                c = _bank(rng, [good, bad, good], fl, role, "rr")
                c["ops"] = [["build", 0], ["take", 0], ["build", 1], ["build", 2]] + \
                           [o for o in c["ops"] if o[0] != "build" and o[1:2] != [1] or o[0] == "set"]
                cases.append(c)
        # numerically equal numbers of different types, both orders
        for d in ALL_DESIGNS:
            for role in [r for r in _roles(d) if r]:
                for v, ts in TYPED[role]:
                    if role == "freq" and _zsafe([d]) and not 0.6 <= v <= 2.5:
                        continue
                    for a in ts:
                        for b_ in ts:
                            if a == b_ or (quick and rng.random() < 0.6):
                                continue
                            ds = []
                            for t in (a, b_):
                                p = {"const": _f(v), "type": t}
                                r1, r2 = _roles(d)
                                ds.append(_fill(rng, d, p1=p if r1 == role else None, p2=p if r2 == role else None,
                                                safe=_zsafe([d]), typed=True))
                            cases.append({"entry": "hist", "srcs": [], "dsgs": ds,
                                          "ops": [["build", 0], ["take", 0], ["build", 1], ["take", 1], ["take", 0]]})
    n_rand = (60 if quick else 1500) * scale
    for _ in range(n_rand):
        cases.append(_random_hist(rng))
    return [c for c in cases if valid(c)]


def _random_hist(rng):
    ns = rng.randint(1, 3)
    roles = [rng.choice(["freq", "freq", "bw", "alpha", "tau"]) for _ in range(ns)]
    nd = rng.randint(1, 3)
    chosen = []
    for _ in range(nd):
        role = rng.choice(roles)
        chosen.append(dict(rng.choice(_with_role(role))))
    for d in chosen:
        if d["kind"] == "comb":
            d["delay"] = rng.choice([1, 2, 3, 7, 64, 65])
            if rng.random() < 0.2:
                d["dtype"] = "float"
    safe = _zsafe(chosen)
    srcs = []
    for r in roles:
        fl = rng.choice(list(PY_FLAV))
        srcs.append({"flav": fl, "vals": [_f(_role_value(rng, r, safe)) for _ in range(1 if fl == "ctrl" else rng.randint(1, 4))]})
    ds = []
    for d in chosen:
        r1, r2 = _roles(d)
        ps = []
        for w, r in (("p1", r1), ("p2", r2)):
            cand = [i for i, rr in enumerate(roles) if rr == r and r is not None
                    and (srcs[i]["flav"] in STREAMISH or not needs_stream(d, w) or rng.random() < 0.05)]
            ps.append({"src": rng.choice(cand)} if cand and rng.random() < 0.8 else None)
        ds.append(_fill(rng, d, p1=ps[0], p2=ps[1], safe=safe, typed=rng.random() < 0.3))
    ctrls = [(i, roles[i], safe) for i, s in enumerate(srcs) if s["flav"] == "ctrl"]
    c = {"entry": "hist", "srcs": srcs, "dsgs": ds,
         "ops": _interleave(rng, nd, rng.randint(1, 4), ctrls, rng.choice(["seq", "rr", "rand", "late"]))}
    if rng.random() < 0.15:
        # one more call, which raises, somewhere in the history
        cand = [j for j, d in enumerate(ds) if d["kind"] in ("comb", "resonator", "klapuri")]
        if cand:
            d = dict(ds[rng.choice(cand)])
            d["bad"] = "frac-delay" if d["kind"] == "comb" else "none-bw"
            ds.append(d)
            c["ops"].insert(rng.randint(0, len(c["ops"])), ["build", len(ds) - 1])
    # drop the objects nobody uses (renumbering)
    return _drop_unused(c)


def _drop_unused(c):
    used = sorted({i for i in range(len(c["srcs"])) if uses(c, i)})
    ren = {i: k for k, i in enumerate(used)}

    def par(p):
        return {"src": ren[p["src"]]} if "src" in p else p
    return {"entry": "hist", "srcs": [c["srcs"][i] for i in used],
            "dsgs": [dict(d, p1=par(d["p1"]), p2=par(d["p2"])) for d in c["dsgs"]],
            "ops": [([op[0], ren[op[1]], op[2]] if op[0] == "set" else op) for op in c["ops"]
                    if op[0] != "set" or op[1] in ren]}


POW2 = [64, 128, 256, 512, 1024, 2048, 4096]


def gen_long(rng, tier, scale=1):
    """long delays / long runs in the time domain"""
    quick = tier == "quick"
    cases = []
    if scale != 1:
        for _ in range(20 * scale):
            d = rng.choice([rng.randint(13, 300), rng.choice(POW2) + rng.choice([-1, 0, 1]), rng.randint(300, 5000)])
            if quick and d > 1100:
                d = d % 1100 + 13
            st = rng.choice(["fb", "ff", "tau"])
            p = rng.choice([0.5, -0.75, 0.25]) if st != "tau" else rng.choice([float(d), 2.5 * d, 300.0])
            cases.append({"entry": "comb", "strategy": st, "delay": d, "param": _f(p),
                          "sig": {"kind": rng.choice(["impulse", "lcg"]), "n": d * rng.randint(1, 3) + rng.randint(1, 5),
                                  "seed": rng.randint(0, 999)}})
        return cases
    dense = list(range(13, 301)) if not quick else sorted(set(list(range(13, 72)) + list(range(72, 301, 3)) + [100, 200, 255, 257, 300]))
    around = [p + k for p in POW2 for k in (-1, 0, 1)]
    big = [1000, 3000] if quick else [1000, 1500, 2500, 3000, 4410, 5000, 8191, 8192, 8193]
    if quick:
        around = [d for d in around if d <= 1025] + [2048, 4096]
    for d in sorted(set(dense + around + big)):
        for st in ("fb", "ff"):
            a = rng.choice([0.5, -0.75, 0.25, -0.5])
            n = (2 * d + 3) if st == "fb" else (d + 3)
            kind = "impulse" if (d % 2 == 0 and d < 300) else "lcg"
            cases.append({"entry": "comb", "strategy": st, "delay": d, "param": _f(a),
                          "sig": {"kind": kind, "n": n, "seed": d}})
        if d in around or d % 25 == 0:
            cases.append({"entry": "comb", "strategy": "tau", "delay": d, "param": _f(rng.choice([float(d), 2.0 * d, 300.0])),
                          "sig": {"kind": "impulse", "n": 2 * d + 2}})
    # short delays, long runs (thousands of echoes: the outputs decay through the whole double range)
    for d in (1, 2, 3, 5, 16):
        for st, a in (("fb", 0.5), ("fb", -0.9375), ("fb", -1.0), ("ff", 0.25), ("tau", 7.0)):
            for n in ((2500,) if quick else (2500, 20000)):
                cases.append({"entry": "comb", "strategy": st, "delay": d, "param": _f(a),
                              "sig": {"kind": "impulse" if (d + n) % 2 else "lcg", "n": n + d, "seed": d}})
    # one comb filter object, several signals, outputs alive together
    flavs = ["list", "tuple", "Stream", "gen", "iter"]
    delays = [1, 2, 3, 5, 8, 63, 64, 65, 128, 129] + ([] if quick else [255, 256, 257, 1024])
    for d in delays:
        for st in ("fb", "ff", "tau"):
            for orderkind in ("seq", "rr", "rand"):
                if quick and d > 8 and orderkind == "seq" and st == "tau":
                    continue
                cases.append(_combhist(rng, st, d, rng.randint(2, 3), orderkind, flavs))
    for _ in range(10 if quick else 200):
        cases.append(_combhist(rng, rng.choice(["fb", "ff", "tau"]), rng.choice([1, 2, 3, 4, 7, 16, 64, 65, 100]),
                               rng.randint(1, 4), rng.choice(["seq", "rr", "rand"]), flavs))
    # constant designs run for a long time
    b = _b()
    for n in ((2000, 5000) if quick else (2000, 5000, 20000)):
        for band in ("lowpass", "highpass"):
            for st in LP:
                cases.append({"entry": "run", "design": {"entry": band, "strategy": st, "cutoff": _f(b._rand_freq(rng))},
                              "sig": {"kind": rng.choice(["impulse", "lcg"]), "n": n, "seed": n},
                              "flav": rng.choice(flavs)})
        for st in RES:
            cases.append({"entry": "run", "design": {"entry": "resonator", "strategy": st, "freq": _f(0.2 + rng.random() * 2.7),
                                                      "bandwidth": _f(0.01 + rng.random() * 0.9)},
                          "sig": {"kind": rng.choice(["impulse", "lcg"]), "n": n, "seed": n + 1}, "flav": rng.choice(flavs)})
        for st in ("slaney", "klapuri", "sampled"):
            d = {"entry": "gammatone", "strategy": st, "freq": _f(0.3 + rng.random() * 2.5), "bandwidth": _f(0.05 + rng.random() * 0.9)}
            if st == "sampled":
                d["phase"] = _f(rng.choice([0.0, 0.5]))
                d["eta"] = rng.randint(1, 4)
            cases.append({"entry": "run", "design": d, "sig": {"kind": "impulse", "n": min(n, 5000)}, "flav": "list"})
    return cases


def _combhist(rng, st, d, nruns, orderkind, flavs):
    p, t = (rng.choice([(float(d), "float"), (2 * d, "int"), (300.0, "float")]) if st == "tau"
            else rng.choice([(0.5, "float"), (0.5, "frac"), (-0.75, "float"), (1, "int"), (-1, "int"), (0.25, "frac")]))
    runs = [{"sig": {"kind": rng.choice(["impulse", "lcg", "ramp"]), "n": rng.randint(d, 2 * d + 4), "seed": rng.randint(0, 99)},
             "flav": rng.choice(flavs)} for _ in range(nruns)]
    order = []
    if orderkind == "seq":
        for k, r in enumerate(runs):
            order += [k] * r["sig"]["n"]
    elif orderkind == "rr":
        for i in range(max(r["sig"]["n"] for r in runs)):
            order += [k for k, r in enumerate(runs) if i < r["sig"]["n"]]
    else:
        order = [k for k, r in enumerate(runs) for _ in range(r["sig"]["n"])]
        rng.shuffle(order)
    if nruns > 1 and rng.random() < 0.4:
        # other filter objects of the same strategy and delay (same keys, other coefficients) among the runs
        for r in runs[1:]:
            if rng.random() < 0.7:
                q = rng.choice([3.0 * d, 0.5 * d + 1]) if st == "tau" else rng.choice([0.25, -0.5, 0.875, -1.0])
                r["param"], r["ptype"] = _f(q), "float"
    c = {"entry": "combhist", "strategy": st, "delay": d, "param": _f(p), "ptype": t, "runs": runs,
         "orderkind": orderkind, "order": order}
    if rng.random() < 0.15:
        c["dtype"] = "float"
    return c


# ----------------------------------------------------------------------------------------------
# shrinking
# ----------------------------------------------------------------------------------------------
def shrink_hist(c):
    b = _b()
    out = []
    ops = c["ops"]
    # fewer steps
    for t in range(len(ops) - 1, -1, -1):
        if ops[t][0] != "build" or not any(o[0] == "take" and o[1] == ops[t][1] for o in ops):
            out.append(dict(c, ops=ops[:t] + ops[t + 1:]))
    # builds first
    blds = [o for o in ops if o[0] == "build"]
    rest = [o for o in ops if o[0] != "build"]
    if ops != blds + rest:
        out.append(dict(c, ops=blds + rest))
    # fewer designs
    for j in range(len(c["dsgs"])):
        ren = {k: (k if k < j else k - 1) for k in range(len(c["dsgs"])) if k != j}
        nops = [([o[0], ren[o[1]]] if o[0] != "set" else o) for o in ops if o[0] == "set" or o[1] != j]
        out.append(_drop_unused(dict(c, dsgs=c["dsgs"][:j] + c["dsgs"][j + 1:], ops=nops)))
    # an object replaced by its first value / simpler flavour / fewer, simpler values
    for j, d in enumerate(c["dsgs"]):
        for w in ("p1", "p2"):
            i = _src_of(d[w])
            if i is not None:
                nd = dict(d, **{w: {"const": c["srcs"][i]["vals"][0], "type": "float"}})
                out.append(_drop_unused(dict(c, dsgs=c["dsgs"][:j] + [nd] + c["dsgs"][j + 1:])))
            elif d[w].get("type", "float") not in ("float", "int") or (d[w].get("type") == "int" and _roles(d)[0 if w == "p1" else 1]):
                if d[w].get("type") != "float":
                    nd = dict(d, **{w: dict(d[w], type="float")})
                    out.append(dict(c, dsgs=c["dsgs"][:j] + [nd] + c["dsgs"][j + 1:]))
        for w, role in zip(("p1", "p2"), _roles(d)):
            if role and "const" in d[w]:
                for r in b._simpler(d[w]["const"]):
                    if (1e-3 <= r <= 3.14 if role == "freq" else 1e-3 <= r <= 1 if role == "bw" else r > 0 if role == "tau" else True):
                        nd = dict(d, **{w: dict(d[w], const=_f(r))})
                        out.append(dict(c, dsgs=c["dsgs"][:j] + [nd] + c["dsgs"][j + 1:]))
        if d["kind"] == "comb" and d["delay"] > 1:
            for nd_ in (1, d["delay"] // 2, d["delay"] - 1):
                if 1 <= nd_ < d["delay"]:
                    out.append(dict(c, dsgs=c["dsgs"][:j] + [dict(d, delay=nd_)] + c["dsgs"][j + 1:]))
        if d.get("dtype") == "float":
            out.append(dict(c, dsgs=c["dsgs"][:j] + [{k: v for k, v in d.items() if k != "dtype"}] + c["dsgs"][j + 1:]))
    order = ["ctrl", "Stream", "list", "tuple", "gen", "iter", "thub", "sub"]
    for i, s in enumerate(c["srcs"]):
        def with_src(ns, i=i):
            return dict(c, srcs=c["srcs"][:i] + [ns] + c["srcs"][i + 1:])
        if len(s["vals"]) > 1:
            out.append(with_src(dict(s, vals=s["vals"][:-1])))
            out.append(with_src(dict(s, vals=s["vals"][1:])))
        for fl in order[:order.index(s["flav"])]:
            if PY_FLAV[fl] == PY_FLAV[s["flav"]]:
                out.append(with_src(dict(s, flav=fl)))
        for k, v in enumerate(s["vals"]):
            for r in b._simpler(v):
                if 1e-3 <= r <= 3.14:
                    out.append(with_src(dict(s, vals=s["vals"][:k] + [_f(r)] + s["vals"][k + 1:])))
    for t, o in enumerate(ops):
        if o[0] == "set":
            for r in b._simpler(o[2]):
                if 1e-3 <= r <= 3.14:
                    out.append(dict(c, ops=ops[:t] + [["set", o[1], _f(r)]] + ops[t + 1:]))
    seen = set()
    for x in out:
        if valid(x):
            k = repr(x)
            if k not in seen:
                seen.add(k)
                yield x


def _shrink_sig(sig, floor=1):
    n = sig["n"]
    for m in (floor, n // 2, n - 1):
        if floor <= m < n:
            yield dict(sig, n=m)
    if sig["kind"] != "impulse":
        yield {"kind": "impulse", "n": n}


def shrink_comb_sig(c):
    d = c["delay"]
    for nd in (1, d // 2, d - 1):
        if 1 <= nd < d:
            n = min(c["sig"]["n"], 2 * nd + 3)
            yield dict(c, delay=nd, sig=dict(c["sig"], n=n))
    for s in _shrink_sig(c["sig"], 1):
        yield dict(c, sig=s)
    for m in (d + 1, d + 2):
        if m < c["sig"]["n"]:
            yield dict(c, sig=dict(c["sig"], n=m))


def _order_for(runs, kind, old=None):
    order = []
    for k, r in enumerate(runs):
        order += [k] * r["sig"]["n"]
    return order


def shrink_combhist(c):
    runs = c["runs"]
    d = c["delay"]
    for k in range(len(runs)):
        if len(runs) > 1:
            nr = runs[:k] + runs[k + 1:]
            ren = {i: (i if i < k else i - 1) for i in range(len(runs)) if i != k}
            yield dict(c, runs=nr, order=[ren[i] for i in c["order"] if i != k])
    if c["order"] != _order_for(runs, "seq"):
        yield dict(c, order=_order_for(runs, "seq"), orderkind="seq")
    for nd in (1, d // 2, d - 1):
        if 1 <= nd < d:
            yield dict(c, delay=nd)
    for k, r in enumerate(runs):
        for s in _shrink_sig(r["sig"], 1):
            nr = runs[:k] + [dict(r, sig=s)] + runs[k + 1:]
            # keep the interleaving: drop the surplus pulls of run k
            left = s["n"]
            order = []
            for i in c["order"]:
                if i == k:
                    if left == 0:
                        continue
                    left -= 1
                order.append(i)
            yield dict(c, runs=nr, order=order)
        if r.get("flav", "list") != "list":
            yield dict(c, runs=runs[:k] + [dict(r, flav="list")] + runs[k + 1:])
        if "param" in r:
            yield dict(c, runs=runs[:k] + [{x: y for x, y in r.items() if x not in ("param", "ptype")}] + runs[k + 1:])
    if c.get("ptype", "float") != "float":
        yield dict(c, ptype="float")
    if c.get("dtype") == "float":
        yield {k: v for k, v in c.items() if k != "dtype"}


def shrink_run(c):
    b = _b()
    for s in _shrink_sig(c["sig"], 1):
        yield dict(c, sig=s)
    if c.get("flav", "list") != "list":
        yield dict(c, flav="list")
    d = c["design"]
    for k in ("cutoff", "freq", "bandwidth"):
        if k in d:
            for v in b._simpler(d[k]):
                if (1e-3 <= v <= 3.14) if k != "bandwidth" else (1e-3 <= v <= 1):
                    yield dict(c, design=dict(d, **{k: _f(v)}))


# ----------------------------------------------------------------------------------------------
# histograms
# ----------------------------------------------------------------------------------------------
def _bucket(n, edges=(1, 2, 4, 8, 16, 64, 300, 1100, 5000)):
    for e in edges:
        if n <= e:
            return "<=%d" % e
    return ">%d" % edges[-1]


def delay_class(d):
    if d <= 12:
        return "1..12"
    if d & (d - 1) == 0:
        return "power of two >= 16"
    if (d + 1) & d == 0 or (d - 1) & (d - 2) == 0:
        return "power of two +-1"
    return "13..300" if d <= 300 else "301..1100" if d <= 1100 else ">1100"


def tally_hist(eng, c, io):
    eng.count("hist_designs", len(c["dsgs"]))
    for d in c["dsgs"]:
        eng.count("hist_call_shape", {"kw": "strategy, all-keyword", "default": "StrategyDict called directly (default strategy)"}.get(
            d.get("call"), "strategy, positional"))
    eng.count("hist_steps", _bucket(len(c["ops"]), (4, 8, 16, 32)))
    eng.count("hist_non_Stream_iterable_argument", "refused today (TypeError)" if outside(c, True) else
              "accepted today" if outside(c) else "none")
    if not c["srcs"]:
        eng.count("hist_shared_object", "none (numbers only)")
    for i, s in enumerate(c["srcs"]):
        u = uses(c, i)
        eng.count("hist_shared_object", "%s used by %s design argument%s" % (s["flav"], u if u < 3 else "3+", "" if u == 1 else "s"))
        eng.count("hist_object_values", _bucket(len(s["vals"]), (1, 2, 3, 4)))
        kinds = sorted({d["kind"] + "." + str(d.get("strategy", "")) for d in c["dsgs"] for w in ("p1", "p2") if _src_of(d[w]) == i})
        eng.count("hist_sharing", "same strategy" if len(kinds) == 1 and u > 1 else "different strategies" if u > 1 else "not shared")
    ts = [d[w].get("type") for d in c["dsgs"] for w, r in zip(("p1", "p2"), _roles(d)) if r and "const" in d[w]]
    for t in ts:
        eng.count("hist_number_type", t)
    if len(set(ts)) > 1:
        eng.count("hist_number_type", "mixed types in one history")
    if any(o[0] == "set" for o in c["ops"]):
        eng.count("hist_control_changes", _bucket(sum(1 for o in c["ops"] if o[0] == "set"), (1, 2, 4, 8)))
    first_take = next((t for t, o in enumerate(c["ops"]) if o[0] == "take"), None)
    if any(o[0] == "build" for o in c["ops"][first_take:]):
        eng.count("hist_pattern", "a design built after another was used")
    tk = [o[1] for o in c["ops"] if o[0] == "take"]
    if any(tk[i] != tk[i + 1] for i in range(len(tk) - 1)) and len(set(tk)) > 1:
        eng.count("hist_pattern", "interleaved instants")
    if any(a["flav"] == b_["flav"] and a["vals"] == b_["vals"] for i, a in enumerate(c["srcs"]) for b_ in c["srcs"][i + 1:]):
        eng.count("hist_pattern", "two equal but distinct parameter objects")
    if any(d.get("bad") for d in c["dsgs"]):
        eng.count("hist_pattern", "a call that raises (%s) among the builds" % next(d["bad"] for d in c["dsgs"] if d.get("bad")))
    if any(st.get("err") for st in io.get("steps", [])):
        eng.count("hist_impl_error", next(st["err"] for st in io["steps"] if st.get("err")))


def tally_long(eng, c, io):
    e = c["entry"]
    if e == "comb":
        eng.count("comb_delay_class", delay_class(c["delay"]))
        eng.count("comb_signal", (c["sig"]["kind"] if "sig" in c else "explicit") + " n" + _bucket(len(xs_of(c))))
    elif e == "combhist":
        eng.count("comb_delay_class", delay_class(c["delay"]))
        eng.count("combhist_runs", len(c["runs"]))
        eng.count("combhist_filter_objects", 1 + len({repr((r["param"], r.get("ptype"))) for r in c["runs"] if "param" in r}))
        eng.count("combhist_order", c.get("orderkind", "?"))
        eng.count("combhist_param_type", c.get("ptype", "float") + ("/float delay" if c.get("dtype") == "float" else ""))
        for r in c["runs"]:
            eng.count("combhist_input_flavour", r.get("flav", "list"))
    else:
        eng.count("run_length", _bucket(c["sig"]["n"], (2000, 5000, 20000)))
        eng.count("run_input_flavour", c.get("flav", "list"))
