"""C10 — source translator: reads the BODIES of the anchored functions of the property

    lazy_analysis.py : acorr, lag_matrix
    lazy_lpc.py      : toeplitz, levinson_durbin (with its closure `inner`), lpc.kautocor, lpc.kcovar (with `inner`)

from the repo under test with `ast` (nothing is imported from the repo) and writes them as Lean definitions in the vocabulary
of `lean/ALV/Model/C10Py.lean` to `lean/ALV/Gen/C10Src.lean`.  `ALV.Props.C10.src_*_is_model` prove each emitted definition
equal to the hand-written model function the other theorems are about.

Accepted subset (anything else in a translated function is a TranslationError = broken obligation):
  * parameters `(data)` or `(data, p=None)`; the prologue `if p is None: p = e` with an optional `elif c: raise E(..)` /
    `elif c: v = e`;  straight-line `v = e`, `v -= c * w`, `v += c * w`, `v += 1`, `v.append(e)`, `v.error = e`, `return e`;
  * `for v in xrange(..): ..` over straight-line statements; `while True:` with one `if c: ..; return v` exit and a counter
    incremented by one as last statement; `try: .. except ZeroDivisionError: raise E(..)`; `if c: raise E(..)`;
  * a nested `def f(a, b): return e` (a closure: the free variables are passed at every call);
  * expressions: int constants, names, `+ - *` (ints; numbers), `/` (numbers: an action that raises on a zero divisor),
    unary minus, comparisons, `or` / `and`, `len`, `abs`, `sum`, `xrange` (1 or 2 arguments), `enumerate`, subscripts,
    list comprehensions / generator expressions with one or two `for`s, calls of translated functions, and the filter
    vocabulary `ZFilter(1)`, `z ** -e`, `A(1 / z) * z ** -e`, `.numlist`, `z ** -e - sum(g[q] * B[q] for q in xrange(m))`,
    `Stream(x).append(0).take(e)`.
Docstrings, comments, whitespace and the messages of exceptions are not part of the translation."""
import ast
import os
import re
import warnings

import common

GEN_REL = os.path.join("ALV", "Gen", "C10Src.lean")
# (file, [(qualified python name, lean name)]) in emission order; "lpc.X" = the function decorated `@lpc.strategy("X", ..)`
WANT = [
    ("lazy_analysis.py", [("acorr", "acorr"), ("lag_matrix", "lag_matrix")]),
    ("lazy_lpc.py", [("toeplitz", "toeplitz"), ("levinson_durbin", "levinson_durbin"), ("lpc.kautocor", "lpc_kautocor"),
                     ("lpc.kcovar", "lpc_kcovar")]),
]
STRATEGY_DICT = "lpc"
LEAN_RESERVED = {"fun", "let", "do", "if", "then", "else", "match", "with", "at", "from", "in", "end", "open", "def",
                 "theorem", "where", "have", "show", "by", "pure", "throw", "some", "none", "len", "xrange", "xrange2", "idx",
                 "row", "pyabs", "pysum", "enumerate", "numlist", "pydiv", "filtOne", "zdelay", "flipDelay", "filtSubMul",
                 "filtAddMul", "zdelaySubComb", "streamAppend0Take", "unstable", "fuel", "loop", "α"}
LEAN_TYPE = {"int": "Int", "num": "α", "list": "List α", "filt": "List α", "table": "List (List α)",
             "filts": "List (List α)", "optint": "Option Int", "filt+err": "List α × α"}


class TranslationError(Exception):
    pass


def _fail(node, why):
    raise TranslationError("line %s: %s" % (getattr(node, "lineno", "?"), why))


def _ident(name):
    if not (name.isidentifier() and name.isascii()):
        raise TranslationError("unexpected identifier %r" % (name,))
    return name + "_" if name in LEAN_RESERVED else name


def _atom(s):
    return s if (s.replace("_", "a").replace(".", "a").isalnum() or (s[0] == "(" and s[-1] == ")" and _balanced(s))) \
        else "(" + s + ")"


def _balanced(s):
    d = 0
    for k, ch in enumerate(s):
        d += ch == "("
        d -= ch == ")"
        if d == 0 and k < len(s) - 1:
            return False
    return d == 0


def _is_name(n, ident):
    return isinstance(n, ast.Name) and n.id == ident


def _int_const(n):
    return isinstance(n, ast.Constant) and type(n.value) is int


class Sig(object):
    def __init__(self, lean, params, ret, monadic, captures=(), ordered=False):
        self.lean, self.params, self.ret, self.monadic = lean, params, ret, monadic
        self.captures = list(captures)
        self.captures_ty = {}
        self.ordered = ordered        # the body compares numbers: the function takes the predicates as parameters


class FnTr(object):
    """translation of one function body"""

    def __init__(self, node, lean, known, outer=None, captures_env=None):
        self.node, self.lean, self.known = node, lean, dict(known)
        self.outer = outer
        self.monadic = False
        self.div_exc = "ZeroDivisionError"
        self.nested = []              # emitted text of nested defs
        self.local = {}               # name -> Sig of nested defs
        self.captures_env = captures_env or {}
        self.captures = []
        self.preds = []               # number comparisons met: [(lean name, text of the Lean predicate)]
        self.error_attr = {}          # filter variable -> lean name of its `.error`

    # ---------------------------------------------------------------- expressions
    def need_monad(self):
        self.monadic = True

    def name(self, n, env):
        if n.id in env:
            return env[n.id]
        if n.id in self.captures_env:
            if n.id not in self.captures:
                self.captures.append(n.id)
            return self.captures_env[n.id]
        _fail(n, "unknown name %r" % n.id)

    def num_or_int(self, n, env, want):
        """an int literal where a number is wanted becomes a number literal"""
        if want == "num" and _int_const(n) and n.value in (0, 1):
            return "(%d : α)" % n.value, "num"
        if (want == "num" and isinstance(n, ast.UnaryOp) and isinstance(n.op, ast.USub) and _int_const(n.operand)
                and n.operand.value in (0, 1)):
            return "(-%d : α)" % n.operand.value, "num"
        return self.expr(n, env)

    def expr(self, n, env):
        """-> (lean text, type)"""
        if isinstance(n, ast.Constant):
            if type(n.value) is int and n.value >= 0:
                return str(n.value), "int"
            _fail(n, "constant %r" % (n.value,))
        if isinstance(n, ast.Name):
            return self.name(n, env)
        if isinstance(n, ast.UnaryOp) and isinstance(n.op, ast.USub):
            t, ty = self.expr(n.operand, env)
            if ty not in ("int", "num"):
                _fail(n, "unary minus on %s" % ty)
            return "-" + _atom(t), ty
        if isinstance(n, ast.BinOp):
            return self.binop(n, env)
        if isinstance(n, ast.Compare):
            return self.compare(n, env)
        if isinstance(n, ast.BoolOp):
            parts = [self.expr(v, env) for v in n.values]
            if any(ty != "bool" for _, ty in parts):
                _fail(n, "and/or of non-comparisons")
            op = " ∨ " if isinstance(n.op, ast.Or) else " ∧ "
            return op.join(_atom(t) for t, _ in parts), "bool"
        if isinstance(n, ast.Subscript):
            base, bty = self.expr(n.value, env)
            i, ity = self.expr(n.slice, env)
            if ity != "int":
                _fail(n, "subscript by %s" % ity)
            if bty == "list":
                return "idx %s %s" % (_atom(base), _atom(i)), "num"
            if bty == "table":
                return "row %s %s" % (_atom(base), _atom(i)), "list"
            if bty == "filts":
                return "row %s %s" % (_atom(base), _atom(i)), "filt"
            _fail(n, "subscript of %s" % bty)
        if isinstance(n, ast.Attribute):
            if n.attr == "numlist":
                t, ty = self.expr(n.value, env)
                if ty != "filt":
                    _fail(n, ".numlist of %s" % ty)
                return "numlist " + _atom(t), "list"
            _fail(n, "attribute .%s" % n.attr)
        if isinstance(n, (ast.ListComp, ast.GeneratorExp)):
            return self.comprehension(n, env)
        if isinstance(n, ast.List) and len(n.elts) == 1:
            t, ty = self.expr(n.elts[0], env)
            out = {"num": "list", "filt": "filts", "list": "table"}.get(ty)
            if out is None:
                _fail(n, "list display of %s" % ty)
            return "[%s]" % t, out
        if isinstance(n, ast.Call):
            return self.call(n, env)
        _fail(n, "expression not in the subset: %s" % type(n).__name__)

    def zdelay(self, n, env):
        """`z ** -e` -> lean text of e, else None"""
        if (isinstance(n, ast.BinOp) and isinstance(n.op, ast.Pow) and _is_name(n.left, "z") and "z" not in env
                and isinstance(n.right, ast.UnaryOp) and isinstance(n.right.op, ast.USub)):
            t, ty = self.expr(n.right.operand, env)
            if ty != "int":
                _fail(n, "z ** -(%s)" % ty)
            return t
        return None

    def binop(self, n, env):
        d = self.zdelay(n, env)
        if d is not None:
            return "zdelay %s" % _atom(d), "filt"
        if isinstance(n.op, ast.Mult):
            # A(1 / z) * z ** -e
            d = self.zdelay(n.right, env)
            l = n.left
            if (d is not None and isinstance(l, ast.Call) and isinstance(l.func, ast.Name) and len(l.args) == 1
                    and not l.keywords and isinstance(l.args[0], ast.BinOp) and isinstance(l.args[0].op, ast.Div)
                    and _int_const(l.args[0].left) and l.args[0].left.value == 1 and _is_name(l.args[0].right, "z")):
                f, fty = self.name(l.func, env)
                if fty != "filt":
                    _fail(n, "call of a %s" % fty)
                return "flipDelay %s %s" % (_atom(f), _atom(d)), "filt"
        if isinstance(n.op, ast.Sub):
            # z ** -e - sum(g[q] * B[q] for q in xrange(m))
            d = self.zdelay(n.left, env)
            r = n.right
            if d is not None:
                ok = (isinstance(r, ast.Call) and _is_name(r.func, "sum") and len(r.args) == 1 and not r.keywords
                      and isinstance(r.args[0], ast.GeneratorExp) and len(r.args[0].generators) == 1)
                if ok:
                    g = r.args[0].generators[0]
                    e = r.args[0].elt
                    ok = (isinstance(g.target, ast.Name) and not g.ifs and isinstance(g.iter, ast.Call)
                          and isinstance(g.iter.func, ast.Name) and g.iter.func.id in ("xrange", "range")
                          and len(g.iter.args) == 1 and isinstance(e, ast.BinOp) and isinstance(e.op, ast.Mult)
                          and all(isinstance(s, ast.Subscript) and isinstance(s.value, ast.Name)
                                  and _is_name(s.slice, g.target.id) for s in (e.left, e.right)))
                if not ok:
                    _fail(n, "filter difference not in the vocabulary")
                m, mty = self.expr(g.iter.args[0], env)
                gl, gty = self.name(e.left.value, env)
                bl, bty = self.name(e.right.value, env)
                if (mty, gty, bty) != ("int", "list", "filts"):
                    _fail(n, "filter combination of %s %s %s" % (mty, gty, bty))
                return "zdelaySubComb %s %s %s %s" % (_atom(d), _atom(m), _atom(gl), _atom(bl)), "filt"
        l, lty = self.expr(n.left, env)
        r, rty = self.expr(n.right, env)
        if isinstance(n.op, (ast.Add, ast.Sub, ast.Mult)) and lty == rty and lty in ("int", "num"):
            op = {ast.Add: "+", ast.Sub: "-", ast.Mult: "*"}[type(n.op)]
            # Python and Lean agree on precedence and left association of + - *: only atoms need no parentheses
            lt = l if (isinstance(n.left, ast.BinOp) and type(n.left.op) in (ast.Mult,) and op == "*") else _atom(l)
            return "%s %s %s" % (lt, op, _atom(r)), lty
        if isinstance(n.op, ast.Div) and lty == "num" and rty == "num":
            self.need_monad()
            return '(← pydiv "%s" %s %s)' % (self.div_exc, _atom(l), _atom(r)), "num"
        _fail(n, "operator %s on %s, %s" % (type(n.op).__name__, lty, rty))

    def compare(self, n, env):
        if len(n.ops) != 1:
            _fail(n, "chained comparison")
        ops = {ast.GtE: "≥", ast.LtE: "≤", ast.Gt: ">", ast.Lt: "<", ast.Eq: "=", ast.NotEq: "≠"}
        if type(n.ops[0]) not in ops:
            _fail(n, "comparison %s" % type(n.ops[0]).__name__)
        l, lty = self.expr(n.left, env)
        r, rty = self.num_or_int(n.comparators[0], env, lty)
        if lty == "int" and rty == "int":
            return "%s %s %s" % (_atom(l), ops[type(n.ops[0])], _atom(r)), "bool"
        if lty == "num" and rty == "num":
            # the carrier of the model is any field: an order comparison of numbers is a parameter of the emitted function,
            # and its TEXT (operator and constant as in the source) is emitted beside it
            nm = "cmp%d" % len(self.preds)
            cls = "LE" if type(n.ops[0]) in (ast.GtE, ast.LtE) else "LT" if type(n.ops[0]) in (ast.Gt, ast.Lt) else None
            if cls is None:
                _fail(n, "equality test of numbers")
            self.preds.append((nm, "fun x => decide (x %s %s)" % (ops[type(n.ops[0])], _atom(r)), cls))
            if not isinstance(n.left, ast.Name):
                _fail(n, "comparison of a compound number")
            return "%s %s = true" % (nm, _atom(l)), "bool"
        _fail(n, "comparison of %s with %s" % (lty, rty))

    def iterator(self, it, env):
        """-> (lean list text, element pattern types)"""
        if isinstance(it, ast.Call) and isinstance(it.func, ast.Name) and not it.keywords:
            f = it.func.id
            if f in ("xrange", "range") and f not in env and len(it.args) in (1, 2):
                args = [self.expr(a, env) for a in it.args]
                if any(ty != "int" for _, ty in args):
                    _fail(it, "xrange of a non-int")
                return "%s %s" % ("xrange" if len(args) == 1 else "xrange2", " ".join(_atom(t) for t, _ in args)), ["int"]
            if f == "enumerate" and f not in env and len(it.args) == 1:
                t, ty = self.expr(it.args[0], env)
                if ty != "list":
                    _fail(it, "enumerate of %s" % ty)
                return "enumerate " + _atom(t), ["int", "num"]
        _fail(it, "iterable not in the subset")

    def comprehension(self, n, env):
        gens = n.generators
        if not 1 <= len(gens) <= 2 or any(g.ifs or getattr(g, "is_async", 0) for g in gens):
            _fail(n, "comprehension shape")
        env = dict(env)
        heads = []
        for g in gens:
            lst, tys = self.iterator(g.iter, env)
            tg = g.target
            names = [tg] if isinstance(tg, ast.Name) else list(tg.elts) if isinstance(tg, ast.Tuple) else None
            if names is None or len(names) != len(tys) or not all(isinstance(x, ast.Name) for x in names):
                _fail(n, "comprehension target")
            ids = [_ident(x.id) for x in names]
            for x, i, ty in zip(names, ids, tys):
                env[x.id] = (i, ty)
            heads.append((lst, ids[0] if len(ids) == 1 else "(%s)" % ", ".join(ids)))
        before = self.monadic
        self.monadic = False
        elt, ety = self.expr(n.elt, env)
        used = self.monadic
        self.monadic = before or used
        out = {"num": "list", "list": "table", "filt": "filts"}.get(ety)
        if out is None:
            _fail(n, "comprehension of %s" % ety)
        if used:
            if len(heads) != 1:
                _fail(n, "division inside a two-level comprehension")
            return "(← (%s).mapM fun %s => do pure (%s))" % (heads[0][0], heads[0][1], elt), out
        if len(heads) == 1:
            return "(%s).map fun %s => %s" % (heads[0][0], heads[0][1], elt), out
        return "(%s).flatMap fun %s => (%s).map fun %s => %s" % (heads[0][0], heads[0][1], heads[1][0], heads[1][1], elt), out

    def call(self, n, env):
        f = n.func
        if n.keywords:
            _fail(n, "keyword arguments")
        if isinstance(f, ast.Name) and f.id not in env:
            if f.id == "len" and len(n.args) == 1:
                t, ty = self.expr(n.args[0], env)
                if ty not in ("list", "table", "filts"):
                    _fail(n, "len of %s" % ty)
                return "len " + _atom(t), "int"
            if f.id == "abs" and len(n.args) == 1:
                t, ty = self.expr(n.args[0], env)
                if ty != "int":
                    _fail(n, "abs of %s" % ty)
                return "pyabs " + _atom(t), "int"
            if f.id == "sum" and len(n.args) == 1:
                t, ty = self.expr(n.args[0], env)
                if ty != "list":
                    _fail(n, "sum of %s" % ty)
                return "pysum " + _atom(t), "num"
            if f.id == "ZFilter" and len(n.args) == 1 and _int_const(n.args[0]) and n.args[0].value == 1:
                return "filtOne", "filt"
            sig = self.local.get(f.id) or self.known.get(f.id)
            if sig is not None:
                return self.apply(n, sig, env)
        # lpc.kautocor(..) is not used inside the translated functions; Stream(x).append(0).take(e):
        if (isinstance(f, ast.Attribute) and f.attr == "take" and len(n.args) == 1 and isinstance(f.value, ast.Call)
                and isinstance(f.value.func, ast.Attribute) and f.value.func.attr == "append"
                and len(f.value.args) == 1 and _int_const(f.value.args[0]) and f.value.args[0].value == 0
                and not f.value.keywords and isinstance(f.value.func.value, ast.Call)
                and _is_name(f.value.func.value.func, "Stream") and len(f.value.func.value.args) == 1
                and not f.value.func.value.keywords):
            x, xty = self.expr(f.value.func.value.args[0], env)
            e, ety = self.expr(n.args[0], env)
            if (xty, ety) != ("list", "int"):
                _fail(n, "Stream(%s).append(0).take(%s)" % (xty, ety))
            return "streamAppend0Take %s %s" % (_atom(x), _atom(e)), "list"
        _fail(n, "call not in the vocabulary")

    def apply(self, n, sig, env):
        if len(n.args) != len(sig.params) or sig.ordered:
            _fail(n, "call of %s with %d arguments" % (sig.lean, len(n.args)))
        args = []
        for c in sig.captures:
            if c not in env:
                _fail(n, "closure variable %r unbound at the call" % c)
            if env[c][1] != sig.captures_ty[c]:
                _fail(n, "closure variable %r changed its kind" % c)
            args.append(env[c][0])
        for a, (_, pty) in zip(n.args, sig.params):
            if pty == "optint" and isinstance(a, ast.Name) and a.id in env and env[a.id][1] == "optint":
                args.append(env[a.id][0])
                continue
            t, ty = self.expr(a, env)
            if ty != pty:
                _fail(n, "argument of kind %s where %s is expected" % (ty, pty))
            args.append(_atom(t))
        text = "%s %s" % (sig.lean, " ".join(args))
        if sig.monadic:
            self.need_monad()
            text = "(← %s)" % text
        return text, sig.ret

    # ---------------------------------------------------------------- statements
    def ret(self, text):
        return "pure (%s)" % text if self.monadic else text

    def exc_name(self, raise_node):
        e = raise_node.exc
        if isinstance(e, ast.Call):
            e = e.func
        if not isinstance(e, ast.Name) or raise_node.cause is not None:
            _fail(raise_node, "raise of something else than an exception class")
        return e.id

    def prologue(self, st, env, out, ind):
        """if p is None: p = e  [elif c: raise E | elif c: v = e]"""
        p = st.test.left.id
        pl, _ = env[p]

        def simple(body, env_b):
            if len(body) != 1:
                _fail(st, "prologue branch with %d statements" % len(body))
            s = body[0]
            if isinstance(s, ast.Raise):
                self.need_monad()
                return None, 'throw "%s"' % self.exc_name(s)
            if isinstance(s, ast.Assign) and len(s.targets) == 1 and isinstance(s.targets[0], ast.Name):
                t, ty = self.expr(s.value, env_b)
                return (s.targets[0].id, t, ty), None
            _fail(s, "prologue statement")

        env_none = dict(env)
        del env_none[p]
        a_none, r_none = simple(st.body, env_none)
        if r_none or a_none[0] != p or a_none[2] != "int":
            _fail(st, "the None branch must give the parameter an int value")
        env_some = dict(env)
        env_some[p] = (pl, "int")
        branches = []           # (condition text, assign, raise)
        rest = st.orelse
        while rest:
            if len(rest) == 1 and isinstance(rest[0], ast.If):
                c, cty = self.expr(rest[0].test, env_some)
                if cty != "bool":
                    _fail(rest[0], "condition of kind %s" % cty)
                a, r = simple(rest[0].body, env_some)
                branches.append((c, a, r))
                rest = rest[0].orelse
            else:
                _fail(st, "else branch in the prologue")
        vs = [p] + [a[0] for _, a, _ in branches if a and a[0] != p]
        for v in vs[1:]:
            if v not in env:
                _fail(st, "prologue binds a new variable %r" % v)

        def tup(assign, e):
            vals = [assign[1] if assign and assign[0] == v else e[v][0] for v in vs]
            if assign and assign[0] != p and env[assign[0]][1] != assign[2]:
                _fail(st, "variable %r changes its kind" % assign[0])
            return vals[0] if len(vals) == 1 else "(%s)" % ", ".join(vals)

        some = self.ret(tup(None, env_some))
        for c, a, r in reversed(branches):
            some = "if %s then %s else %s" % (c, r if r else self.ret(tup(a, env_some)), some)
        pat = _ident(p) if len(vs) == 1 else "(%s)" % ", ".join(env[v][0] if v != p else pl for v in vs)
        out.append("%slet %s %s match %s with" % (ind, pat, "←" if self.monadic else ":=", pl))
        out.append("%s  | none => %s" % (ind, self.ret(tup(a_none, env_none | {p: ("?", "?")}))))
        out.append("%s  | some %s => %s" % (ind, pl, some))
        env[p] = (pl, "int")

    def assigned(self, stmts):
        out = []
        for s in stmts:
            for sub in ast.walk(s):
                t = None
                if isinstance(sub, ast.Assign) and len(sub.targets) == 1 and isinstance(sub.targets[0], ast.Name):
                    t = sub.targets[0].id
                elif isinstance(sub, ast.AugAssign) and isinstance(sub.target, ast.Name):
                    t = sub.target.id
                elif (isinstance(sub, ast.Expr) and isinstance(sub.value, ast.Call) and isinstance(sub.value.func, ast.Attribute)
                      and sub.value.func.attr == "append" and isinstance(sub.value.func.value, ast.Name)):
                    t = sub.value.func.value.id
                if t and t not in out:
                    out.append(t)
        return out

    def block(self, stmts, env, out, ind, tail):
        """straight-line statements; `tail(env)` gives the closing expression when no `return` ends the block"""
        for k, st in enumerate(stmts):
            last = k == len(stmts) - 1
            if isinstance(st, ast.Expr) and isinstance(st.value, ast.Constant) and isinstance(st.value.value, str):
                continue                                                        # docstring
            if isinstance(st, ast.Return):
                if not last or st.value is None:
                    _fail(st, "return in the middle / without a value")
                if isinstance(st.value, ast.Name) and st.value.id in self.error_attr:
                    t = "(%s, %s)" % (env[st.value.id][0], self.error_attr[st.value.id])
                    self.ret_ty = "filt+err"
                else:
                    t, self.ret_ty = self.expr(st.value, env)
                out.append(ind + self.ret(t))
                return
            if (isinstance(st, ast.If) and isinstance(st.test, ast.Compare) and len(st.test.ops) == 1
                    and isinstance(st.test.ops[0], ast.Is) and isinstance(st.test.left, ast.Name)
                    and isinstance(st.test.comparators[0], ast.Constant) and st.test.comparators[0].value is None):
                if st.test.left.id not in env or env[st.test.left.id][1] != "optint":
                    _fail(st, "`is None` on something else than a parameter with default None")
                self.prologue(st, env, out, ind)
                continue
            if isinstance(st, ast.If) and not st.orelse and len(st.body) == 1 and isinstance(st.body[0], ast.Raise):
                c, cty = self.expr(st.test, env)
                if cty != "bool":
                    _fail(st, "condition of kind %s" % cty)
                self.need_monad()
                out.append('%sif %s then throw "%s"' % (ind, c, self.exc_name(st.body[0])))
                continue
            if isinstance(st, ast.FunctionDef):
                self.nested_def(st, env)
                continue
            if isinstance(st, ast.Try):
                h = st.handlers
                if (st.orelse or st.finalbody or len(h) != 1 or not _is_name(h[0].type, "ZeroDivisionError") or h[0].name
                        or len(h[0].body) != 1 or not isinstance(h[0].body[0], ast.Raise)):
                    _fail(st, "try statement shape")
                old = self.div_exc
                self.div_exc = self.exc_name(h[0].body[0])
                self.block(st.body, env, out, ind, None)
                self.div_exc = old
                continue
            if isinstance(st, ast.Assign) and len(st.targets) == 1:
                tg = st.targets[0]
                if isinstance(tg, ast.Name):
                    t, ty = self.expr(st.value, env)
                    if tg.id in env and env[tg.id][1] != ty and (env[tg.id][1], ty) != ("optint", "int"):
                        _fail(st, "variable %r changes its kind (%s -> %s)" % (tg.id, env[tg.id][1], ty))
                    out.append("%slet %s := %s" % (ind, _ident(tg.id), t))
                    env[tg.id] = (_ident(tg.id), ty)
                    continue
                if (isinstance(tg, ast.Attribute) and tg.attr == "error" and isinstance(tg.value, ast.Name)
                        and tg.value.id in env and env[tg.value.id][1] == "filt"):
                    t, ty = self.expr(st.value, env)
                    if ty != "num":
                        _fail(st, ".error of kind %s" % ty)
                    nm = _ident(tg.value.id) + "_error"
                    out.append("%slet %s := %s" % (ind, nm, t))
                    self.error_attr[tg.value.id] = nm
                    continue
                _fail(st, "assignment target")
            if isinstance(st, ast.AugAssign) and isinstance(st.target, ast.Name) and st.target.id in env:
                v, vty = env[st.target.id]
                if vty == "int" and isinstance(st.op, ast.Add) and _int_const(st.value):
                    out.append("%slet %s := %s + %d" % (ind, v, v, st.value.value))
                    continue
                if (vty == "filt" and isinstance(st.op, (ast.Add, ast.Sub)) and isinstance(st.value, ast.BinOp)
                        and isinstance(st.value.op, ast.Mult)):
                    c, cty = self.expr(st.value.left, env)
                    b, bty = self.expr(st.value.right, env)
                    if (cty, bty) != ("num", "filt"):
                        _fail(st, "filter update by %s * %s" % (cty, bty))
                    f = "filtSubMul" if isinstance(st.op, ast.Sub) else "filtAddMul"
                    out.append("%slet %s := %s %s %s %s" % (ind, v, f, v, _atom(c), _atom(b)))
                    self.error_attr.pop(st.target.id, None)
                    continue
                _fail(st, "augmented assignment not in the subset")
            if (isinstance(st, ast.Expr) and isinstance(st.value, ast.Call) and isinstance(st.value.func, ast.Attribute)
                    and st.value.func.attr == "append" and isinstance(st.value.func.value, ast.Name)
                    and st.value.func.value.id in env and len(st.value.args) == 1 and not st.value.keywords):
                v, vty = env[st.value.func.value.id]
                t, ty = self.expr(st.value.args[0], env)
                if (vty, ty) not in (("filts", "filt"), ("list", "num")):
                    _fail(st, "append of %s to %s" % (ty, vty))
                out.append("%slet %s := %s ++ [%s]" % (ind, v, v, t))
                continue
            if isinstance(st, ast.For):
                self.for_loop(st, env, out, ind)
                continue
            if isinstance(st, ast.While):
                if not last:
                    _fail(st, "statements after `while True`")
                self.while_loop(st, env, out, ind)
                return
            _fail(st, "statement not in the subset: %s" % type(st).__name__)
        if tail is not None:
            out.append(ind + tail(env))

    def for_loop(self, st, env, out, ind):
        if st.orelse or not isinstance(st.target, ast.Name):
            _fail(st, "for loop shape")
        lst, tys = self.iterator(st.iter, env)
        if tys != ["int"]:
            _fail(st, "for over something else than xrange")
        carried = [v for v in self.assigned(st.body) if v in env]
        if not carried:
            _fail(st, "loop without effect")
        pat = env[carried[0]][0] if len(carried) == 1 else "(%s)" % ", ".join(env[v][0] for v in carried)
        tv = _ident(st.target.id)
        inner_env = dict(env)
        inner_env[st.target.id] = (tv, "int")
        self.need_monad()                     # the body is written as an action; a loop that cannot raise is still correct
        cty = " × ".join(LEAN_TYPE[env[v][1]] for v in carried)
        out.append("%slet %s ← (%s).foldlM (fun (%s : %s) (%s : Int) => do" % (ind, pat, lst, pat.strip("()"), cty, tv))
        kinds = {v: env[v][1] for v in carried}
        self.block(st.body, inner_env, out, ind + "    ", lambda e: "pure %s)" % pat)
        for v in carried:
            if inner_env[v][1] != kinds[v]:
                _fail(st, "loop variable %r changes its kind" % v)
        out[-1] = out[-1] + " " + pat

    def while_loop(self, st, env, out, ind):
        """while True: S..; if c: T..; return v;  S'..; m += 1   -- one exit, a counter incremented last.
        Emitted as a recursive function on a fuel argument; the fuel handed over is (bound - counter) + 1 read from the
        exit test `counter >= bound`, which the loop cannot outlive (the counter grows by one per pass)."""
        if not (isinstance(st.test, ast.Constant) and st.test.value is True) or st.orelse:
            _fail(st, "while loop other than `while True`")
        body = st.body
        exits = [k for k, s in enumerate(body) if isinstance(s, ast.If) and s.body and isinstance(s.body[-1], ast.Return)]
        if len(exits) != 1 or exits[0] == len(body) - 1:
            _fail(st, "while True needs exactly one `if c: ..; return v` before its last statement")
        ex = body[exits[0]]
        for s in body[:exits[0]] + body[exits[0] + 1:]:
            for sub in ast.walk(s):
                if isinstance(sub, (ast.Return, ast.Break, ast.Continue, ast.While, ast.For)):
                    _fail(sub, "control flow inside `while True` outside the subset")
        lastst = body[-1]
        t = ex.test
        if not (isinstance(lastst, ast.AugAssign) and isinstance(lastst.op, ast.Add) and _int_const(lastst.value)
                and lastst.value.value == 1 and isinstance(lastst.target, ast.Name)
                and isinstance(t, ast.Compare) and len(t.ops) == 1 and isinstance(t.ops[0], ast.GtE)
                and _is_name(t.left, lastst.target.id) and isinstance(t.comparators[0], ast.Name) and not ex.orelse):
            _fail(st, "the exit must be `if m >= bound:` and the last statement `m += 1`")
        cnt, bound = lastst.target.id, t.comparators[0].id
        if any(bound == v or cnt == v for v in self.assigned(body[:-1])):
            _fail(st, "counter or bound assigned inside the loop")
        if cnt not in env or bound not in env or env[cnt][1] != "int" or env[bound][1] != "int":
            _fail(st, "counter / bound are not ints")
        carried = [v for v in self.assigned(body) if v in env]
        pat = "(%s)" % ", ".join(env[v][0] for v in carried)
        self.need_monad()
        # the loop function is emitted as a separate definition, recursive on the fuel
        free = [v for v in env if v not in carried]
        self.loop_info = dict(carried=carried, free=free, env=dict(env))
        lines = []
        benv = dict(env)
        self.block(body[:exits[0]], benv, lines, "    ", None)
        c, cty = self.expr(ex.test, benv)
        lines.append("    if %s then" % c)
        self.block(ex.body, dict(benv), lines, "      ", None)
        lines.append("    else")
        benv2 = dict(benv)
        self.block(body[exits[0] + 1:], benv2, lines, "      ", lambda e: "%s_loop %%sfuel %s" % (self.lean, pat))
        for v in carried:
            if benv2[v][1] != env[v][1]:
                _fail(st, "loop variable %r changes its kind" % v)
        self.loop_lines = lines
        self.loop_pat = pat
        out.append("%s%s_loop %s((%s - %s).toNat + 1) %s" % (ind, self.lean, "%s", env[bound][0], env[cnt][0], pat))
        self.loop_call_index = len(out) - 1

    def nested_def(self, st, env):
        a = st.args
        if (a.vararg or a.kwarg or a.kwonlyargs or a.defaults or getattr(a, "posonlyargs", None) or st.decorator_list
                or st.name in env):
            _fail(st, "nested def signature")
        sub = FnTr(st, "%s_%s" % (self.lean, st.name), self.known, outer=self, captures_env=env)
        params = [(p.arg, "filt") for p in a.args]
        text, sig = sub.function(params)
        sig.captures_ty = {c: env[c][1] for c in sig.captures}
        self.nested.append(text)
        self.local[st.name] = sig

    def function(self, params):
        """-> (lean text, Sig)"""
        for attempt in (0, 1):
            start = self.monadic
            self.preds, self.captures, self.nested, self.local, self.error_attr = [], [], [], {}, {}
            self.loop_lines = None
            env = {p: (_ident(p), ty) for p, ty in params}
            out = []
            self.ret_ty = None
            self.block(self.node.body, env, out, "  ", None)
            if self.ret_ty is None:
                _fail(self.node, "no return")
            if self.monadic == start:
                break
        cap = [(self.captures_env[c][0], self.captures_env[c][1]) for c in self.captures]
        binders = "".join(" (%s : %s)" % (n, LEAN_TYPE[ty]) for n, ty in cap + [(_ident(p), ty) for p, ty in params])
        preds = "".join(" (%s : α → Bool)" % nm for nm, _, _ in self.preds)
        rty = LEAN_TYPE[self.ret_ty]
        texts = list(self.nested)
        if self.loop_lines is not None:
            li = self.loop_info
            words = set(re.findall(r"[A-Za-z_][A-Za-z_0-9]*", "\n".join(self.loop_lines)))
            li["free"] = [v for v in li["free"] if li["env"][v][0] in words]
            fb = "".join(" (%s : %s)" % (li["env"][v][0], LEAN_TYPE[li["env"][v][1]]) for v in li["free"])
            st_ty = " × ".join(LEAN_TYPE[li["env"][v][1]] for v in li["carried"])
            fixed = "".join(nm + " " for nm, _, _ in self.preds) + "".join(li["env"][v][0] + " " for v in li["free"])
            out[self.loop_call_index] = out[self.loop_call_index] % fixed
            self.loop_lines[-1] = self.loop_lines[-1] % fixed
            texts.append("def %s_loop%s%s : Nat → %s → Except String (%s)\n  | 0, _ => throw \"fuel\"\n  | fuel + 1, %s => do\n%s\n"
                         % (self.lean, preds, fb, st_ty, rty, self.loop_pat, "\n".join(self.loop_lines)))
        head = "def %s%s%s : %s :=%s" % (self.lean, preds, binders, "Except String (%s)" % rty if self.monadic else rty,
                                         " do" if self.monadic else "")
        texts.append(head + "\n" + "\n".join(out) + "\n")
        for nm, p, cls in self.preds:
            texts.append("/-- the comparison `%s` of %s as written in the source -/\ndef %s_%s [%s α] [DecidableRel (α := α) (· %s ·)] "
                         ": α → Bool := %s\n" % (nm, self.lean, self.lean, nm, cls, "≤" if cls == "LE" else "<", p))
        sig = Sig(self.lean, params, self.ret_ty, self.monadic, self.captures, bool(self.preds))
        sig.preds = list(self.preds)
        return "\n".join(texts), sig


def _strategy_name(dec):
    if (isinstance(dec, ast.Call) and isinstance(dec.func, ast.Attribute) and dec.func.attr == "strategy"
            and _is_name(dec.func.value, STRATEGY_DICT)):
        names = []
        for a in dec.args:
            if not (isinstance(a, ast.Constant) and isinstance(a.value, str)):
                raise TranslationError("strategy name is not a string literal")
            names.append(a.value)
        if names and not dec.keywords:
            return names
    return None


def find_functions(tree):
    """top-level defs by qualified name (`lpc.<first strategy name>` for a decorated strategy)"""
    found, strategies = {}, []
    for node in tree.body:
        if isinstance(node, ast.FunctionDef):
            q = node.name
            for dec in node.decorator_list:
                names = _strategy_name(dec)
                if names is None:
                    q = None
                    break
                q = "%s.%s" % (STRATEGY_DICT, names[0])
                strategies.append(names)
            if q is not None:
                if q in found:
                    raise TranslationError("two definitions of %s" % q)
                found[q] = node
    return found, strategies


def _params(node):
    a = node.args
    if a.vararg or a.kwarg or a.kwonlyargs or getattr(a, "posonlyargs", None):
        _fail(node, "%s: parameters outside the subset" % node.name)
    n, d = len(a.args), len(a.defaults)
    if not ((n, d) == (1, 0) or (n == 2 and d == 1 and isinstance(a.defaults[0], ast.Constant)
                                 and a.defaults[0].value is None)):
        _fail(node, "%s: signature is neither (data) nor (data, p=None)" % node.name)
    return [(a.args[0].arg, "list")] + ([(a.args[1].arg, "optint")] if n == 2 else [])


def translate(sources):
    """sources: {file name: text} -> text of lean/ALV/Gen/C10Src.lean"""
    known = {}
    parts = []
    names = []
    strategies = []
    for fname, wanted in WANT:
        with warnings.catch_warnings():
            warnings.simplefilter("ignore")          # invalid escape sequences in docstrings of the repo
            tree = ast.parse(sources[fname])
        found, strat = find_functions(tree)
        strategies += strat
        for q, lean in wanted:
            if q not in found:
                raise TranslationError("%s: function %s not found" % (fname, q))
            node = found[q]
            tr = FnTr(node, lean, known)
            text, sig = tr.function(_params(node))
            sig.captures_ty = {}
            known[q.split(".")[-1] if "." not in q else q] = sig
            if "." not in q:
                known[q] = sig
            parts.append("/-! `%s` of audiolazy/%s -/\n%s" % (q, fname, text))
            names.append(lean)
    head = ["/- GENERATED by harness/props/c10_tr.py from the function bodies of audiolazy/lazy_analysis.py (acorr, lag_matrix)",
            "   and audiolazy/lazy_lpc.py (toeplitz, levinson_durbin, lpc.kautocor, lpc.kcovar), read with `ast`.",
            "   Do not edit: rewritten on every check.  Vocabulary: ALV/Model/C10Py.lean. -/",
            "import ALV.Model.C10Py", "namespace ALV.Gen.C10", "open ALV.C10.Py",
            "variable {α : Type} [Add α] [Mul α] [Sub α] [Neg α] [Div α] [OfNat α 0] [OfNat α 1] [DecidableEq α]", "", ""]
    tail = ["/-- the names under which the strategies of `lpc` are registered, in source order -/",
            "def strategyNames : List (List String) := [",
            ",\n".join("  [%s]" % ", ".join('"%s"' % _strname(s) for s in g) for g in strategies) + "]", "",
            "end ALV.Gen.C10", ""]
    return "\n".join(head) + "\n".join(parts) + "\n" + "\n".join(tail)


def _strname(s):
    if not all(c.isalnum() or c == "_" for c in s):
        raise TranslationError("unexpected strategy name %r" % (s,))
    return s


def read_sources(repo=None):
    out = {}
    for fname, _ in WANT:
        with open(os.path.join(repo or common.REPO, "audiolazy", fname)) as f:
            out[fname] = f.read()
    return out


def regenerate(eng=None):
    """Rewrite lean/ALV/Gen/C10Src.lean from the repo under test.  On a translation failure the last COMMITTED file is put
    back (so that the build speaks about the last translatable state) and the error propagates (= broken obligation)."""
    path = os.path.join(common.LEAN, GEN_REL)
    try:
        text = translate(read_sources())
    except Exception:
        try:
            import subprocess
            good = subprocess.run(["git", "-C", common.VERIF, "show", "HEAD:lean/" + GEN_REL.replace(os.sep, "/")],
                                  capture_output=True, text=True, timeout=30)
            if good.returncode == 0 and good.stdout and (not os.path.exists(path) or open(path).read() != good.stdout):
                with open(path, "w") as f:
                    f.write(good.stdout)
        except Exception:
            pass
        raise
    old = open(path).read() if os.path.exists(path) else None
    if old != text:
        os.makedirs(os.path.dirname(path), exist_ok=True)
        with open(path, "w") as f:
            f.write(text)
        return "rewritten (%d bytes)" % len(text)
    return "unchanged (%d bytes)" % len(text)


# =============================================================================================
# self test and evidence
# =============================================================================================
# (name, file, old text, new text, count): deliberate edits of the source TEXT; each must change the translation (or be refused)
EDITS = [
    ("acorr-index-sign", "lazy_analysis.py", "blk[n] * blk[n + tau]", "blk[n] * blk[n - tau]"),
    ("lag_matrix-guard-comparison", "lazy_analysis.py", "elif max_lag >= len(blk):", "elif max_lag > len(blk):"),
    ("lag_matrix-range-start", "lazy_analysis.py", "for n in xrange(max_lag, len(blk))", "for n in xrange(max_lag + 1, len(blk))"),
    ("toeplitz-abs-argument", "lazy_lpc.py", "[[vect[abs(i-j)]", "[[vect[abs(i+j)]"),
    ("levinson-loop-bound", "lazy_lpc.py", "for m in xrange(1, order + 1):", "for m in xrange(1, order):"),
    ("levinson-statements-reordered", "lazy_lpc.py",
     "      B = A(1 / z) * z ** -m\n      A -= inner(A, z ** -m) / inner(B, B) * B\n",
     "      A -= inner(A, z ** -m) / inner(B, B) * B\n      B = A(1 / z) * z ** -m\n"),
    ("levinson-zero-extension-dropped", "lazy_lpc.py", "Stream(acdata).append(0).take(order + 1)",
     "Stream(acdata).take(order + 1)"),
    ("levinson-error-from-B", "lazy_lpc.py", "  A.error = inner(A, A)\n  return A\n\n\nlpc = ", "  A.error = inner(A, B)\n  return A\n\n\nlpc = "),
    ("kautocor-order-dropped", "lazy_lpc.py", "return levinson_durbin(acorr(blk, order), order)",
     "return levinson_durbin(acorr(blk, order))"),
    ("kcovar-stability-comparison", "lazy_lpc.py", "if k >= 1 or k <= -1:", "if k > 1 or k < -1:"),
    ("kcovar-update-sign", "lazy_lpc.py", "A += k * B[m - 1]", "A -= k * B[m - 1]"),
    ("kcovar-gamma-range", "lazy_lpc.py", "/ beta[q] for q in xrange(m)]", "/ beta[q] for q in xrange(m + 1)]"),
]
# edits that must NOT change the translation (comments, docstrings, messages, blank lines)
HARMLESS = [
    ("comment", "lazy_lpc.py", "# Be careful, this depends on acdata !!!", "# closure over acdata"),
    ("exception-message", "lazy_lpc.py", "\"Can't find next PARCOR coefficient\"", "\"no next coefficient\""),
    ("docstring", "lazy_analysis.py", "Calculate the autocorrelation of a given 1-D block sequence.", "Autocorrelation."),
]
TRANSLATED = {
    "lazy_analysis.acorr": "shallow: Gen.acorr = Model acorr (src_acorr_is_model)",
    "lazy_analysis.lag_matrix": "shallow: Gen.lag_matrix = Model lagMatrix (src_lag_matrix_is_model)",
    "lazy_lpc.toeplitz": "shallow: Gen.toeplitz = Model toeplitz (src_toeplitz_is_model)",
    "lazy_lpc.levinson_durbin": "shallow: closure inner = Model inner (src_levinson_inner_is_model); default order, zero "
                                "extension, for-loop under except ZeroDivisionError -> ParCorError, .error = Model levinson "
                                "(src_levinson_durbin_is_model)",
    "lazy_lpc.lpc.kautocor": "shallow: Gen.lpc_kautocor = Model kautocor (src_kautocor_is_model)",
    "lazy_lpc.lpc.kcovar": "shallow: closure inner, the while-True loop as a fuel recursion with the comparisons of the "
                           "stability test as emitted predicates = Model kcovar (src_kcovar_inner_is_model, src_kcovar_is_model)",
    "lazy_lpc @lpc.strategy names": "table: Gen.strategyNames = Model strategyNames (src_strategy_names_is_model, decide)",
}
NOT_TRANSLATED = {
    "lazy_lpc.lpc.autocor (default strategy)": "dispatch on `order < 100` with try/except ParCorError around calls of the numpy "
                                               "strategy: modelled by hand in Model/C10Call (np is a parameter)",
    "lazy_lpc.lpc.nautocor / lpc.covar": "numpy bodies (matrix, pinv): neither modelled nor run (numpy absent)",
    "ZFilter / Poly arithmetic, Stream.append / take": "classes outside the slice: mapped to the vocabulary of "
                                                       "Model/C10Py.lean (coefficient lists), trusted, tied differentially",
    "call layer (spellings of order / max_lag: negative, bool, float, Fraction)": "Python's dynamic typing of the argument: "
                                                                                 "hand-written Model/C10Call, tied by cases",
}


def _edited(sources, fname, old, new):
    text = sources[fname]
    if text.count(old) < 1:
        return None
    out = dict(sources)
    out[fname] = text.replace(old, new, 1)
    return out


def _committed():
    import subprocess
    r = subprocess.run(["git", "-C", common.VERIF, "show", "HEAD:lean/" + GEN_REL.replace(os.sep, "/")],
                       capture_output=True, text=True, timeout=30)
    return r.stdout if r.returncode == 0 else None


def extra_checks(eng):
    if eng is not None:
        eng.extra["translated"] = {"translator": "harness/props/c10_tr.py -> lean/" + GEN_REL.replace(os.sep, "/"),
                                   "under_translator": TRANSLATED, "not_translated": NOT_TRANSLATED}
    try:
        sources = read_sources()
        base = translate(sources)
    except Exception as e:
        yield ("translator-selftest", False, "the source of the repo under test is not translatable: %s" % e)
        return
    committed = _committed()
    on_disk = open(os.path.join(common.LEAN, GEN_REL)).read()
    same = committed is not None and base == committed
    yield ("translator-reproduces-committed-file", same and on_disk == base,
           "ok" if same and on_disk == base else
           "the translation of %s differs from the committed lean/%s: the source of a translated function changed"
           % (common.REPO, GEN_REL))
    bad, absent, refused, changed = [], [], 0, 0
    for name, fname, old, new in EDITS:
        ed = _edited(sources, fname, old, new)
        if ed is None:
            absent.append(name)
            continue
        try:
            t = translate(ed)
        except TranslationError:
            refused += 1
            continue
        except Exception as e:          # an edit must be refused as a TranslationError, not crash the translator
            bad.append("%s: %s" % (name, type(e).__name__))
            continue
        if t == base:
            bad.append(name + ": same translation")
        else:
            changed += 1
    for name, fname, old, new in HARMLESS:
        ed = _edited(sources, fname, old, new)
        if ed is None:
            absent.append(name)
            continue
        try:
            if translate(ed) != base:
                bad.append(name + ": harmless edit changes the translation")
        except Exception as e:
            bad.append("%s: %s" % (name, e))
    # the anchors of the edits are texts of the committed source: on the clean tree none may be absent
    ok = not bad and (not absent or not same)
    yield ("translator-selftest", ok,
           "%d edits change the translation, %d refused (TranslationError), %d harmless edits leave it unchanged%s%s"
           % (changed, refused, len(HARMLESS) - sum(1 for h in HARMLESS if h[0] in absent),
              "; anchors absent from this source: %s" % ", ".join(absent) if absent else "",
              "; FAILED: %s" % "; ".join(bad) if bad else ""))
