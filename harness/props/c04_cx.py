"""C04, part 3 — coefficient KINDS, constructor SHAPES and call SHAPES (entry "gcall").

The Lean theorems of C04 hold over any field; the driver entry "gcall" runs `filterCallD` / `specCallD` /
`compile` over the executable Gaussian rationals Q(i) (`GRat`, a field by Lemmas/C12Gauss), so that cases with
complex coefficients, samples, memories and zero values are compared exactly like the rational ones:

  * T3: captured generated source <-> Lean `compile` IR, structurally, for coefficients spelled as int, bool,
    huge int, Fraction, float and complex (1j, -1j, 0j, 1+0j, unit-modulus 0.6+0.8j, Gaussian integers) in every
    position (numerator delay 0.., denominator delay >= 1, gain);
  * I/O: exact whenever the real code computed in exact types (int / Fraction / bool outputs) or on Gaussian
    integers below 2**52 without a division; otherwise within a running rounding-error bound;
  * constructor shapes: numerator / denominator given as number, None / omitted, list, dict, OrderedDict, Poly,
    keyword arguments, z-arithmetic, filter cast, cast with a scalar divisor (`ZFilter(filt, c)`), polynomials
    assigned to the attributes of an existing object (`raw`: the `a[0] == 0` ZeroDivisionError branch);
  * call shapes: memory / zero omitted, positional, keyword; memory as list / tuple / deque / iterator / generator /
    Stream / thub / callable (lambda, callable object, partial; returning list / Stream / generator) / endless
    (generator, itertools.count-based Stream, itertools.repeat), shorter / exact / longer; zero spelled int / bool /
    float / Fraction / complex; input as list / tuple / iterator / generator / Stream / thub / endless iterator
    consumed with take(n) (the number of input items pulled is observed: one per output).

Tagged numbers in cases: int (any size) | "p/q" Fraction | {"f": x} float | {"c": [re, im]} complex | {"b": bool}.
"""
import itertools
from fractions import Fraction

import common
from common import enc, dec, err_kind


# ---------------------------------------------------------------------------------------------
# exact Gaussian rationals on the harness side
# ---------------------------------------------------------------------------------------------
class G(object):
    __slots__ = ("re", "im")

    def __init__(self, re, im=0):
        self.re = Fraction(re)
        self.im = Fraction(im)

    def __add__(self, o):
        return G(self.re + o.re, self.im + o.im)

    def __sub__(self, o):
        return G(self.re - o.re, self.im - o.im)

    def __neg__(self):
        return G(-self.re, -self.im)

    def __mul__(self, o):
        return G(self.re * o.re - self.im * o.im, self.re * o.im + self.im * o.re)

    def __truediv__(self, o):
        n = o.re * o.re + o.im * o.im
        return self * G(o.re / n, -o.im / n)

    def __eq__(self, o):
        if not isinstance(o, G):
            o = G(o)
        return self.re == o.re and self.im == o.im

    def __ne__(self, o):
        return not self == o

    def __hash__(self):
        return hash((self.re, self.im))

    def is_zero(self):
        return self.re == 0 and self.im == 0

    def abs1(self):
        """|re| + |im|  (>= the modulus)"""
        return abs(self.re) + abs(self.im)

    def absinf(self):
        """max(|re|, |im|)  (<= the modulus)"""
        return max(abs(self.re), abs(self.im))

    def is_gint(self):
        return self.re.denominator == 1 and self.im.denominator == 1

    def __repr__(self):
        return "%s" % (self.re,) if self.im == 0 else "(%s%s%sj)" % (self.re, "+" if self.im >= 0 else "-", abs(self.im))


def g_of(v):
    """python number -> G (None for a non-finite float / complex)"""
    if isinstance(v, G):
        return v
    if isinstance(v, complex):
        if v != v or abs(v.real) == float("inf") or abs(v.imag) == float("inf"):
            return None
        return G(Fraction(v.real), Fraction(v.imag))
    if isinstance(v, float):
        if v != v or abs(v) == float("inf"):
            return None
        return G(Fraction(v))
    return G(Fraction(v))


def genc(g):
    """G -> JSON as the driver prints it: bare rational when im = 0, else [re, im]"""
    if g is None:
        return "nan"
    return enc(g.re) if g.im == 0 else [enc(g.re), enc(g.im)]


def gdec(j):
    if isinstance(j, list):
        return G(dec(j[0]), dec(j[1]))
    d = dec(j)
    return None if isinstance(d, float) else G(d)


def val(j):
    """tagged number -> python object of that very type"""
    if isinstance(j, dict):
        if "f" in j:
            return float(j["f"])
        if "c" in j:
            return complex(j["c"][0], j["c"][1])
        return bool(j["b"])
    if isinstance(j, str):
        return Fraction(j)
    return int(j)


def tag(v):
    if isinstance(v, bool):
        return {"b": v}
    if isinstance(v, complex):
        return {"c": [v.real, v.imag]}
    if isinstance(v, float):
        return {"f": v}
    if isinstance(v, Fraction):
        return "%d/%d" % (v.numerator, v.denominator)
    return int(v)


def exact(j):
    return genc(g_of(val(j)))


def spelling(j):
    if isinstance(j, dict):
        return "float" if "f" in j else "complex" if "c" in j else "bool"
    if isinstance(j, str):
        return "Fraction"
    return "int" if abs(j) < 2 ** 63 else "hugeint"


def _base():
    import importlib
    return importlib.import_module("props.c04")


# ---------------------------------------------------------------------------------------------
# building the objects
# ---------------------------------------------------------------------------------------------
def _arg_obj(a):
    """constructor argument (tagged) -> python object given to ZFilter / Poly"""
    if a is None:
        return None
    if "number" in a:
        return val(a["number"])
    if "list" in a:
        vs = [val(v) for v in a["list"]]
        if a.get("as") == "poly":
            from audiolazy import Poly
            return Poly(vs)
        return vs
    ps = [(k, val(v)) for k, v in a["pairs"]]
    how = a.get("as", "dict")
    if how == "odict":
        from collections import OrderedDict
        return OrderedDict(ps)
    if how == "poly":
        from audiolazy import Poly
        return Poly(dict(ps))
    return dict(ps)


def _arg_pairs(a):
    if a is None:
        return []
    if "number" in a:
        return [(0, a["number"])]
    if "list" in a:
        return list(enumerate(a["list"]))
    d = {}
    for k, v in a["pairs"]:
        d[k] = v
    return list(d.items())


def build(c):
    from audiolazy import ZFilter, LinearFilter, Poly, z
    ctor = c["ctor"]
    n, d = _arg_obj(c["num"]), _arg_obj(c["den"])
    if ctor == "pos":
        return ZFilter(n) if c["den"] is None else ZFilter(n, d)
    if ctor == "kw":
        kw = {}
        if c["num"] is not None:
            kw["numerator"] = n
        if c["den"] is not None:
            kw["denominator"] = d
        return ZFilter(**kw)
    if ctor == "linear":
        return LinearFilter(n) if c["den"] is None else LinearFilter(n, d)
    if ctor == "cast":
        return ZFilter(LinearFilter(n, d))
    if ctor == "castdiv":
        return ZFilter(ZFilter(n, d), val(c["castdiv"]))
    if ctor == "zexpr":
        num = [(k, val(v)) for k, v in _arg_pairs(c["num"])]
        den = [(k, val(v)) for k, v in _arg_pairs(c["den"])]
        nn = sum(v * z ** -k for k, v in num) if num else ZFilter([0])
        dd = sum(v * z ** -k for k, v in den)
        return nn / dd
    if ctor == "raw":                 # polynomials assigned to an existing object: no __init__ normalisation
        f = ZFilter([1], [1, 1])
        f.numpoly = Poly(n)
        f.denpoly = Poly(d)
        return f
    raise ValueError("ctor %r" % (ctor,))


# an 'endless' generator memory: far longer than any filter order, but a reader that drains its memory terminates (and is
# then seen by the observation of the iterator after the call) instead of hanging the check
ENDLESS = 50000


class _Counting(object):
    """iterator that counts what is pulled from it"""

    def __init__(self, it):
        self.it = iter(it)
        self.n = 0

    def __iter__(self):
        return self

    def __next__(self):
        v = next(self.it)
        self.n += 1
        return v

    next = __next__


def _mem_obj(m):
    if m is None:
        return None
    from audiolazy import Stream, thub
    k = m["kind"]
    if k == "iter":
        vals = [val(v) for v in m["vals"]]
        how = m.get("as", "list")
        if how == "tuple":
            return tuple(vals)
        if how == "gen":
            return (v for v in vals)
        if how == "iter":
            return iter(vals)
        if how == "counting":
            return _Counting(iter(vals))
        if how == "stream":
            return Stream(vals)
        if how == "thub":
            return thub(vals, 2)
        if how == "deque":
            from collections import deque
            return deque(vals)
        return list(vals)
    if k == "gen":
        base, step = val(m["base"]), val(m["step"])
        how = m.get("as", "genexp")
        if how == "stream":
            return Stream(base + i * step for i in range(ENDLESS))
        if how == "thub":
            return thub((base + i * step for i in range(ENDLESS)), 3)
        if how == "counting":
            return _Counting(base + i * step for i in range(ENDLESS))
        return (base + i * step for i in range(ENDLESS))
    form = m["form"]
    if form == "fixed":
        vals = [val(v) for v in m["vals"]]
        ret = m.get("ret", "list")
        if ret == "stream":                # a callable returning a Stream (which is itself callable)
            return lambda n: Stream(vals)
        if ret == "gen":
            return lambda n: (v for v in vals)
        if ret == "object":                # an object with __call__ that is not iterable
            class Mem(object):
                def __call__(self, n):
                    return list(vals)
            return Mem()
        if ret == "partial":
            import functools
            return functools.partial(lambda vs, n: list(vs), vals)
        return lambda n: list(vals)
    base, step = val(m["base"]), val(m["step"])
    if form == "arith":
        if m.get("ret") == "stream":
            return lambda n: Stream([base + i * step for i in range(n)])
        return lambda n: [base + i * step for i in range(n)]
    return lambda n: (base + (n - 1 - i) * step for i in range(n))


def _out_enc(y):
    if isinstance(y, (bool, int, Fraction, float, complex)):
        return genc(g_of(y))
    return "nan"


def impl(c):
    import audiolazy.lazy_filters as lf
    from audiolazy import Stream, thub
    captured = []
    orig = lf._exec_eval

    def spy(data, expr):
        captured.append(data)
        return orig(data, expr)

    obs = {}
    stage = "init"
    lf._exec_eval = spy
    try:
        filt = build(c)
        obs["numdict"] = [[k, _out_enc(v)] for k, v in sorted(filt.numdict.items())]
        obs["dendict"] = [[k, _out_enc(v)] for k, v in sorted(filt.dendict.items())]
        stage = "call"
        xs = [val(x) for x in c["xs"]]
        how = c.get("xs_as", "list")
        counter = None
        if how == "endless":              # endless input: the items of the case, then unusable objects for ever
            counter = _Counting(itertools.chain(xs, itertools.repeat(object())))
            seq = counter
        elif how == "endless-stream":
            counter = _Counting(itertools.chain(xs, itertools.repeat(object())))
            seq = Stream(counter)
        elif how == "tuple":
            seq = tuple(xs)
        elif how == "iter":
            seq = iter(xs)
        elif how == "gen":
            seq = (x for x in xs)
        elif how == "stream":
            seq = Stream(xs)
        elif how == "thub":
            seq = thub(xs, 2)
        else:
            seq = xs
        args, kw = [seq], {}
        m = _mem_obj(c.get("mem"))
        mshape, zshape = c.get("mem_shape", "kw"), c.get("zero_shape", "kw")
        if zshape == "pos":               # filt(seq, memory, zero)
            args += [m, val(c["zero"])]
        else:
            if mshape == "pos":
                args.append(m)
            elif mshape == "kw":
                kw["memory"] = m
            if zshape == "kw":
                kw["zero"] = val(c["zero"])
        res = filt(*args, **kw)
        mc = c.get("mem")
        if mc is not None and m is not None and mc["kind"] in ("iter", "gen") and mc.get("as") in ("gen", "iter", "counting", "genexp") \
                and not (mshape == "omit" and zshape != "pos"):
            # an ITERATOR memory, right after the call: items pulled, what the caller can still get out of it
            if isinstance(m, _Counting):
                obs["mem_pulled"] = m.n
            obs["mem_next"] = [_out_enc(v) for v in itertools.islice(m, 2)]
        stage = "iter"
        out = res.take(len(xs)) if counter is not None else list(res)
        if counter is not None:
            obs["pulled"] = counter.n
        obs["out"] = [_out_enc(y) for y in out]
        obs["exact_types"] = [isinstance(y, (int, Fraction)) for y in out]
        obs["src"] = captured[-1] if captured else None
        obs["ir"] = _base().parse_source(captured[-1]) if captured else {"kind": "unparsed", "why": "no source captured"}
        obs["n_exec"] = len(captured)
    except Exception as e:
        obs = {"err": err_kind(e), "stage": stage, "msg": str(e)[:80]}
    finally:
        lf._exec_eval = orig
    return obs


# ---------------------------------------------------------------------------------------------
# request
# ---------------------------------------------------------------------------------------------
def _arg_req(a, zexpr=False):
    if a is None:
        return None
    if "number" in a:
        return {"number": exact(a["number"])}
    if "list" in a and not zexpr:
        return {"list": [exact(v) for v in a["list"]]}
    return [[k, exact(v)] for k, v in _arg_pairs(a)] if zexpr else [[k, exact(v)] for k, v in a["pairs"]]


def request(c):
    zx = c["ctor"] == "zexpr"
    r = {"entry": "gcall", "num": _arg_req(c["num"], zx), "den": _arg_req(c["den"], zx),
         "xs": [exact(x) for x in c["xs"]]}
    if zx and r["num"] is None:
        r["num"] = []
    if c["ctor"] == "castdiv":
        r["castdiv"] = exact(c["castdiv"])
    if c["ctor"] == "raw":
        r["raw"] = True
        if r["den"] is None:
            r["den"] = []
    r["zero"] = None if c.get("zero_shape", "kw") == "omit" else exact(c["zero"])
    m = c.get("mem")
    if m is None or (c.get("mem_shape", "kw") == "omit" and c.get("zero_shape", "kw") != "pos"):
        r["mem"] = None
    else:
        mm = {"kind": m["kind"]}
        if "vals" in m:
            mm["vals"] = [exact(v) for v in m["vals"]]
        for f in ("base", "step"):
            if f in m:
                mm[f] = exact(m[f])
        if "form" in m:
            mm["form"] = m["form"]
        r["mem"] = mm
    return r


# ---------------------------------------------------------------------------------------------
# comparison
# ---------------------------------------------------------------------------------------------
U = Fraction(1, 2 ** 52)


def _all_values(c):
    vs = [v for _, v in _arg_pairs(c["num"])] + [v for _, v in _arg_pairs(c["den"])] + list(c["xs"])
    if c.get("zero_shape", "kw") != "omit":
        vs.append(c["zero"])
    if c["ctor"] == "castdiv":
        vs.append(c["castdiv"])
    m = c.get("mem")
    if m is not None:
        vs += list(m.get("vals", [])) + [m[f] for f in ("base", "step") if f in m]
    return vs


def bounds(b, a, mem, zero, xs, ys):
    """running rounding-error bound of a double / complex-double evaluation, in exact arithmetic (1-norms):
    E_n = (sum |a_k| E_{n-k} + u*(terms+4)*mag_n) / |a0| + u*|y_n| ; returned: (16*E_n, mag_n)"""
    a0 = a[0] if a else G(1)
    lo = a0.absinf()
    as_ = a[1:]
    terms = len(b) + len(a) + 4
    E, mags = [], []
    for n in range(len(ys)):
        mag = (a0 * ys[n]).abs1()
        prop = Fraction(0)
        for k, bk in enumerate(b):
            x = xs[n - k] if n - k >= 0 else zero
            mag += bk.abs1() * x.abs1()
        for k, ak in enumerate(as_, 1):
            if n - k >= 0:
                y, e = ys[n - k], E[n - k]
            else:
                y, e = (mem[k - n - 1] if k - n - 1 < len(mem) else zero), Fraction(0)
            mag += ak.abs1() * y.abs1()
            prop += ak.abs1() * e
        E.append((prop + U * terms * mag) / lo + U * ys[n].abs1())
        mags.append(mag)
    return [16 * e + Fraction(1, 10 ** 300) for e in E], mags


def _outs_equal(c, io, want, model):
    """io["out"] against the exact list `want` (JSON).  None when equal, else a description."""
    got = [gdec(v) for v in io["out"]]
    want = [gdec(v) for v in want]
    if len(got) != len(want):
        return "length %d instead of %d" % (len(got), len(want))
    if not want:
        return None
    ex = io.get("exact_types", [False] * len(got))
    tol = None
    for i, (g, w) in enumerate(zip(got, want)):
        if g is None:
            return "non-finite output at %d" % i
        if ex[i]:                                   # computed in int / Fraction arithmetic: no rounding at all
            if g != w:
                return "y[%d] = %s instead of %s (exact types)" % (i, g, w)
            continue
        if tol is None:
            if "a" in model and model["a"]:
                b = [gdec(v) for v in model["b"]]
                a = [gdec(v) for v in model["a"]]
                mem = [gdec(v) for v in model["mem"]]
                zero = G(0) if c.get("zero_shape", "kw") == "omit" else g_of(val(c["zero"]))
                xs = [g_of(val(x)) for x in c["xs"]]
                tol, mags = bounds(b, a, mem, zero, xs, want)
                gint = all(g_of(val(v)).is_gint() for v in _all_values(c)) and a[0] in (G(1), G(-1)) \
                    and all(v.is_gint() for v in b + a)
                if gint and max(mags) < 2 ** 52:    # Gaussian integers, no division: floats are exact too
                    tol = [0] * len(want)
            else:
                tol = [0] * len(want)
        if (g - w).abs1() > tol[i]:
            return "y[%d] = %s instead of %s%s" % (i, g, w, "" if tol[i] else " (Gaussian-integer regime: exact)")
    return None


def _short_memory(c, model):
    m = c.get("mem")
    if m is None or "vals" not in m:
        return False
    return len(m["vals"]) < len(model.get("a", [0])) - 1


def _gpairs(ps):
    return [(k, gdec(v)) for k, v in ps]


def compare(c, io, drv):
    B = _base()
    out = []
    model, spec = drv["model"], drv["spec"]
    if "err" in io:
        if model.get("err") != io["err"]:
            out.append(("model", "impl raised %s (%s: %s), model says %s" % (
                io["err"], io.get("stage"), io.get("msg"), model.get("err", "no error"))))
        if spec.get("err") != io["err"]:
            out.append(("spec", "impl raised %s (%s: %s), the property says %s" % (
                io["err"], io.get("stage"), io.get("msg"), spec.get("err", "no error"))))
        return out
    if "err" in model:
        out.append(("model", "model raises %s, impl ran" % model["err"]))
    if "err" in spec:
        out.append(("spec", "the property demands %s, impl ran and gave %r" % (spec["err"], io["out"][:6])))
    if out:
        return out
    for name, dense in (("numdict", model["b"]), ("dendict", model["a"])):
        want = [(k, gdec(v)) for k, v in enumerate(dense) if not gdec(v).is_zero()]
        if _gpairs(io[name]) != want:
            out.append(("model", "%s after __init__ is %r, model %r" % (name, io[name], want)))
    if io["ir"] != model["ir"]:
        src = io.get("src") or ""
        out.append(("model", "generated source differs from compile: impl IR %r, model IR %r; source:\n%s" % (
            B._abbr(io["ir"]), B._abbr(model["ir"]), src[:600])))
    mr = model.get("memread")
    if "mem_next" in io and mr is not None:
        if [gdec(v) for v in io["mem_next"]] != [gdec(v) for v in mr["next"]]:
            out.append(("model", "iterator memory: after the call the caller's iterator delivers %r next, model (takewhile pulls "
                                 "%d item(s)) says %r" % (io["mem_next"], mr["pulled"], mr["next"])))
        if "mem_pulled" in io and io["mem_pulled"] != mr["pulled"]:
            out.append(("model", "iterator memory: %d item(s) pulled at the call, model says %d" % (io["mem_pulled"], mr["pulled"])))
    d = _outs_equal(c, io, model["out"], model)
    if d:
        out.append(("model", "output differs from model: " + d))
    if "free" in model and not _short_memory(c, model):
        d = _outs_equal(c, io, model["free"], model)
        if d:
            out.append(("spec", "zero numerator with feedback: the output is not the free response of the memory: " + d))
    if "pulled" in io and io["pulled"] != len(io["out"]):
        out.append(("spec", "%d outputs taken of an endless input but %d input items pulled (one output per input, lazily)" % (
            len(io["out"]), io["pulled"])))
    if _short_memory(c, model):
        return out
    d = _outs_equal(c, io, spec["out"], model)
    if d:
        out.append(("spec", "output violates the difference equation: " + d))
    return out


def classify(c, io, drv):
    model, spec = drv.get("model", {}), drv.get("spec", {})
    if "err" in io:
        return "gcall:raises-%s-at-%s:expected-%s" % (io["err"], io.get("stage"), spec.get("err", "output"))
    if "err" in spec:
        return "gcall:runs:expected-%s" % spec["err"]
    parts = []
    if io.get("ir") != model.get("ir"):
        ir, mir = io.get("ir", {}), model.get("ir", {})
        if ir.get("kind") != mir.get("kind"):
            parts.append("ir-kind-%s-vs-%s" % (ir.get("kind"), mir.get("kind")))
        else:
            parts.append("ir-" + "+".join(f for f in ("nm", "nd", "sum", "gain", "shifts", "zero") if ir.get(f) != mir.get(f)))
    if "out" in io and "out" in spec:
        if _short_memory(c, model):
            parts.append("short-memory-padding")
        elif len(io["out"]) != len(spec["out"]):
            parts.append("output-length")
        elif _outs_equal(c, io, spec["out"], model):
            parts.append("output-values")
    if "pulled" in io and io["pulled"] != len(io.get("out", [])):
        parts.append("input-read-ahead")
    return "gcall:" + ("+".join(parts) or "coefficients-after-init")


def nontrivial(c, io):
    return "err" in io or bool(io.get("out"))


# ---------------------------------------------------------------------------------------------
# generation
# ---------------------------------------------------------------------------------------------
def _c(re, im):
    return {"c": [float(re), float(im)]}


HUGE = 10 ** 30
# every spelling of the special-cased values, and close neighbours that must NOT be special-cased
SPECIALS = [1, -1, 0, {"f": 1.0}, {"f": -1.0}, {"f": 0.0}, _c(0, 1), _c(0, -1), _c(0, 0), _c(1, 0), _c(-1, 0),
            {"b": True}, {"b": False}, "1/1", "-1/1", "0/1", HUGE, -HUGE, _c(0.6, 0.8), _c(0.6, -0.8), _c(-0.8, 0.6),
            2, _c(1, 1), "1/2", {"f": 0.5}, _c(0, 2), _c(0, 0.5)]
POOLS = {
    "gaussint": [_c(0, 1), _c(0, -1), _c(1, 1), _c(1, -1), _c(-1, 1), _c(2, 0), _c(0, 2), _c(1, 0), _c(-1, 0), _c(0, 0),
                 _c(2, -1), _c(-3, 2), 1, -1, 0, 2],
    "unit": [_c(0, 1), _c(0, -1), _c(0.6, 0.8), _c(0.8, -0.6), _c(-0.6, 0.8), _c(1, 0), _c(-1, 0), 1, -1, _c(0, 0)],
    "intbool": [0, 1, -1, 2, -3, 5, {"b": True}, {"b": False}, {"b": True}, 1, -1],
    "huge": [HUGE, -HUGE, HUGE + 1, 1, -1, 0, 2, 3],
    "dyadic": [_c(0.5, 0.25), _c(0, 0.5), {"f": 0.5}, {"f": -0.25}, {"f": 1.0}, {"f": -1.0}, _c(-1.5, 1), 1, 0, _c(0, 1)],
    "frac": ["1/1", "-1/1", "0/1", "1/2", "-2/3", "3/1", 1, -1, {"b": True}],
}
POOLS["all"] = sum(POOLS.values(), [])


def _nz(rng, pool):
    for _ in range(50):
        v = rng.choice(pool)
        if not g_of(val(v)).is_zero():
            return v
    return 1


def _sample(rng, xk):
    if xk == "gint":
        return _c(rng.randint(-4, 4), rng.randint(-4, 4))
    if xk == "int":
        return rng.randint(-9, 9)
    if xk == "frac":
        return tag(Fraction(rng.randint(-9, 9), rng.choice([1, 1, 2, 3])))
    if xk == "dyadic":
        return _c(rng.randint(-8, 8) / 4.0, rng.randint(-8, 8) / 4.0)
    if xk == "float":
        return {"f": rng.randint(-16, 16) / 4.0}
    return _sample(rng, rng.choice(["gint", "int", "frac", "dyadic", "float"]))


def _zero(rng, xk):
    return rng.choice([0, 0, {"f": 0.0}, "0/1", _c(0, 0), {"b": False}, 7, _c(0, 1), _c(2, -1), "1/2", {"f": 0.5}, {"b": True}]
                      if xk != "int" else [0, 0, 7, -1, {"b": False}, "0/1"])


def _memory(rng, lm, xk):
    r = rng.random()
    if r < 0.2:
        return None
    if r < 0.65:
        n = rng.choice([lm, lm, lm, lm + 2, max(0, lm - 1), 0, lm + 1])
        return {"kind": "iter", "vals": [_sample(rng, xk) for _ in range(n)],
                "as": rng.choice(["list", "tuple", "gen", "iter", "stream", "stream", "thub", "thub", "deque", "counting", "counting"])}
    if r < 0.8:
        return {"kind": "gen", "base": _sample(rng, xk), "step": rng.choice([_sample(rng, xk), 0]),
                "as": rng.choice(["genexp", "stream", "thub", "counting"])}
    form = rng.choice(["arith", "arithrev", "fixed", "fixed"])
    if form == "fixed":
        n = rng.choice([lm, lm + 1, max(0, lm - 1)])
        return {"kind": "callable", "form": "fixed", "vals": [_sample(rng, xk) for _ in range(n)],
                "ret": rng.choice(["list", "stream", "gen", "object", "partial"])}
    m = {"kind": "callable", "form": form, "base": _sample(rng, xk), "step": _sample(rng, xk)}
    if form == "arith" and rng.random() < 0.5:
        m["ret"] = "stream"
    return m


def _lm(den_pairs):
    nz = [k for k, v in den_pairs if not g_of(val(v)).is_zero()]
    return (max(nz) - min(nz)) if nz else 0


def _call_part(rng, c, xk, max_len):
    lm = _lm(_arg_pairs(c["den"])) if c["den"] is not None else 0
    n = rng.choice([0, 1, 2, 3, 5, rng.randint(0, max_len)])
    c["xs"] = [_sample(rng, xk) for _ in range(n)]
    c["xs_as"] = rng.choice(["list", "list", "tuple", "iter", "gen", "stream", "thub", "endless", "endless-stream"])
    c["mem"] = _memory(rng, lm, xk)
    c["zero"] = _zero(rng, xk)
    zs = rng.choice(["kw", "kw", "omit", "pos"])
    c["zero_shape"] = zs
    if c["mem"] is None:
        c["mem_shape"] = rng.choice(["omit", "omit", "kw", "pos"])     # kw / pos: an explicit memory=None
    else:
        c["mem_shape"] = rng.choice(["kw", "kw", "pos"])
    return c


def _wrap(rng, ctor, num_list, den_list):
    """coefficient lists -> constructor arguments in the shape the route wants"""
    if ctor in ("pos", "kw", "linear", "cast", "castdiv"):
        how = rng.choice(["list", "list", "dict", "odict", "poly", "polylist"])
        def mk(l):
            if how in ("list", "polylist"):
                return {"list": l, "as": "poly" if how == "polylist" else "list"}
            ps = [[k, v] for k, v in enumerate(l) if not g_of(val(v)).is_zero() or rng.random() < 0.3]
            rng.shuffle(ps)
            return {"pairs": ps, "as": how}
        return mk(num_list), mk(den_list)
    ps_n = [[k, v] for k, v in enumerate(num_list) if not g_of(val(v)).is_zero()]
    ps_d = [[k, v] for k, v in enumerate(den_list) if not g_of(val(v)).is_zero()]
    return {"pairs": ps_n, "as": "dict"}, {"pairs": ps_d, "as": "dict"}


def _gen_specials(rng, quick):
    """every spelling of a special value in every position of a small filter"""
    out = []
    positions = [("num", 0), ("num", 1), ("num", 2), ("den", 1), ("den", 2), ("den", 0)]
    for side, k in positions:
        for sv in SPECIALS:
            for xk in (("gint",) if quick and rng.random() < 0.5 else ("gint", "frac")):
                b = [2, 3, _c(1, 1)] if rng.random() < 0.5 else [rng.choice([2, -3]), 0, rng.choice([_c(0, 2), 5])]
                a = [rng.choice([1, 1, -1, 2, _c(0, 1)]), rng.choice([3, _c(1, -1)]), rng.choice([-2, _c(0, 2)])]
                if side == "num":
                    b[k] = sv
                else:
                    a[k] = sv
                ctor = rng.choice(["pos", "pos", "kw", "linear", "zexpr", "cast"])
                if ctor == "zexpr" and all(g_of(val(v)).is_zero() for v in a):
                    ctor = "pos"
                n, d = _wrap(rng, ctor, b, a)
                c = {"entry": "gcall", "ctor": ctor, "num": n, "den": d, "pos": "%s[%d]" % (side, k),
                     "special": "%s:%r" % (spelling(sv), g_of(val(sv)))}
                out.append(_call_part(rng, c, xk, 6))
    return out


def _gen_random(rng, n):
    out = []
    for _ in range(n):
        pool = POOLS[rng.choice(["gaussint", "gaussint", "unit", "unit", "intbool", "huge", "dyadic", "frac", "all", "all"])]
        lb = rng.choice([0, 1, 2, 3, rng.randint(0, 6)])
        la = rng.choice([1, 1, 2, 3, rng.randint(1, 6)])
        b = [rng.choice(pool) for _ in range(lb)]
        a = [rng.choice(pool) for _ in range(la)]
        gk = rng.choice(["one", "negone", "other", "asis", "i"])
        if gk == "one":
            a[0] = rng.choice([1, {"f": 1.0}, _c(1, 0), {"b": True}, "1/1"])
        elif gk == "negone":
            a[0] = rng.choice([-1, {"f": -1.0}, _c(-1, 0), "-1/1"])
        elif gk == "other":
            a[0] = _nz(rng, pool)
        elif gk == "i":
            a[0] = rng.choice([_c(0, 1), _c(0, -1), _c(1, 1), 2, _c(0, 2)])
        lead = rng.choice([0, 0, 0, 1, 2])
        a = [0] * lead + a
        if lead and rng.random() < 0.7:
            b = [0] * lead + b
        ctor = rng.choice(["pos", "pos", "kw", "linear", "zexpr", "zexpr", "cast"])
        if ctor == "zexpr" and all(g_of(val(v)).is_zero() for v in a):
            ctor = "pos"
        n_, d_ = _wrap(rng, ctor, b, a)
        c = {"entry": "gcall", "ctor": ctor, "num": n_, "den": d_}
        xk = rng.choice(["gint", "gint", "int", "frac", "dyadic", "mixed"])
        out.append(_call_part(rng, c, xk, 10))
    return out


def _gen_shapes(rng, n):
    """constructor argument shapes: number / None / omitted / list / dict / Poly, cast with a scalar divisor"""
    out = []
    nums = [3, -1, 1, 0, _c(0, 1), "1/2", {"f": 0.5}, {"b": True}, HUGE, _c(1, -2)]
    for _ in range(n):
        r = rng.random()
        xk = rng.choice(["gint", "int", "frac"])
        if r < 0.35:                      # numbers / None as numerator and / or denominator
            num = rng.choice([None, {"number": rng.choice(nums)}, {"list": [rng.choice(nums), 2], "as": "list"}])
            den = rng.choice([None, None, {"number": rng.choice(nums)}, {"list": [rng.choice(nums), _c(0, 1)], "as": "list"}])
            ctor = rng.choice(["pos", "kw", "linear"])
            if ctor == "pos" and num is None and den is not None:
                ctor = "kw"
            c = {"entry": "gcall", "ctor": ctor, "num": num, "den": den}
        elif r < 0.7:                     # ZFilter(filt, c): cast with a scalar divisor
            small = [v for v in nums if v != HUGE]      # `1 / c` is a float for an int c: 10**30 * 0.5 would be rounded
            b = [rng.choice(small) for _ in range(rng.randint(1, 3))]
            a = [rng.choice([1, 2, -1, _c(0, 1)])] + [rng.choice(small) for _ in range(rng.randint(0, 2))]
            n_, d_ = _wrap(rng, "castdiv", b, a)
            c = {"entry": "gcall", "ctor": "castdiv", "num": n_, "den": d_,
                 "castdiv": rng.choice([2, -1, 1, 4, {"f": 0.5}, {"f": 2.0}, "2/1", "1/2", _c(0, 1), _c(0, -2), _c(1, 1), {"b": True},
                                        0, {"f": 0.0}, _c(0, 0), "0/1"])}
        else:                             # polynomials assigned to the object: a[0] missing / zero in every spelling
            b = [[k, rng.choice(nums)] for k in sorted(rng.sample(range(-1 if rng.random() < 0.15 else 0, 4), rng.randint(0, 2)))]
            a0 = rng.choice([None, 0, {"f": 0.0}, "0/1", _c(0, 0), {"b": False}, 1, -1, 2, _c(0, 1), _c(0, 1)])
            a = ([[0, a0]] if a0 is not None else []) + [[k, rng.choice(nums)] for k in sorted(rng.sample(range(1, 4), rng.randint(0, 2)))]
            if rng.random() < 0.1:
                a.append([-1, 2])
            c = {"entry": "gcall", "ctor": "raw", "num": {"pairs": b, "as": "dict"}, "den": {"pairs": a, "as": rng.choice(["dict", "odict"])},
                 "a0": "missing" if a0 is None else spelling(a0) + ":" + ("zero" if g_of(val(a0)).is_zero() else "nonzero")}
        out.append(_call_part(rng, c, xk, 6))
    return out


def _gen_free(rng, n):
    """zero numerators in every spelling (none at all, 0, 0.0, 0j, False, Fraction(0)) x complex / real feedback x memory kinds
    x non-null zero values: the free response, never the `yield zero` loop"""
    out = []
    zs = [0, {"f": 0.0}, _c(0, 0), {"b": False}, "0/1"]
    fb = [1, -1, 2, _c(0, 1), _c(0, -1), _c(1, 1), -3, _c(0, 2), "1/2", {"f": 0.5}]
    for _ in range(n):
        nb = rng.choice([0, 1, 2, 3])
        b = [rng.choice(zs) for _ in range(nb)]
        a = [rng.choice([1, -1, 2, _c(0, 1), _c(1, 0), {"b": True}, HUGE, "3/1", _c(1, 1)])] + \
            [rng.choice(fb + [0]) for _ in range(rng.choice([0, 1, 2]))] + [rng.choice(fb)]
        ctor = rng.choice(["pos", "pos", "kw", "linear", "cast", "zexpr"])
        if nb == 0 and ctor in ("pos", "kw", "linear") and rng.random() < 0.5:
            n_, d_ = None, _wrap(rng, ctor, [], a)[1]
            if ctor == "pos":
                ctor = "kw"
        else:
            n_, d_ = _wrap(rng, ctor, b, a)
        c = {"entry": "gcall", "ctor": ctor, "num": n_, "den": d_, "family": "free"}
        c = _call_part(rng, c, rng.choice(["gint", "gint", "frac", "int"]), 6)
        if c["mem"] is None and rng.random() < 0.8:
            c["zero"] = rng.choice([7, _c(0, 1), _c(2, -1), "1/2", {"b": True}, -1])
            if c["zero_shape"] == "omit":
                c["zero_shape"] = "kw"
        if not c["xs"]:
            c["xs"] = [_sample(rng, "gint") for _ in range(3)]
        out.append(c)
    return out


def _gen_gain(rng, n):
    """gains of every spelling x exact (Fraction / int) samples: int, negative, bool, huge, Fraction, float, complex"""
    out = []
    gains = [2, 3, -3, 7, HUGE, -HUGE, {"b": True}, "3/1", "-2/1", "1/2", {"f": 2.0}, {"f": -0.5}, _c(2, 0), _c(0, 1), _c(0, -2), _c(1, 1),
             _c(-1, 0), _c(1, 0), -1, 1]
    for i in range(n):
        g = gains[i % len(gains)] if i < 2 * len(gains) else rng.choice(gains)
        b = [rng.choice([1, -1, 2, 3, 0, -5]) for _ in range(rng.choice([1, 2, 3]))]
        a = [g] + [rng.choice([1, -1, 2, 0, -3]) for _ in range(rng.choice([0, 1, 2]))]
        ctor = rng.choice(["pos", "pos", "kw", "linear", "cast"])
        n_, d_ = _wrap(rng, ctor, b, a)
        c = {"entry": "gcall", "ctor": ctor, "num": n_, "den": d_, "family": "gain"}
        c = _call_part(rng, c, "frac", 5)
        if isinstance(c["zero"], dict) and "b" not in c["zero"]:
            c["zero"] = "0/1"
        out.append(c)
    return out


def generate(rng, tier, scale=1):
    quick = tier == "quick"
    out = _gen_specials(rng, quick) if scale == 1 else []
    out += _gen_random(rng, (700 if quick else 4000) * scale)
    out += _gen_shapes(rng, (300 if quick else 1500) * scale)
    r4 = __import__("random").Random(rng.random())
    out += _gen_free(r4, (160 if quick else 800) * scale)
    out += _gen_gain(r4, (160 if quick else 800) * scale)
    return out


# ---------------------------------------------------------------------------------------------
# evidence histograms
# ---------------------------------------------------------------------------------------------
def tally(eng, c, io):
    eng.count("g_ctor", c["ctor"])
    if c.get("family"):
        eng.count("g_family", c["family"])
        if c["family"] == "free" and "out" in io:
            eng.count("g_free_response", "non-zero" if any(not gdec(v).is_zero() for v in io["out"] if gdec(v) is not None) else "silent")
    if "mem_next" in io:
        eng.count("g_iterator_memory_pulled", io.get("mem_pulled", "uncounted"))
    for side in ("num", "den"):
        a = c[side]
        eng.count("g_arg_" + side, "None" if a is None else ("number" if "number" in a else a.get("as", "list") if "list" in a else a.get("as", "dict")))
    for _, v in _arg_pairs(c["num"]) + _arg_pairs(c["den"]):
        eng.count("g_coef_spelling", spelling(v))
    if "special" in c:
        eng.count("g_special_position", c["pos"])
        eng.count("g_special_value", c["special"])
    if "a0" in c:
        eng.count("g_raw_a0", c["a0"])
    if c["ctor"] == "castdiv":
        eng.count("g_castdiv", spelling(c["castdiv"]) + (":zero" if g_of(val(c["castdiv"])).is_zero() else ""))
    m = c.get("mem")
    eng.count("g_memory", "none/" + c.get("mem_shape", "kw") if m is None else
              "%s:%s/%s" % (m["kind"], m.get("form", "") + m.get("ret", "") or m.get("as", "list"), c.get("mem_shape", "kw")))
    eng.count("g_zero", c.get("zero_shape", "kw") + ("" if c.get("zero_shape") == "omit" else ":" + spelling(c["zero"]) +
                                                     (":0" if g_of(val(c["zero"])).is_zero() else ":nonzero")))
    eng.count("g_xs", c.get("xs_as", "list"))
    for x in c["xs"][:1]:
        eng.count("g_sample_spelling", spelling(x))
    if "err" in io:
        eng.count("g_impl_error", "%s@%s" % (io["err"], io.get("stage")))
        return
    ir = io.get("ir", {})
    eng.count("g_ir_kind", ir.get("kind"))
    if ir.get("kind") == "loop":
        eng.count("g_gain_branch", ir["gain"][0] + (":complex" if len(ir["gain"]) > 1 and isinstance(ir["gain"][1], list) else ""))
        for a in ir["sum"]:
            eng.count("g_atom_branch", "%s:%s%s" % (a[-2], a[0], ":complex" if a[0] == "mul" and isinstance(a[1], list) else ""))
    et = io.get("exact_types", [])
    eng.count("g_regime", "no-output" if not et else "exact-types" if all(et) else "float/complex")
    if "pulled" in io:
        eng.count("g_endless_input_pulled", "n" if io["pulled"] == len(io["out"]) else "n+%d" % (io["pulled"] - len(io["out"])))


# ---------------------------------------------------------------------------------------------
# shrinking / neighbours
# ---------------------------------------------------------------------------------------------
def _simpler(j):
    g = g_of(val(j))
    outs = []
    if isinstance(j, dict) and "c" in j and g.im == 0:
        outs.append({"f": j["c"][0]})
    if not (isinstance(j, int) and not isinstance(j, bool)) and g.is_gint() and g.im == 0:
        outs.append(int(g.re))
    if isinstance(j, int) and abs(j) > 9:
        outs.append(2)
    if not g.is_zero() and g != G(1):
        outs.append(1)
    if not g.is_zero():
        outs.append(0)
    return outs


def _with_arg(c, side, a):
    return dict(c, **{side: a})


def shrink(c):
    xs = c["xs"]
    if xs:
        yield dict(c, xs=xs[:-1])
        yield dict(c, xs=xs[1:])
        for i in range(len(xs)):
            for s in _simpler(xs[i])[:2]:
                yield dict(c, xs=xs[:i] + [s] + xs[i + 1:])
    if c.get("xs_as") != "list":
        yield dict(c, xs_as="list")
    if c.get("mem") is not None:
        yield dict(c, mem=None, mem_shape="omit" if c.get("zero_shape") != "pos" else "pos")
        m = c["mem"]
        if "vals" in m:
            if m["kind"] != "iter" or m.get("as", "list") != "list":
                yield dict(c, mem={"kind": "iter", "vals": m["vals"], "as": "list"})
            vs = m["vals"]
            if vs:
                yield dict(c, mem=dict(m, vals=vs[:-1]))
            for i in range(len(vs)):
                for s in _simpler(vs[i])[:2]:
                    yield dict(c, mem=dict(m, vals=vs[:i] + [s] + vs[i + 1:]))
    if c.get("zero_shape") != "kw":
        yield dict(c, zero_shape="kw", mem_shape="kw" if c.get("mem") is not None else "omit")
    if c.get("zero_shape") == "kw" and c["zero"] != 0:
        yield dict(c, zero=0)
    for side in ("num", "den"):
        a = c[side]
        if a is None or "number" in a:
            continue
        if "list" in a:
            l = a["list"]
            if len(l) > 1:
                yield _with_arg(c, side, dict(a, list=l[:-1]))
            for i in range(len(l)):
                for s in _simpler(l[i]):
                    yield _with_arg(c, side, dict(a, list=l[:i] + [s] + l[i + 1:]))
            if a.get("as") == "poly":
                yield _with_arg(c, side, dict(a, **{"as": "list"}))
        else:
            ps = a["pairs"]
            for i in range(len(ps)):
                if len(ps) > 1 or side == "num":
                    yield _with_arg(c, side, dict(a, pairs=ps[:i] + ps[i + 1:]))
                for s in _simpler(ps[i][1]):
                    yield _with_arg(c, side, dict(a, pairs=ps[:i] + [[ps[i][0], s]] + ps[i + 1:]))
            if a.get("as") not in ("dict", None):
                yield _with_arg(c, side, dict(a, **{"as": "dict"}))
    if c["ctor"] in ("kw", "linear", "cast", "zexpr"):
        yield dict(c, ctor="pos")


def neighbours(c):
    base = dict(c, xs=c["xs"] if c["xs"] else [_c(1, 0), _c(0, 2), _c(-3, 1)], xs_as="list")
    yield base
    yield dict(base, xs=[_c(1, 0), _c(0, 2), _c(-3, 1), _c(2, 2), _c(0, -1)], zero=0, zero_shape="kw")
    yield dict(base, mem=None, mem_shape="omit" if c.get("zero_shape") != "pos" else "pos")
