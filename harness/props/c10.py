"""C10 — toeplitz / acorr / lag_matrix / levinson_durbin / lpc.kautocor / lpc.kcovar.

Tie: the real functions run in-process on generated lag vectors and blocks; the Lean driver
returns (a) the exact-rational run of the code-shaped model, (b) the property-shaped spec
evaluated on the model's result AND on the coefficients the impl returned (`impl_a`, sent to the
driver in the same request: the normal-equation residuals, the error the equations assign, the
energy of a * zero-extended block, the covariance residuals), (c) a conditioning trace.

Regimes.  `Poly`'s default zero is the float `0.`, so the impl computes in binary floating point
even on Fractions.  A case is in the *exact* regime when the Lean trace shows that every
intermediate value is a dyadic rational small enough for all float operations to be exact
(3*D + 3*log2(M) + 2*log2(n) + 4 <= 52 with D the largest denominator exponent, M the largest
magnitude, n the order + 2): comparison is then exact (values, list lengths, exceptions).
Otherwise the case is in the *float* regime: tolerance 1e-9*(1+|x|), coefficient lists compared
modulo trailing zeros, and cases whose exact recursion comes within 1e-4 (relative) of a zero
divisor / of the |k| = 1 exit of kcovar are only required to satisfy the spec when they return.

Histories.  The property fixes every result as a function of the argument VALUES of its call, so a
case of entry "history" is a sequence of calls (and caller-side assignments `x[i] = v`) that share
their argument objects: the same list / tuple / deque / read-only sequence / Stream / generator is
handed to successive calls, or the list `acorr` returned is handed on.  Every call is answered by
the Lean model/spec of THAT CALL ALONE on a pristine copy of the values the caller holds at that
moment (driver entry "history" = the single-call payloads, nothing threaded between them); after
every call every shared argument must still equal its pristine copy (values and types), results
obtained earlier must not have changed, the harness scribbles on results it owns (a memoised /
aliased result then shows up in a later call or in an argument), and a Stream / generator argument
(rejected with TypeError: the functions need len()) must not have been consumed.

Call layer (round 3).  A single-call case may carry "ord" = {"k": omitted | none | int | real, "v", "py": bool |
float | frac} (the spelling of order / max_lag; the Lean side is `OrdArg` of Model/C10Call.lean), "kw" (which
arguments go by keyword), "seq" (container kind) and "num" in int / frac / float / bool / bigint / complex; entry
"lpc" selects a strategy of the StrategyDict by name ("via": attr | item; name None = lpc(...) itself).  The
driver answers with `levinsonCall` / `acorrCall` / `lagMatrixCall` / `kautocorCall` / `kcovarCall` / `lpcCall
noNumpy`; complex samples go through the same polymorphic model instantiated at the Gaussian rationals.  A
ZeroDivisionError of kcovar comes with the dependency witness of theorem `kcovar_zero_division_singular`
(checked to annihilate the window).
"""
import json, math
from fractions import Fraction as F
import common
from common import enc, dec, encl, decl, err_kind, close
from props import c10_f64 as F64
from props import c10_tr as TR

ID = "C10"
RULE = ("lag vectors from reflection coefficients (dyadic: exact regime; tenths |k|<=9/10: float regime), "
        "from autocorrelations of data blocks, singular (k=+-1), NEAR-singular (|k| = 1 - 2^-10 .. 1 - 2^-40, one or two "
        "stages, as Fractions and as the nearest doubles, orders beyond the stage) and random small vectors; blocks of "
        "ints / Fractions / dyadic floats / bools / huge ints (tables) / complex numbers (Gaussian integers; the model "
        "runs on Gaussian rationals); orders 0..8, None, and >= len (zero extension); CALL LAYER: the order / max_lag "
        "omitted, None, an int of any sign, a bool, a float or Fraction (integral / fractional, below / from len on), "
        "passed positionally or by keyword (data by keyword too); containers list / tuple / deque / read-only sequence / "
        "list subclass / Stream.take result / generator / Stream; every name of the StrategyDict lpc by attribute and by "
        "item, names that do not exist, lpc(...) itself around its threshold order 100; small universe of function x data "
        "x every spelling exhaustively; a case is non-trivial when "
        "the impl returns a filter of order >= 1 or a non-empty table, or raises the modelled exception; "
        "distinct = distinct JSON case; histories: 2-4 calls among acorr / lag_matrix / toeplitz / levinson_durbin "
        "(order below, equal to, above len(r); default) / lpc.kautocor / lpc.kcovar / lpc sharing one argument object "
        "(list, tuple, deque, read-only sequence, Stream, generator; or the list acorr returned), caller-side "
        "assignments between calls, all ordered pairs of a call menu over a few small lists; non-trivial when at "
        "least two calls ran and one of them is non-trivial; FLOAT TWIN (entry f64, props/c10_f64.py): acorr / "
        "lag_matrix / levinson_durbin / lpc.kautocor / lpc.kcovar on lists of Python floats (near-singular step-ups "
        "|k| = 1 - 2^-10 .. 2^-40 in one or two stages with orders beyond / up to / before the stage, reflection "
        "coefficients in tenths, autocorrelations of data, random lags, exactly singular dyadic lags; blocks uniform / "
        "dyadic / decaying / magnitudes 1e-6..1e6 / sines / geometric), order None, below, at and beyond len: compared "
        "BIT FOR BIT with the binary64 run of the model")
TRUSTED = [
    "source translator harness/props/c10_tr.py (ast -> lean/ALV/Gen/C10Src.lean, rewritten on every check): the bodies of "
    "acorr, lag_matrix, toeplitz, levinson_durbin (+ closure inner), lpc.kautocor, lpc.kcovar (+ closure inner) and the "
    "@lpc.strategy names are regenerated from the text of the repo under test and PROVED equal to the model functions "
    "(Props.C10 src_*_is_model).  Trusted: (i) the semantics the translator assumes for its Python subset - ints are "
    "unbounded (Lean Int), xrange of a non-positive length is empty, a comprehension / generator expression is map / "
    "flatMap in source order, builtin sum is the left fold from 0, enumerate(l) is the pairs (i, l[i]), `for` is a left "
    "fold of its body over the loop-carried variables, `while True` with one `if m >= bound: ..; return` exit and a last "
    "`m += 1` is a recursion that cannot make more than bound - m + 1 passes, `x / y` raises ZeroDivisionError exactly "
    "when y == 0 (replaced by the exception of the enclosing `except ZeroDivisionError: raise E`), a closure reads its "
    "free variables at call time, l[i] with i < 0 counts from the end; a subscript out of range reads 0 (IndexError is "
    "not in the expression language: the theorems carry the hypothesis that excludes the one reachable case, which the "
    "model has by hand); the messages of exceptions, comments and docstrings are dropped; (ii) the VOCABULARY mapping "
    "of lean/ALV/Model/C10Py.lean: ZFilter(1), z ** -m, A(1 / z) * z ** -m, A -= c * B, A += c * B, .numlist, "
    "z ** -e - sum(g[q] * B[q] ..), Stream(x).append(0).take(n) are the coefficient-list operations of the model "
    "(ZFilter / Poly / Stream are classes outside the slice); (iii) the parameter kinds (first parameter a list of "
    "numbers, a parameter with default None an optional int).  The translator is cross-checked on every run by the "
    "extra checks translator-selftest (12 deliberate edits of the source text must change the translation or be "
    "refused, 3 harmless ones must not) and translator-reproduces-committed-file, and by the differential tie, which "
    "runs the same model functions the src_* theorems name",
    "hand-written Lean model ALV/Model/C10.lean of lazy_lpc.toeplitz/levinson_durbin/lpc.kautocor/lpc.kcovar and "
    "lazy_analysis.acorr/lag_matrix: since the translator round it is tied to the source by the src_*_is_model theorems "
    "(not only by sampling); still modelled, not verified: ZFilter/Poly arithmetic is taken as coefficient-wise "
    "arithmetic on numlists without trailing zeros; Stream.append/take for the zero extension",
    "hand-written Lean model ALV/Model/C10Call.lean of the call layer: the spellings of order / max_lag (omitted, None, "
    "int of any sign, non-int number: which comparison / integer context raises what, Stream.take rounding a float and "
    "handing a Fraction to islice), the StrategyDict names and the default strategy's dispatch on order < 100 / "
    "ParCorError; the numpy strategies lpc.nautocor / lpc.covar (lazy_lpc.py 219-225, 285-294) are a PARAMETER of the "
    "model, instantiated with 'numpy absent: ModuleNotFoundError' - their bodies are unreachable here and neither "
    "modelled nor tied",
    "which strategy a function object of the StrategyDict is: decided by the harness from the source order of the "
    "distinct functions (co_firstlineno), trusted",
    "histories: the harness' own bookkeeping (pristine copies, value+type equality of the shared arguments after every "
    "call, re-observation of earlier results, scribbling on returned lists / tables / the error attribute) is trusted; "
    "lpc (default strategy) needs numpy below order 100 (absent here: only the no-side-effect clauses are checked)",
    "float regime: the impl's numbers are binary floats (Poly zero = 0.), compared with tolerance 1e-9*(1+|x|) against "
    "the exact rational model; exact regime decided from the Lean trace (dyadic intermediates below 2^52); Levinson runs "
    "(also near-singular ones) whose exact recursion meets no zero divisor must return and are compared under the "
    "conditioning-aware bound 2*(order+2)*growth^2*2^-52/(smallest relative divisor) when it is <= 1e-2 (an empirical "
    "bound, calibrated on 2400 runs with a factor 25 of slack, not a theorem); complex samples: float regime 1e-8",
    "float twin (entry f64): the generic model with Python's builtin sum as a parameter (ALV/Model/C10Float.lean) run on "
    "binary64 bit patterns and compared bit for bit - numerator, error, tables, exception kinds; near-singular float "
    "runs are thereby DECIDED, not bounded.  Trusted: (i) Lean's Float + - * / abs and comparisons are the IEEE-754 "
    "binary64 operations CPython performs (round to nearest even); (ii) builtin sum on a generator of floats is the "
    "compensated loop of builtin_sum_impl (CPython >= 3.12; modelled as sumN, validated by the extra check "
    "float-twin-sum-is-cpython-sum on a fixed table, and by the bit-for-bit tie itself: the plain fold gives other bits "
    "on most cases, histogram f64_compensated_sum_vs_plain_fold; on an older CPython the harness compares with the plain "
    "fold); (iii) the operation ORDER of Poly / ZFilter arithmetic as read from lazy_poly.py / lazy_filters.py (header "
    "of the model file): c * b_i per coefficient, a_i + (-(c * b_i)), B = A(1/z) * z^-m without rounding, absent terms "
    "read as 0.0; (iv) -0.0 is stored as +0.0 (no zero's sign is observable: zero divisors raise); runs with a "
    "non-finite number are not compared (histogram f64_compared).  Proved: the twin over exact operations IS the model "
    "(Props.C10 twin_plain_is_model: any carrier, sum = left fold; sumN_exact_is_sum: the compensated loop over a ring "
    "is the plain sum; twin_exact_is_model).  A bit mismatch is additionally judged by the Lean SPEC evaluated in exact "
    "rationals on the implementation's binary64 output against the twin's output (slack 2^10): that verdict is a "
    "heuristic for labelling a failing input, the bit comparison itself has no tolerance",
]
ASSUMPTIONS = [
    "order / max_lag is omitted, None, an int (bool) or a finite float / Fraction (inf: levinson_durbin does not "
    "terminate, not generated); lag vectors / blocks are finite sequences of ints, bools, Fractions, floats or complex",
    "theorems are over an arbitrary field (kautocor_minimises / _minimiser_unique, kcovar_zero_division_singular: "
    "ordered field); float rounding is outside them: on binary64 the tie is the bit-exact twin, no theorem bounds the "
    "rounding error of the recursion",
]
MANIFEST = {
    "text": "Lean 4 theorems, for every field / every lag vector / every order (no bound): levinson_durbin as coded "
            "returns a monic solution of the Yule-Walker equations with error = sum_j a_j r_j, raises ParCorError "
            "exactly when an intermediate prediction error is zero, E_{p+1} = E_p - Delta^2/E_p, matrix form with "
            "toeplitz; acorr / lag_matrix / toeplitz are the documented sums; lpc.kautocor = levinson_durbin(acorr), its "
            "error is the energy of a * zero-extended block and (ordered field) the filter is the unique minimiser of it; "
            "lpc.kcovar as "
            "coded (Gram-Schmidt with its exits) returns a solution of the covariance normal equations whose error is "
            "the residual energy over n >= p, and minimises it; it fails to return exactly through line 326 "
            "(ZeroDivisionError iff a zero beta[m], which over an ordered field means a singular system: the delayed "
            "copies of the block are linearly dependent on the window; conversely a singular system excludes a return, "
            "any field), line 329 (ValueError) or the length checks - the unguarded divisions of line 337 never raise.  "
            "Call layer: the documented defaults (order = len - 1, max_lag = len(blk) - 1) equal the explicit call, "
            "every spelling of the order (negative int, bool, float, Fraction) has its modelled outcome, the "
            "StrategyDict names and the default strategy's dispatch.  Tied to /repo by a differential run (exact-rational "
            "/ Gaussian-rational model vs the float-contaminated impl, exact on dyadic inputs) that also evaluates the "
            "Lean spec on the coefficients the impl returns; on Python floats the generic model (sum = CPython's compensated "
            "float loop, a parameter proved to be the plain sum over exact operations) is run on binary64 and compared "
            "bit for bit.",
    "note": "Trusted: Lean kernel + propext/Classical.choice/Quot.sound, the Python harness, the translator's Python-subset "
            "semantics and filter vocabulary (Model/C10Py.lean), the hand-written models "
            "(ZFilter/Poly arithmetic taken as coefficient-wise arithmetic on trimmed coefficient lists; the call layer). "
            "numpy is absent: lpc.nautocor / lpc.covar bodies are neither modelled nor run.  Float rounding is outside "
            "the theorems; float Levinson runs are compared under a conditioning-aware empirical bound, those whose "
            "bound exceeds 1e-2 (and kcovar runs within 1e-4 of an exit) are only counted "
            "(histograms float_ill_conditioned_model_comparison_skipped, near_singular_*).",
    "technique": "Lean 4 machine-checked proof (loop invariants by induction on the order, Finset sums) over an "
                 "executable model + source translator harness/props/c10_tr.py (function bodies read with ast and "
                 "regenerated as Lean definitions lean/ALV/Gen/C10Src.lean on every run, proved equal to the model: "
                 "src_*_is_model) + differential correspondence and spec evaluation on the implementation's output",
}
TOL = 1e-9

_IMPL = {}       # key(case) -> coefficients returned by the impl (sent to the driver as impl_a)
_INFO = {}       # key(case) -> regime / skip info decided in compare, read by tally


def key(c):
    return json.dumps(c, sort_keys=True)


# ----------------------------------------------------------------------------------------
# generators
# ----------------------------------------------------------------------------------------
def _stepup(ks, r0):
    """lag vector r[0..p] whose Levinson recursion has reflection coefficients ks (generator only)"""
    r = [F(r0)]
    a = [F(1)]
    E = F(r0)
    for m, k in enumerate(ks, 1):
        # k = -(r_m + sum_{j=1}^{m-1} a_j r_{m-j}) / E
        acc = sum(a[j] * r[m - j] for j in range(1, m))
        r.append(-k * E - acc)
        a = [a[j] if j < len(a) else F(0) for j in range(m + 1)]
        a = [a[j] + k * a[m - j] for j in range(m + 1)]
        E = E * (1 - k * k)
    return r


def _blk(rng, n, kind):
    if kind == "int":
        return [rng.randint(-9, 9) for _ in range(n)]
    if kind == "frac":
        return [F(rng.randint(-12, 12), rng.choice([1, 2, 3, 5, 7])) for _ in range(n)]
    if kind == "float":   # dyadic, exactly representable
        return [F(rng.randint(-16, 16), rng.choice([1, 2, 4, 8])) for _ in range(n)]
    if kind == "sparse":  # unit pulses: every intermediate stays dyadic
        return [rng.choice([0, 0, 0, 1, -1, 2]) for _ in range(n)]
    raise ValueError(kind)


def _num_of(kind):
    return {"sparse": "int"}.get(kind, kind)


def _lev_cases(rng, n):
    out = []
    for _ in range(n):
        fam = rng.choice(["dyadic", "dyadic", "tenths", "tenths", "tenths", "data", "data", "singular", "rand"])
        num = rng.choice(["frac", "frac", "float", "int"])
        if fam == "dyadic":
            p = rng.randint(1, 4)
            ks = [F(rng.choice([0, 1, -1, 2, -2, 3, -3, 1, -2]), 4) for _ in range(p)]
            r = _stepup(ks, rng.choice([1, 2, 4, 8, 16]))
        elif fam == "tenths":
            p = rng.randint(1, 8)
            ks = [F(rng.randint(-9, 9), 10) for _ in range(p)]
            r = _stepup(ks, rng.choice([1, 2, 3, 10, F(1, 2), 7]))
        elif fam == "singular":
            p = rng.randint(1, 4)
            ks = [F(rng.choice([0, 1, -1, 2, -2, 3, -3]), 4) for _ in range(p)]
            ks[rng.randrange(p)] = F(rng.choice([1, -1]))
            r = _stepup(ks, rng.choice([1, 2, 4]))
        elif fam == "data":
            kind = rng.choice(["int", "frac", "float"])
            b = [F(x) for x in _blk(rng, rng.randint(2, 14), kind)]
            p = rng.randint(1, min(8, len(b)))
            r = [sum(b[i] * b[i + t] for i in range(len(b) - t)) for t in range(p + 1)]
        else:
            p = rng.randint(0, 5)
            r = [F(rng.randint(-3, 4)) for _ in range(p + 1)]
        # tail beyond the order, and the choice of the order
        mode = rng.choice(["full", "full", "none", "shorter", "tail", "extend"])
        order = len(r) - 1
        if mode == "none":
            order = None
        elif mode == "shorter" and len(r) > 1:
            order = rng.randint(0, len(r) - 2)
        elif mode == "tail":
            r = r + [F(rng.randint(-4, 4), rng.choice([1, 2])) for _ in range(rng.randint(1, 3))]
        elif mode == "extend":
            order = len(r) + rng.randint(0, 2)
            if order > 9:
                order = len(r)
        if num == "int":
            den = 1
            for x in r:
                den = den * x.denominator // math.gcd(den, x.denominator)
            if den > 10 ** 6:
                num = "frac"
            else:
                r = [x * den for x in r]
        if num == "float" and any((x.denominator & (x.denominator - 1)) or abs(x.numerator) >= 2 ** 50 for x in r):
            num = "frac"
        out.append({"entry": "levinson", "r": encl(r), "order": order, "num": num,
                    "fam": fam, "seq": rng.choice(["list", "tuple"])})
    return out


def _blk_cases(rng, n, entry):
    out = []
    for _ in range(n):
        kind = rng.choice(["int", "frac", "float", "sparse"])
        if entry == "kcovar":
            ln = rng.choice([2, 3, 4, 5, 6, 8, 10, 12, 16, 20])
            fam = rng.choice(["noise", "noise", "noise", "noise", "decay", "decay", "grow", "zero", "sparse"])
            order = rng.choice([1, 1, 2, 2, 3, 3, 4, 5, 6, None, 0, ln, ln - 1])
            if fam == "noise":
                if order not in (None, 0, ln, ln - 1) and rng.random() < 0.7:
                    ln = max(ln, 5 * order + rng.randint(2, 8))    # long blocks: mostly |k| < 1
                b = _blk(rng, ln, kind)
            elif fam == "decay":      # impulse response of a stable one/two pole filter: stable predictors
                q = F(rng.choice([1, -1, 2, -2, 3]), 4)
                b = [F(rng.choice([1, 2, 4]))]
                for _ in range(ln - 1):
                    b.append(b[-1] * q + (F(rng.randint(-1, 1), 4) if kind != "int" else 0))
                kind = "frac" if kind in ("int", "sparse") else kind
            elif fam == "grow":       # unstable: ValueError exit
                g = rng.choice([2, -2, 3, F(3, 2)])
                b = [F(1) * g ** i for i in range(ln)]
                kind = "frac" if g == F(3, 2) else "int"
            elif fam == "zero":
                b = [0] * ln
                if rng.random() < 0.5:
                    b[rng.randrange(ln)] = 1
                kind = "int"
            else:
                b = _blk(rng, ln, "sparse")
                kind = "int"
            if order is not None and order > 6 and order < ln:
                order = 6
        else:
            ln = rng.randint(0, 14) if rng.random() < 0.9 else rng.randint(15, 30)
            b = _blk(rng, ln, kind)
            order = rng.choice([None, 0, 1, 2, 3, 4, 5, 6, 8, ln, ln + 1, ln + 3, max(ln - 1, 0)])
            if entry == "kautocor" and order is not None and order > 9:
                order = 9
        c = {"entry": entry, "blk": encl([F(x) for x in b]), "num": _num_of(kind)}
        if entry in ("kautocor", "kcovar"):
            c["order"] = order
        else:
            c["max_lag"] = order
        out.append(c)
    return out


EDGE = [
    {"entry": "levinson", "r": [], "order": None, "num": "int", "fam": "edge", "seq": "list"},
    {"entry": "levinson", "r": [], "order": 0, "num": "int", "fam": "edge", "seq": "list"},
    {"entry": "levinson", "r": [], "order": 2, "num": "int", "fam": "edge", "seq": "list"},
    {"entry": "levinson", "r": [2], "order": None, "num": "int", "fam": "edge", "seq": "list"},
    {"entry": "levinson", "r": [2], "order": 0, "num": "frac", "fam": "edge", "seq": "tuple"},
    {"entry": "levinson", "r": [0, 1], "order": 1, "num": "int", "fam": "edge", "seq": "list"},
    {"entry": "levinson", "r": [1, 1, 1], "order": 2, "num": "int", "fam": "edge", "seq": "list"},
    {"entry": "levinson", "r": [1, 0, 0], "order": 2, "num": "int", "fam": "edge", "seq": "list"},
    {"entry": "levinson", "r": [1, 2, 3, 4, 5, 3, 2, 1], "order": None, "num": "int", "fam": "edge", "seq": "list"},
    {"entry": "levinson", "r": [12, 6, 0, -3, -6, -3, 0, 2, 4, 2], "order": 3, "num": "int", "fam": "edge", "seq": "list"},
    {"entry": "kautocor", "blk": [-1, 0, 1, 0] * 4, "order": 2, "num": "int"},
    {"entry": "kautocor", "blk": [], "order": None, "num": "int"},
    {"entry": "kautocor", "blk": [], "order": 1, "num": "int"},
    {"entry": "kautocor", "blk": [3], "order": None, "num": "int"},
    {"entry": "kcovar", "blk": [], "order": None, "num": "int"},
    {"entry": "kcovar", "blk": [5], "order": None, "num": "int"},
    {"entry": "kcovar", "blk": [1, 2, 3], "order": 0, "num": "int"},
    {"entry": "kcovar", "blk": [1, 2, 3], "order": 3, "num": "int"},
    {"entry": "kcovar", "blk": [1, 0, 0, 0], "order": 1, "num": "int"},
    {"entry": "kcovar", "blk": [0, 0, 0, 0], "order": 1, "num": "int"},
    {"entry": "kcovar", "blk": [1, 2, 4, 8], "order": 1, "num": "int"},
    {"entry": "acorr", "blk": [1, 2, 3, 4, 3, 4, 2], "max_lag": 9, "num": "int"},
    {"entry": "lag_matrix", "blk": [1, 2, 3], "max_lag": 3, "num": "int"},
    {"entry": "lag_matrix", "blk": [], "max_lag": None, "num": "int"},
    {"entry": "toeplitz", "vect": [], "num": "int"},
]


def _exhaustive(tier):
    """small universes, every member: lag vectors / blocks over a few small integers"""
    import itertools
    q = tier == "quick"
    out = []
    vals = (-1, 0, 1, 2) if q else (-2, -1, 0, 1, 2, 3)
    for n in (1, 2, 3):
        for r in itertools.product(vals, repeat=n):
            if q and n == 3 and r[0] <= 0:
                continue
            for order in range(0, 4):
                out.append({"entry": "levinson", "r": list(r), "order": order, "num": "int",
                            "fam": "exhaustive", "seq": "list"})
    bvals = (-1, 0, 1) if q else (-1, 0, 1, 2)
    for n in ((2, 3, 4) if q else (2, 3, 4, 5)):
        for b in itertools.product(bvals, repeat=n):
            for order in (1, 2):
                if order < n:
                    out.append({"entry": "kcovar", "blk": list(b), "order": order, "num": "int"})
            if n <= 3:
                out.append({"entry": "kautocor", "blk": list(b), "order": n - 1, "num": "int"})
    return out


# ----------------------------------------------------------------------------------------
# the call layer: spellings of order / max_lag, call shapes, containers, element kinds, lpc names
# ----------------------------------------------------------------------------------------
_ALIASES = ["autocor", "acorr", "autocorrelation", "auto_correlation",
            "nautocor", "nacorr", "nautocorrelation", "nauto_correlation",
            "kautocor", "kacorr", "kautocorrelation", "kauto_correlation",
            "covar", "cov", "covariance", "ncovar", "ncov", "ncovariance",
            "kcovar", "kcov", "kcovariance"]
_BAD_NAMES = ["levinson", "kautocorr", "auto", "kcovarr", "k", "lpc"]
_SHAPES = [{}, {"ord": True}, {"data": True}]
_SEQS = ["list", "list", "tuple", "deque", "roseq", "userlist", "take"]


def _ord_menu(n):
    """every spelling of the second argument, relative to a length n"""
    m = [{"k": "omitted"}, {"k": "none"}]
    for v in sorted({-3, -1, 0, 1, 2, n - 1, n, n + 1}):
        m.append({"k": "int", "v": v})
    m += [{"k": "int", "v": 1, "py": "bool"}, {"k": "int", "v": 0, "py": "bool"},
          {"k": "real", "v": 2, "py": "float"}, {"k": "real", "v": 1, "py": "frac"},
          {"k": "real", "v": "3/2", "py": "float"}, {"k": "real", "v": "1/3", "py": "frac"},
          {"k": "real", "v": n, "py": "float"}, {"k": "real", "v": n + 1, "py": "frac"},
          {"k": "real", "v": -1, "py": "float"}]
    return m


def _call_exhaustive(tier):
    """small universe, every member: function x small data x every spelling of the order (x call shape)"""
    q = tier == "quick"
    out = []
    lagl = [[], [2], [4, 2, 1], [1, 1, 1], [0, 0]]
    blks = [[], [3], [1, 2, 3, 1], [0, 0, 0], [1, 2, 0, 0], [0, 0, 1, 2], [2, 1, -1, 3, 1, -2]]
    i = 0
    for fn, datas in (("levinson", lagl), ("kautocor", blks), ("kcovar", blks), ("acorr", blks), ("lag_matrix", blks)):
        fld = _FIELD.get(fn, "blk")
        for d in datas:
            for o in _ord_menu(len(d)):
                for kw in ([_SHAPES[i % 3]] if q else _SHAPES):
                    i += 1
                    c = {"entry": fn, fld: list(d), "num": "int", "ord": dict(o)}
                    if kw:
                        c["kw"] = dict(kw)
                    if fn == "levinson":
                        c["fam"] = "call-exhaustive"
                    out.append(c)
    for d in lagl:
        out.append({"entry": "toeplitz", "vect": list(d), "num": "int", "kw": {"data": True}})
    # every name of the StrategyDict (attribute and item access), a few that are not names, the dict itself
    for nm in _ALIASES + _BAD_NAMES + [None]:
        for via in ("attr", "item"):
            if nm is None and via == "item":
                continue
            fam = "k" if nm and nm.startswith("k") and nm not in _BAD_NAMES else "np"
            for blk, o in ((([1, 2, 3, 1], {"k": "int", "v": 1}), ([1, 2, 3, 1], {"k": "omitted"})) if fam == "k" else
                           (([1, 2, 3], {"k": "int", "v": 2}), ([0, 0], {"k": "int", "v": 100}))):
                out.append({"entry": "lpc", "name": nm, "via": via, "blk": list(blk), "num": "int", "ord": dict(o)})
    # the default strategy around its threshold, with every spelling
    for o in ({"k": "omitted"}, {"k": "none"}, {"k": "int", "v": 99}, {"k": "int", "v": 100}, {"k": "int", "v": 101},
              {"k": "int", "v": -1}, {"k": "real", "v": 100, "py": "float"}, {"k": "real", "v": "199/2", "py": "float"},
              {"k": "real", "v": 7, "py": "frac"}, {"k": "int", "v": 1, "py": "bool"}):
        for nm in (None, "autocor", "acorr"):
            for blk in ([0, 0], [0, 0, 0]):
                c = {"entry": "lpc", "name": nm, "via": "attr", "blk": list(blk), "num": "int", "ord": dict(o)}
                if o["k"] != "omitted" and nm == "acorr":
                    c["kw"] = {"ord": True}
                out.append(c)
    return out


def _respell(rng, o, n):
    """a random spelling of the order o (None or an int >= 0) of a base case"""
    if o is None:
        return {"k": rng.choice(["omitted", "omitted", "none"])}
    u = rng.random()
    if u < 0.60:
        if o in (0, 1) and rng.random() < 0.4:
            return {"k": "int", "v": o, "py": "bool"}
        return {"k": "int", "v": o}
    if u < 0.72:
        return {"k": "int", "v": -rng.randint(1, 4)}
    if u < 0.86:
        return {"k": "real", "v": o, "py": rng.choice(["float", "frac"])}
    return {"k": "real", "v": enc(F(2 * o + 1, 2)), "py": rng.choice(["float", "frac"])}


def _call_cases(rng, n):
    """random base cases (same data families as above) called in a random shape: spelling of the order,
    positional / keyword, container kind, element kind"""
    out = []
    for _ in range(n):
        fn = rng.choice(["levinson", "levinson", "kautocor", "kautocor", "kcovar", "kcovar", "acorr", "lag_matrix",
                         "toeplitz", "lpc"])
        if fn == "levinson":
            c = _lev_cases(rng, 1)[0]
        elif fn == "toeplitz":
            kind = rng.choice(["int", "frac", "float"])
            c = {"entry": "toeplitz", "vect": encl([F(x) for x in _blk(rng, rng.randint(0, 7), kind)]), "num": kind}
        elif fn == "lpc":
            c = _blk_cases(rng, 1, rng.choice(["kautocor", "kcovar"]))[0]
            nm = rng.choice([a for a in _ALIASES if a.startswith("k")] * 3 + _ALIASES + _BAD_NAMES[:2] + [None])
            if nm is None or not nm.startswith("k"):
                c["blk"] = c["blk"][:6]
            c = dict(c, entry="lpc", name=nm, via=rng.choice(["attr", "attr", "item"]) if nm else "attr")
        else:
            c = _blk_cases(rng, 1, fn)[0]
        e = c["entry"]
        fld = _FIELD.get(e, "blk")
        ln = len(c[fld])
        if e != "toeplitz":
            okey = _PARAMS[e][1]
            o = c.pop(okey, None)
            c["ord"] = _respell(rng, o, ln)
            if e == "lpc" and c["ord"]["k"] == "int" and c["ord"]["v"] > 9 and not str(c.get("name")).startswith("kc"):
                c["ord"]["v"] = 9
        c["seq"] = rng.choice(_SEQS) if rng.random() < 0.93 or e == "lpc" else rng.choice(["gen", "stream"])
        kw = rng.choice(_SHAPES + [{"data": True, "ord": True}])
        if kw:
            c["kw"] = dict(kw)
        # element kinds the data families above do not draw: bools, huge ints (tables only)
        u = rng.random()
        if u < 0.08 and c["num"] == "int":
            c[fld] = [int(dec(x) != 0 and (i * 7 + ln) % 3 != 0) for i, x in enumerate(c[fld])]
            c["num"] = "bool"
        elif u < 0.16 and e in ("acorr", "lag_matrix", "toeplitz") and c["num"] == "int":
            c[fld] = [int(dec(x)) * 10 ** rng.choice([17, 25, 40]) + rng.randint(-5, 5) for x in c[fld]]
            c["num"] = "bigint"
        out.append(c)
    return out


def _nearsing_cases(rng, n):
    """NEAR-singular but non-singular lag vectors: an exact step-up from reflection coefficients with one
    (sometimes two) |k| = 1 - 2^-e, e = 10..40, passed as Fractions and as floats, orders beyond that stage"""
    out = []
    for _ in range(n):
        p = rng.randint(2, 6)
        ks = [F(rng.choice([0, 1, -1, 2, -2, 3, -3]), 4) if rng.random() < 0.5 else F(rng.randint(-7, 7), 10)
              for _ in range(p)]
        j = rng.randrange(p - 1)
        e1 = rng.choice([10, 12, 16, 20, 24, 28, 32, 36, 40])
        ks[j] = rng.choice([1, -1]) * (1 - F(1, 2 ** e1))
        if rng.random() < 0.25 and p >= 3:
            j2 = rng.choice([i for i in range(p - 1) if i != j])
            ks[j2] = rng.choice([1, -1]) * (1 - F(1, 2 ** rng.choice([10, 14, 20, 30])))
        r = _stepup(ks, rng.choice([1, 2, 4, 3, 10]))
        num = rng.choice(["frac", "float", "float"])
        if num == "float":
            r = [F(float(x)) for x in r]        # the doubles nearest to the exact lags: that IS the input
        mode = rng.choice(["full", "full", "none", "extend", "tail"])
        order = len(r) - 1
        if mode == "none":
            order = None
        elif mode == "extend":
            order = len(r) + rng.randint(0, 1)
        elif mode == "tail":
            r = r + [F(rng.randint(-4, 4), 4)]
        out.append({"entry": "levinson", "r": encl(r), "order": order, "num": num, "fam": "nearsing",
                    "seq": rng.choice(["list", "tuple"])})
    return out


def _gz(rng, big=False):
    return [rng.randint(8, 16) if big else rng.randint(-2, 2), rng.randint(-2, 2)]


def _complex_cases(rng, n):
    """complex samples / lags (Gaussian integers and halves; the model runs on Gaussian rationals)"""
    out = []
    for _ in range(n):
        fn = rng.choice(["levinson", "levinson", "kautocor", "kcovar", "acorr", "lag_matrix", "toeplitz"])
        if fn == "levinson":
            p = rng.randint(0, 4)
            r = [_gz(rng, True)] + [_gz(rng) for _ in range(p)]
            if rng.random() < 0.1:
                r[0] = [0, 0]
            c = {"entry": "levinson", "r": r, "num": "complex", "fam": "complex",
                 "ord": _respell(rng, rng.choice([None, p, p, max(p - 1, 0), p + 1]), len(r))}
        elif fn == "toeplitz":
            c = {"entry": "toeplitz", "vect": [_gz(rng) for _ in range(rng.randint(0, 5))], "num": "complex"}
        else:
            ln = rng.randint(0, 7)
            b = [_gz(rng) for _ in range(ln)]
            if rng.random() < 0.3:
                b = [[x[0], 0] if i % 2 else [3 + x[0], x[1]] for i, x in enumerate(b)]
            c = {"entry": fn, "blk": b, "num": "complex",
                 "ord": _respell(rng, rng.choice([None, 1, 2, 3, max(ln - 1, 0), ln]), ln)}
        c["seq"] = rng.choice(["list", "tuple", "deque"])
        out.append(c)
    return out


def generate(rng, tier, scale=1):
    q = tier == "quick"
    n_lev = (700 if q else 20000) * scale
    n_ka = (300 if q else 9000) * scale
    n_kc = (400 if q else 10000) * scale
    n_tab = (120 if q else 2000) * scale
    cases = (list(EDGE) + _exhaustive(tier)) if scale == 1 else []
    cases += _lev_cases(rng, n_lev)
    cases += _blk_cases(rng, n_ka, "kautocor")
    cases += _blk_cases(rng, n_kc, "kcovar")
    cases += _blk_cases(rng, n_tab, "acorr")
    cases += _blk_cases(rng, n_tab, "lag_matrix")
    for _ in range(n_tab // 2):
        kind = rng.choice(["int", "frac", "float"])
        cases.append({"entry": "toeplitz", "vect": encl([F(x) for x in _blk(rng, rng.randint(0, 9), kind)]),
                      "num": kind})
    if scale == 1:
        cases += _call_exhaustive(tier)
    cases += _call_cases(rng, (450 if q else 12000) * scale)
    cases += _nearsing_cases(rng, (120 if q else 4000) * scale)
    cases += _complex_cases(rng, (150 if q else 4000) * scale)
    if scale == 1:
        cases += list(F64.EDGE)
    cases += F64.cases(rng, (700 if q else 20000) * scale)
    if scale == 1:
        cases += _hist_exhaustive(tier)
    cases += _hist_cases(rng, (500 if q else 12000) * scale, (2 if q else 12) if scale == 1 else 0)
    return cases


# ----------------------------------------------------------------------------------------
# impl
# ----------------------------------------------------------------------------------------
def _dz(j):
    """JSON number -> Fraction, or a complex pair [re, im] -> (Fraction, Fraction)"""
    if isinstance(j, list):
        return (dec(j[0]), dec(j[1]))
    return dec(j)


def _vals(js, num):
    if num == "complex":      # Gaussian rationals [re, im] with float-exact parts
        return [complex(float(dec(x[0])), float(dec(x[1]))) if isinstance(x, list) else complex(float(dec(x)), 0.0)
                for x in js]
    xs = decl(js)
    if num in ("int", "bigint"):
        return [int(x) for x in xs]
    if num == "bool":
        return [bool(x) for x in xs]
    if num == "float":
        return [float(x) for x in xs]
    return xs


def _finite(x):
    if isinstance(x, complex):
        return _finite(x.real) and _finite(x.imag)
    return not (isinstance(x, float) and (x != x or x in (float("inf"), float("-inf"))))


def _enc(x):
    """like common.enc, a complex number as the pair [re, im]"""
    if isinstance(x, complex):
        return [enc(x.real), enc(x.imag)]
    return enc(x)


def _encl(xs):
    return [_enc(x) for x in xs]


def _filt_obs(c, f):
    a = list(f.numerator)
    obs = {"a": _encl(a), "error": _enc(f.error), "den": _encl(list(f.denominator))}
    if all(_finite(x) for x in a):
        _IMPL[key(c)] = obs["a"]
    return obs


class _UserList(list):
    """a user subclass of list"""


def _container(kind, vals):
    """the object handed to the function: list / tuple / deque / read-only sequence / list subclass /
    what Stream.take returns / (unsupported: no len()) a generator, a Stream"""
    if kind in (None, "list"):
        return list(vals)
    if kind == "userlist":
        return _UserList(vals)
    if kind == "take":
        from audiolazy import Stream
        return Stream(list(vals)).take(len(vals))
    return _mk(kind, vals)


_PARAMS = {"levinson": ("acdata", "order"), "kautocor": ("blk", "order"), "kcovar": ("blk", "order"),
           "lpc": ("blk", "order"), "acorr": ("blk", "max_lag"), "lag_matrix": ("blk", "max_lag"),
           "toeplitz": ("vect", None)}
_STRATS = ("autocor", "nautocor", "kautocor", "covar", "kcovar")     # source order of the decorators


def _py_order(c):
    """(given?, python value) of the order / max_lag argument of a single-call case.  Without "ord":
    the legacy fields (None = omitted, else a non-negative int).  With "ord" = {"k": omitted | none |
    int | real, "v": value, "py": bool | float | frac}: the spelling."""
    o = c.get("ord")
    if o is None:
        v = c.get(_PARAMS[c["entry"]][1])
        return v is not None, v
    k = o["k"]
    if k == "omitted":
        return False, None
    if k == "none":
        return True, None
    if k == "int":
        v = int(o["v"])
        return True, (bool(v) if o.get("py") == "bool" else v)
    q = dec(o["v"])
    return True, (q if o.get("py") == "frac" else float(q))


def _invoke(fn, c, arg):
    """positional / keyword / omitted, as the case says ("kw": {"data": bool, "ord": bool})"""
    pname, oname = _PARAMS[c["entry"]]
    kw = c.get("kw") or {}
    args, kwargs = [], {}
    if kw.get("data"):
        kwargs[pname] = arg
    else:
        args.append(arg)
    if oname is not None:
        given, v = _py_order(c)
        if given:
            if kw.get("ord") or kw.get("data"):
                kwargs[oname] = v
            else:
                args.append(v)
    return fn(*args, **kwargs)


def _strategy_of(lpc, fn):
    """which strategy a function of the StrategyDict is: the distinct functions in source order"""
    fns = []
    for f in lpc.values():
        if all(f is not g for g in fns):
            fns.append(f)
    fns.sort(key=lambda f: f.__code__.co_firstlineno)
    for nm, f in zip(_STRATS, fns):
        if f is fn:
            return nm
    return "?"


def _impl_single(c, arg):
    from audiolazy import levinson_durbin, lpc, acorr, lag_matrix, toeplitz
    e = c["entry"]
    extra = {}
    try:
        if e == "lpc":
            name, via = c.get("name"), c.get("via", "attr")
            try:
                if name is None:
                    fn, target = lpc, lpc.default
                else:
                    fn = lpc[name] if via == "item" else getattr(lpc, name)
                    target = fn
            except (KeyError, AttributeError):
                return {"strategy": None}
            extra["strategy"] = _strategy_of(lpc, target)
            return dict(_filt_obs(c, _invoke(fn, c, arg)), **extra)
        if e == "levinson":
            return _filt_obs(c, _invoke(levinson_durbin, c, arg))
        if e == "kautocor":
            return _filt_obs(c, _invoke(lpc.kautocor, c, arg))
        if e == "kcovar":
            return _filt_obs(c, _invoke(lpc.kcovar, c, arg))
        if e == "acorr":
            return {"out": _encl(_invoke(acorr, c, arg))}
        if e == "lag_matrix":
            return {"out": [_encl(row) for row in _invoke(lag_matrix, c, arg)]}
        if e == "toeplitz":
            return {"out": [_encl(row) for row in _invoke(toeplitz, c, arg)]}
    except Exception as ex:
        return dict({"err": err_kind(ex)}, **extra)
    raise ValueError("unknown entry " + e)


def impl(c):
    e = c["entry"]
    if e == "history":
        return _impl_history(c)
    if e == "f64":
        return F64.impl(c)
    _IMPL.pop(key(c), None)
    vals = _vals(c[_FIELD.get(e, "blk")], c["num"])
    kind = c.get("seq")
    arg = _container(kind, vals)
    obs = _impl_single(c, arg)
    if kind in ("gen", "stream"):
        # no len(): the functions must refuse (TypeError) without consuming anything
        obs["unsupported"] = kind
        rest = list(arg)
        if not _same(rest, vals):
            obs["consumed"] = _show(rest)
    elif not _same(arg, vals):     # a call must leave its argument as the caller gave it
        obs["arg_modified"] = _show(arg)
    return obs


_FIELD = {"levinson": "r", "toeplitz": "vect"}


def request(c):
    if c["entry"] == "history":
        return {"entry": "history", "calls": [r for r in _HIST.get(key(c), []) if r is not None]}
    if c["entry"] == "f64":
        return F64.request(c)
    r = {k: v for k, v in c.items() if k not in ("num", "fam", "seq", "kw", "via")}
    if isinstance(r.get("ord"), dict):
        r["ord"] = {k: v for k, v in r["ord"].items() if k != "py" or r["ord"]["k"] == "real"}
    if c.get("num") == "complex":
        r["elem"] = "gauss"
    a = _IMPL.get(key(c))
    if a is not None:
        r["impl_a"] = a
    return r


# ----------------------------------------------------------------------------------------
# comparison
# ----------------------------------------------------------------------------------------
def _log2(x):
    x = abs(x)
    return 0 if x <= 1 else math.ceil(math.log2(x))


def _exact_regime(vals, n):
    """every intermediate is dyadic and all float operations on them are exact"""
    D, M = 0, 0
    for v in vals:
        d = v.denominator
        if d & (d - 1):
            return False
        D = max(D, d.bit_length() - 1)
        M = max(M, _log2(v))
    return 3 * D + 3 * M + 2 * _log2(n) + 4 <= 52


def _trace_vals(drv, inputs):
    vals = list(inputs)
    for it in drv.get("trace", []):
        vals.append(dec(it["num"]))
        vals.append(dec(it.get("den", it.get("beta", 0))))
        d = dec(it.get("den", it.get("beta", 0)))
        if d != 0:
            vals.append(dec(it["num"]) / d)
        vals += decl(it["A"])
        for b in it.get("B", []):
            vals += decl(b)
    m = drv.get("model", {})
    if isinstance(m, dict) and "a" in m:
        vals += decl(m["a"])
        vals.append(dec(m["error"]))
    return vals


def _conditioning(drv, scale):
    """smallest relative distance of the exact recursion to one of its exits"""
    worst = 1.0
    for it in drv.get("trace", []):
        d = dec(it.get("den", it.get("beta", 0)))
        worst = min(worst, float(abs(d) / scale) if scale else 0.0)
        if "beta" in it and d != 0:      # kcovar: distance of |k| to 1
            k = dec(it["num"]) / d
            worst = min(worst, float(abs(abs(k) - 1)))
    return worst


def _cond_tol(drv, order, cond):
    """conditioning-aware tolerance of a float run of the Levinson recursion (see _cmp_filter)"""
    g = 1.0
    for it in drv.get("trace", []):
        g = max(g, float(sum(abs(x) for x in decl(it["A"]))))
        d = dec(it["den"])
        if d != 0:
            g = max(g, float(abs(dec(it["num"]) / d)))
    # calibrated on 2400 near-singular runs of the unchanged code: the largest observed error is
    # 0.32 * g^2 * 2^-52 / cond (orders <= 8); the bound keeps a factor >= 25 above that
    n = (order or 0) + 2
    return 2.0 * n * g * g * 2.0 ** -52 / cond


def _pad(xs, n):
    return list(xs) + [F(0)] * (n - len(xs))


def _cmp_filter(c, io, drv, inputs, order, scale, spec_of):
    """shared comparison for levinson / kautocor / kcovar; returns (problems, info)"""
    e = c["entry"]
    out = []
    model = drv["model"]
    vals = _trace_vals(drv, inputs)
    exact = all(isinstance(v, F) for v in vals) and _exact_regime(vals, (order or 0) + 2)
    cond = _conditioning(drv, scale)
    info = {"regime": "exact" if exact else "float", "skipped": False, "passes": len(drv.get("trace", []))}
    tol = 0 if exact else TOL
    safe = exact or cond >= 1e-4
    if not exact and e in ("levinson", "kautocor") and "err" not in model and cond > 0:
        # float regime, the exact recursion meets no zero divisor ("every autocorrelation sequence on
        # which the recursion does not divide by zero", also NEAR-singular ones): the recursion must go on
        # to the requested order, and the float result is compared under a conditioning-aware bound:
        # rounding errors of relative size 2^-52 are amplified by at most ~ (order+2) * growth^2 /
        # (smallest relative divisor), growth = largest sum |A_i| / largest |k| met
        tolc = _cond_tol(drv, order, cond)
        if cond < 1e-4:
            info["near_singular"] = "1e%d" % math.floor(math.log10(cond))
        if tolc <= 1e-2:
            tol = max(TOL, tolc)
            safe = True
            if cond < 1e-4 or tolc > TOL:
                info["cond_tol"] = "1e%d" % math.ceil(math.log10(tol))
        else:
            safe = False
            info["cond_tol"] = "not compared (bound > 1e-2)"
            if tolc <= 0.5:
                # too ill-conditioned for a comparison of values, but the divisors keep their sign and at
                # least one digit: the float recursion cannot meet a zero divisor either, it must go on
                info["goes_on"] = tolc
    if "err" in io and io["err"].startswith("UNMAPPED"):
        return [("model", e + ": unmapped impl exception " + io["err"])], info

    # exceptions that depend on lengths only (IndexError, ValueError of lag_matrix): empty trace
    structural = "err" in model and not drv.get("trace")
    if not safe and not structural:
        # float regime, exact recursion on / within 1e-4 of one of its exits (zero divisor, |k| = 1):
        # rounding decides which side the impl takes, and amplifies its error by 1/distance.  The
        # property speaks of the exact recursion away from its zero divisors: nothing to compare
        # unless both sides agree anyway.
        if model.get("err") != io.get("err") or "err" not in model:
            info["skipped"] = True
        if info.get("goes_on") is not None:
            if "err" in io:
                out.append(("spec", "%s: impl raises %s although the exact recursion meets no zero divisor "
                                    "(smallest relative divisor %.3g, float error bound %.2g)" %
                            (e, io["err"], cond, info["goes_on"])))
                out.append(("model", "%s: impl raises %s, model returns a filter" % (e, io["err"])))
            else:
                ia, ma = decl(io["a"]), decl(model["a"])
                top = max(abs(x) for x in ma)
                if len(ia) < len(ma) and abs(ma[-1]) > 4 * info["goes_on"] * (1 + top):
                    out.append(("spec", "%s: the recursion stopped short of the requested order: %d coefficients, the "
                                        "exact solution has %d (last one %.6g)" % (e, len(ia), len(ma), float(ma[-1]))))
                    out.append(("model", "%s: coefficient count differs" % e))
            info["goes_on"] = True
        return out, info

    # --- impl <-> model -------------------------------------------------------------
    if "err" in model:
        if io.get("err") != model["err"]:
            out.append(("model", "%s: model raises %s, impl gives %s" % (e, model["err"], _brief(io))))
            out.append(("spec", "%s: exception differs (model %s, impl %s)" % (e, model["err"], _brief(io))))
    elif "err" in io:
        out.append(("model", "%s: impl raises %s, model returns a filter" % (e, io["err"])))
        out.append(("spec", "%s: impl raises %s although the exact recursion meets no zero divisor "
                            "(nearest relative distance %.3g)" % (e, io["err"], cond)))
    else:
        ia, ie = decl(io["a"]), dec(io["error"])
        ma, me = decl(model["a"]), dec(model["error"])
        if decl(io["den"]) != [1]:
            out.append(("model", e + ": denominator is not 1"))
        if not (_finite(ie) and all(_finite(x) for x in ia)):
            out.append(("model", e + ": non-finite output"))
            out.append(("spec", e + ": non-finite output"))
        elif exact:
            if ia != ma:
                out.append(("model", "%s: coefficients differ: impl=%s model=%s" % (e, io["a"], model["a"])))
            if ie != me:
                out.append(("model", "%s: error differs: impl=%s model=%s" % (e, io["error"], model["error"])))
        else:
            n = max(len(ia), len(ma))
            if not common.close_list(_pad(ia, n), _pad(ma, n), tol):
                out.append(("model", "%s: coefficients differ: impl=%s model=%s" %
                            (e, [float(x) for x in ia], [float(x) for x in ma])))
            if not close(ie, me, tol * max(1, float(scale))):
                out.append(("model", "%s: error differs: impl=%r model=%r" % (e, float(ie), float(me))))
        # --- impl <-> spec: the Lean statement evaluated on the impl's own coefficients ----
        if drv.get("spec_impl") is not None and _finite(ie):
            out += spec_of(drv["spec_impl"], ia, ie, tol)
    # the model's own result must satisfy the spec exactly (sanity of the theorem's reading)
    if drv.get("spec_model") is not None and "a" in model:
        bad = spec_of(drv["spec_model"], decl(model["a"]), dec(model["error"]), 0)
        for k, d in bad:
            out.append(("model", "MODEL violates its own spec (theorem reading wrong?): " + d))
    return out, info


def _brief(io):
    return io["err"] if "err" in io else "a filter %s" % ([float(dec(x)) for x in io["a"]][:6],)


def _yw_spec(entry, order, rscale):
    def f(sp, a, err, tol):
        out = []
        yw = sp["yw"] if "yw" in sp else sp
        asum = sum(abs(x) for x in a)
        sc = max(1, float(rscale * asum))
        if dec(yw["a0"]) != 1:
            out.append(("spec", "%s: a[0] = %s is not 1" % (entry, yw["a0"])))
        if order is not None and yw["len"] > order + 1:
            out.append(("spec", "%s: %d coefficients for order %d" % (entry, yw["len"], order)))
        for i, x in enumerate(decl(yw["res"]), 1):
            if not close(x, F(0), tol * sc):
                out.append(("spec", "%s: normal equation %d has residual %.6g" % (entry, i, float(x))))
                break
        if not close(err, dec(yw["err_eq"]), tol * sc):
            out.append(("spec", "%s: error attribute %.12g but sum_j a_j r_j = %.12g" %
                        (entry, float(err), float(dec(yw["err_eq"])))))
        if "energy" in sp:
            en = dec(sp["energy"])
            if not close(err, en, tol * sc):
                out.append(("spec", "%s: error attribute %.12g but energy of a*block = %.12g" %
                            (entry, float(err), float(en))))
            for i, x in enumerate(decl(sp.get("perturbed", []))):
                if x < en - F(tol) * F(sc) * 10:
                    out.append(("spec", "%s: not a minimiser: perturbation %d has energy %.12g < %.12g" %
                                (entry, i, float(x), float(en))))
                    break
        return out
    return f


def _cov_spec(entry, order, scale):
    def f(sp, a, err, tol):
        out = []
        asum = sum(abs(x) for x in a)
        sc = max(1, float(scale * asum * asum))
        if dec(sp["a0"]) != 1:
            out.append(("spec", "%s: a[0] = %s is not 1" % (entry, sp["a0"])))
        if sp["len"] > order + 1:
            out.append(("spec", "%s: %d coefficients for order %d" % (entry, sp["len"], order)))
        for i, x in enumerate(decl(sp["res"]), 1):
            if not close(x, F(0), tol * sc):
                out.append(("spec", "%s: covariance normal equation %d has residual %.6g" % (entry, i, float(x))))
                break
        if not close(err, dec(sp["energy"]), tol * sc):
            out.append(("spec", "%s: error attribute %.12g but residual energy over n>=p = %.12g" %
                        (entry, float(err), float(dec(sp["energy"])))))
        if not close(err, dec(sp["err_eq"]), tol * sc):
            out.append(("spec", "%s: error attribute %.12g but sum_j a_j phi(0,j) = %.12g" %
                        (entry, float(err), float(dec(sp["err_eq"])))))
        return out
    return f


def compare(c, io, drv):
    if c["entry"] == "history":
        return _compare_history(c, io, drv)
    if c["entry"] == "f64":
        return F64.compare(c, io, drv)
    out = _compare_single(c, io, drv)
    if "arg_modified" in io:
        out.append(("spec", "%s modified its argument: the caller's %s %s became %s" %
                    (c["entry"], c.get("seq", "list"), c[_FIELD.get(c["entry"], "blk")], io["arg_modified"])))
    return out


def _cz(x):
    return (dec(x[0]), dec(x[1])) if isinstance(x, list) else (dec(x), F(0))


def _canon_out(e, out):
    """complex samples: every cell as the pair (re, im)"""
    if e == "acorr":
        return [_cz(x) for x in out]
    return [[_cz(x) for x in row] for row in out]


def _order_of(c, n):
    """the order the call works with (Lean `callOrder`): the int given (negative: 0), len - 1 by default"""
    o = c.get("ord")
    if o is None:
        v = c.get(_PARAMS[c["entry"]][1])
        return v if v is not None else n - 1
    if o["k"] in ("omitted", "none"):
        return n - 1
    if o["k"] == "int":
        return max(int(o["v"]), 0)
    return 0


def _ord_tag(c, n):
    """histogram bucket of the order spelling, relative to the length n"""
    o = c.get("ord")
    if o is None:
        v = c.get(_PARAMS[c["entry"]][1])
        o = {"k": "omitted"} if v is None else {"k": "int", "v": v}
    k = o["k"]
    if k in ("omitted", "none"):
        return k
    if k == "int":
        v = int(o["v"])
        rel = "negative" if v < 0 else "0" if v == 0 else "<len-1" if v < n - 1 else "=len-1" if v == n - 1 else \
              "=len" if v == n else ">len"
        return "%s %s" % (o.get("py", "int"), rel)
    q = dec(o["v"])
    return "%s %s%s" % (o.get("py", "float"), "integral" if q.denominator == 1 else "fractional",
                        " >=len" if q >= n else " <len")


def _compare_single(c, io, drv):
    e = c["entry"]
    k = key(c)
    o_ = c.get("ord") or {}
    if io.get("unsupported") and e in ("acorr", "kautocor") and o_.get("k") == "int" and int(o_["v"]) < 0:
        # `xrange(max_lag + 1)` is empty: acorr never asks for len(blk), the block is not looked at
        io = {kk: v for kk, v in io.items() if kk != "unsupported"}
        if "consumed" in io:
            return [("spec", "%s consumed its %s argument: %s left" % (e, c.get("seq"), io["consumed"]))]
    if io.get("unsupported"):
        # a generator / Stream has no len(): every function must refuse with TypeError, consuming nothing
        _INFO[k] = {"regime": "exact", "skipped": False}
        out = []
        if io.get("err") != "TypeError":
            out.append(("spec", "%s accepted a %s argument (no len()): %s" % (e, io["unsupported"], _brief(io)
                        if "a" in io or "err" in io else "returns")))
        if "consumed" in io:
            out.append(("spec", "%s raised on a %s argument but consumed it: %s left" %
                        (e, io["unsupported"], io["consumed"])))
        return out
    if e == "lpc":
        # the StrategyDict: which strategy the name selects, then that strategy's call
        want = drv.get("strategy")
        if io.get("strategy") != want:
            _INFO[k] = {"regime": "exact", "skipped": False}
            d = "lpc: name %r (%s) selects strategy %s, the decorators say %s" % (
                c.get("name"), c.get("via", "call"), io.get("strategy"), want)
            return [("model", d), ("spec", d)]
        if want is None:
            _INFO[k] = {"regime": "exact", "skipped": False}
            return []
        m = drv["model"]
        if isinstance(m, dict) and m.get("err") == "ModuleNotFoundError":
            _INFO[k] = {"regime": "exact", "skipped": False, "numpy": True}
            if io.get("err") not in _NO_NUMPY:
                d = "lpc.%s: the numpy strategy is expected (numpy absent: ModuleNotFoundError), impl gives %s" % (
                    want, _brief(io))
                return [("model", d), ("spec", d)]
            return []
        sub = dict(c, entry="kcovar" if want == "kcovar" else "kautocor")
        out = _compare_single(sub, {kk: v for kk, v in io.items() if kk != "strategy"}, drv)
        _INFO[k] = _INFO.get(key(sub), {})
        return out
    if c.get("num") == "complex" and e in ("levinson", "kautocor", "kcovar"):
        out, info = _cmp_gauss(c, io, drv)
        _INFO[k] = info
        return out
    if e in ("acorr", "lag_matrix", "toeplitz"):
        _INFO[k] = {"regime": "exact", "skipped": False}
        model = drv["model"]
        if c.get("num") == "complex" and not (isinstance(model, dict) and "err" in model) and "err" not in io:
            out = []
            if _canon_out(e, io["out"]) != _canon_out(e, model):
                out.append(("model", "%s differs from model: impl=%s model=%s" % (e, io["out"], model)))
            if _canon_out(e, io["out"]) != _canon_out(e, drv["spec"]):
                out.append(("spec", "%s differs from the documented sums: impl=%s spec=%s" % (e, io["out"], drv["spec"])))
            return out
        if isinstance(model, dict) and "err" in model:
            if io.get("err") != model["err"]:
                return [("model", "%s: model raises %s, impl %s" % (e, model["err"], io.get("err", "returns"))),
                        ("spec", "%s: expected %s" % (e, model["err"]))]
            return []
        if "err" in io:
            return [("model", "%s: impl raises %s" % (e, io["err"])), ("spec", "%s: impl raises %s" % (e, io["err"]))]
        out = []
        if io["out"] != model:
            out.append(("model", "%s differs from model: impl=%s model=%s" % (e, io["out"], model)))
        if io["out"] != drv["spec"]:
            out.append(("spec", "%s differs from the documented sums: impl=%s spec=%s" % (e, io["out"], drv["spec"])))
        return out
    if e == "levinson":
        r = decl(c["r"])
        order = _order_of(c, len(r))
        rs = max([abs(x) for x in r] + [F(0)])
        out, info = _cmp_filter(c, io, drv, r, order, abs(r[0]) if r else F(0), _yw_spec(e, order, rs))
    elif e == "kautocor":
        b = decl(c["blk"])
        r = decl(drv["r"])
        order = _order_of(c, len(b))
        rs = max([abs(x) for x in r] + [F(0)])
        out, info = _cmp_filter(c, io, drv, b + r, order, abs(r[0]) if r else F(0), _yw_spec(e, order, rs))
    else:
        b = decl(c["blk"])
        order = _order_of(c, len(b))
        sc = sum(x * x for x in b)
        out, info = _cmp_filter(c, io, drv, b + [sc], order, sc, _cov_spec(e, order, sc))
        m = drv["model"]
        if isinstance(m, dict) and m.get("err") == "ZeroDivisionError":
            # theorem kcovar_zero_division_singular on this input: the B_m with beta[m] = 0 is a non-zero
            # combination of the delays that annihilates the block on the whole window
            dep = drv.get("dep")
            info["singular_witness"] = True
            if not dep or any(dec(x) != 0 for x in dep["window"]) or all(dec(x) == 0 for x in dep["b"]):
                out.append(("model", "MODEL: ZeroDivisionError without a dependency of the delayed copies "
                                     "(theorem reading wrong?): %s" % (dep,)))
    _INFO[k] = info
    return out


def _cabs(z):
    return math.hypot(float(z[0]), float(z[1]))


def _cmp_gauss(c, io, drv):
    """complex samples (Gaussian rationals in the model, Python complex in the impl): float regime,
    tolerance 1e-9 on both parts; well-conditioned cases only are generated, the trace decides"""
    e = c["entry"]
    out = []
    info = {"regime": "float", "skipped": False, "passes": len(drv.get("trace", []))}
    model = drv["model"]
    if "err" in io and io["err"].startswith("UNMAPPED"):
        return [("model", e + ": unmapped impl exception " + io["err"])], info
    lags = c["r"] if e == "levinson" else (drv.get("r") or [])
    sc = _cabs(_cz(lags[0])) if lags else 0.0
    cond = 1.0
    if e != "kcovar":
        for it in drv.get("trace", []):
            d = _cabs(_cz(it["den"]))
            cond = min(cond, d / sc if sc else 0.0)
    structural = "err" in model and not drv.get("trace")
    if cond < 1e-4 and not structural and e != "kcovar":
        info["skipped"] = True
        return out, info
    if "err" in model:
        if io.get("err") != model["err"]:
            d = "%s (complex): model raises %s, impl gives %s" % (e, model["err"], io.get("err", "a filter"))
            out += [("model", d), ("spec", d)]
        return out, info
    if "err" in io:
        d = "%s (complex): impl raises %s, model returns a filter" % (e, io["err"])
        return [("model", d), ("spec", d)], info
    ia, ma = [_cz(x) for x in io["a"]], [_cz(x) for x in model["a"]]
    ie, me = _cz(io["error"]), _cz(model["error"])
    n = max(len(ia), len(ma))
    ia += [(F(0), F(0))] * (n - len(ia))
    ma += [(F(0), F(0))] * (n - len(ma))
    scale = max([1.0] + [_cabs(x) for x in ma])

    def near(u, v, sc):
        return abs(float(u[0] - v[0])) <= TOL * sc * 10 and abs(float(u[1] - v[1])) <= TOL * sc * 10
    if not all(near(u, v, scale) for u, v in zip(ia, ma)):
        out.append(("model", "%s (complex): coefficients differ: impl=%s model=%s" % (e, io["a"], model["a"])))
    esc = max(1.0, _cabs(me)) * scale * scale
    if not near(ie, me, esc):
        out.append(("model", "%s (complex): error differs: impl=%s model=%s" % (e, io["error"], model["error"])))
    sp = drv.get("spec_impl")
    if sp is not None:
        yw = sp["yw"] if "yw" in sp else sp
        rs = max([1.0] + [_cabs(_cz(x)) for x in (drv.get("r") or c.get("r") or [])]) * scale * n
        if _cz(yw["a0"]) != (F(1), F(0)):
            out.append(("spec", "%s (complex): a[0] is not 1" % e))
        for i, x in enumerate(yw["res"], 1):
            if not near(_cz(x), (F(0), F(0)), rs):
                out.append(("spec", "%s (complex): normal equation %d has residual %s" % (e, i, x)))
                break
        if not near(ie, _cz(yw["err_eq"]), rs):
            out.append(("spec", "%s (complex): error attribute %s but sum_j a_j r_j = %s" % (e, io["error"], yw["err_eq"])))
        if "energy" in sp and not near(ie, _cz(sp["energy"]), rs):
            out.append(("spec", "%s (complex): error attribute %s but energy of a*block = %s" % (e, io["error"], sp["energy"])))
    return out, info


# ----------------------------------------------------------------------------------------
# statistics, shrinking, search
# ----------------------------------------------------------------------------------------
def nontrivial(c, io):
    if c["entry"] == "f64":
        return F64.nontrivial(c, io)
    if c["entry"] == "history":
        ran = [(s, o) for s, o in zip(io.get("subs", []), io.get("calls", [])) if s is not None]
        return len(ran) >= 2 and any(nontrivial(s, o) for s, o in ran)
    if "err" in io:
        return io["err"] in ("ParCorError", "ZeroDivisionError", "ValueError", "IndexError", "TypeError") + _NO_NUMPY
    if c["entry"] == "lpc" and io.get("strategy") is None:
        return True
    if "a" in io:
        return len(io["a"]) >= 2
    return bool(io.get("out"))


def tally(eng, c, io):
    e = c["entry"]
    eng.count("entry", e)
    if e == "history":
        return _tally_history(eng, c, io)
    if e == "f64":
        return F64.tally(eng, c, io)
    info = _INFO.get(key(c), {})
    eng.count("regime", "%s:%s" % (e, info.get("regime", "?")))
    if info.get("skipped"):
        eng.count("float_ill_conditioned_model_comparison_skipped", e)
    if info.get("near_singular"):
        eng.count("near_singular_smallest_relative_divisor", "%s:%s" % (e, info["near_singular"]))
        eng.count("near_singular_compared_with_tolerance", "%s:%s" % (e, info.get("cond_tol", "not compared (bound > 1e-2)")))
    if info.get("goes_on"):
        eng.count("near_singular_not_compared_but_must_return", e)
    if info.get("cond_tol") and not info.get("near_singular"):
        eng.count("high_growth_compared_with_tolerance", "%s:%s" % (e, info["cond_tol"]))
        eng.count("near_singular_impl_outcome", "%s:%s" % (e, io.get("err", "returns (goes on to the order)")))
    if info.get("singular_witness"):
        eng.count("kcovar_zero_division_dependency_witness_checked", e)
    eng.count("impl_outcome", "%s:%s" % (e, io.get("err", "returns")))
    eng.count("number_type", c.get("num"))
    xs = c.get(_FIELD.get(e, "blk"), [])
    n = len(xs)
    # call shape / spelling / container dimensions
    kw = c.get("kw") or {}
    if e != "toeplitz":
        given = _py_order(c)[0]
        eng.count("call_shape", "%s: data %s, order %s" % (
            e, "keyword" if kw.get("data") else "positional",
            "omitted" if not given else "keyword" if (kw.get("ord") or kw.get("data")) else "positional"))
        eng.count("order_spelling", "%s: %s" % (e, _ord_tag(c, n)))
    else:
        eng.count("call_shape", "toeplitz: data %s" % ("keyword" if kw.get("data") else "positional"))
    eng.count("container", c.get("seq") or "list")
    if xs and c.get("num") != "complex":
        z = [dec(x) == 0 for x in xs]
        if all(z):
            eng.count("zeros_in_data", "%s: all zero" % e)
        else:
            if z[0]:
                eng.count("zeros_in_data", "%s: leading zeros" % e)
            if z[-1]:
                eng.count("zeros_in_data", "%s: trailing zeros" % e)
    if e == "lpc":
        eng.count("lpc_lookup", "%s -> %s" % ("lpc(...)" if c.get("name") is None else
                  ("lpc[%r]" if c.get("via") == "item" else "lpc.%s") % c["name"], io.get("strategy")))
        if info.get("numpy"):
            eng.count("lpc_numpy_strategy_reached", "%s order %s" % (io.get("strategy"), _ord_tag(c, n)))
        return
    o = None if _ord_tag(c, n) in ("omitted", "none") else _order_of(c, n)
    if e == "levinson":
        eng.count("lev_family", c.get("fam"))
        eng.count("lev_order", "None" if o is None else min(o, 10))
        eng.count("lev_order_vs_len", "None" if o is None else ("order<len-1" if o < n - 1 else
                  "order=len-1" if o == n - 1 else "order>=len (zero ext)"))
        if "a" in io:
            eng.count("lev_returned_len_vs_order", "trimmed" if o is not None and len(io["a"]) < o + 1 else "full")
        elif info.get("passes") and "err" in io:
            eng.count("lev_exit", "%s at pass %d" % (io["err"], min(info["passes"], 9)))
    elif e in ("kautocor", "kcovar"):
        eng.count(e + "_order", "None" if o is None else min(o, 10))
        eng.count(e + "_order_vs_len", "None" if o is None else ("order<len" if o < n else "order>=len"))
        eng.count(e + "_blklen", min(n // 4 * 4, 28))
        if "err" in io:
            where = "structural (lengths / spelling)" if not info.get("passes") else "pass %d" % min(info["passes"], 7)
            eng.count(e + "_exit", "%s at %s" % (io["err"], where))
    else:
        eng.count(e + "_size", min(n, 16))


def _simplify(xs):
    for i in range(len(xs)):
        v = dec(xs[i])
        if v != 0:
            yield xs[:i] + [0] + xs[i + 1:]
        if v.denominator != 1 or abs(v) > 3:
            w = F(round(v))
            if abs(w) > 3:
                w = F(3 if w > 0 else -3)
            yield xs[:i] + [enc(w)] + xs[i + 1:]


def shrink(c):
    e = c["entry"]
    if e == "history":
        yield from _shrink_history(c)
        return
    if e == "f64":
        yield from F64.shrink(c)
        return
    fld = {"levinson": "r", "toeplitz": "vect"}.get(e, "blk")
    xs = c[fld]
    okey = "order" if e in ("levinson", "kautocor", "kcovar", "lpc") else ("max_lag" if e != "toeplitz" else None)
    if xs:
        yield dict(c, **{fld: xs[:-1]})
        yield dict(c, **{fld: xs[1:]})
    if okey and c.get(okey) is not None:
        o = c[okey]
        if o > 0:
            yield dict(c, **{okey: o - 1})
            if xs and o >= 1:
                yield dict(c, **{okey: o - 1, fld: xs[:-1]})
    if okey and c.get(okey) is None and xs:
        yield dict(c, **{okey: len(xs) - 1})
    for ys in (_simplify(xs) if c.get("num") != "complex" else []):
        d = dict(c, **{fld: ys})
        if c.get("num") in ("int", "bool", "bigint") and any(dec(y).denominator != 1 for y in ys):
            continue
        yield d
    if c.get("num") in ("float",) and all(dec(x).denominator == 1 for x in xs):
        yield dict(c, num="int")
    if c.get("seq") not in (None, "list"):
        yield dict(c, seq="list")
    if c.get("kw"):
        yield {k: v for k, v in c.items() if k != "kw"}
    if c.get("ord") is not None and e != "lpc":
        o = c["ord"]
        d = {k: v for k, v in c.items() if k != "ord"}
        if o["k"] in ("omitted", "none"):
            yield dict(d, **{okey: None})
            if o["k"] == "none":
                yield dict(c, ord={"k": "omitted"})
        elif o["k"] == "int" and int(o["v"]) >= 0:
            yield dict(d, **{okey: int(o["v"])})
        elif o["k"] == "int":
            yield dict(c, ord={"k": "int", "v": -1})
        else:
            yield dict(c, ord=dict(o, v=1))
    if e == "lpc" and c.get("via") == "item":
        yield dict(c, via="attr")
    if c.get("num") == "bool":
        yield dict(c, num="int")


def neighbours(c):
    e = c["entry"]
    if e == "history":
        yield from _neighbours_history(c)
        return
    if e == "f64":
        yield from F64.neighbours(c)
        return
    fld = {"levinson": "r", "toeplitz": "vect"}.get(e, "blk")
    xs = c[fld]
    okey = "order" if e in ("levinson", "kautocor", "kcovar", "lpc") else ("max_lag" if e != "toeplitz" else None)
    if okey:
        o = c.get(okey)
        for d in (-1, 1, 2):
            if o is not None and o + d >= 0:
                yield dict(c, **{okey: o + d})
        if o is None and xs:
            yield dict(c, **{okey: len(xs) - 1})
    for i in range(len(xs) if c.get("num") != "complex" else 0):
        v = dec(xs[i])
        yield dict(c, **{fld: xs[:i] + [0] + xs[i + 1:]})
        yield dict(c, **{fld: xs[:i] + [enc(-v)] + xs[i + 1:]})
    if xs:
        yield dict(c, **{fld: xs[:-1]})


def classify(c, io, drv):
    e = c["entry"]
    if e == "history":
        return _classify_history(c, io, drv)
    if e == "f64":
        return F64.classify(c, io, drv)
    if io.get("arg_modified") is not None:
        return "%s:argument-modified" % e
    if "err" in io:
        m = drv.get("model")
        me = m.get("err", "returns") if isinstance(m, dict) else "returns"
        return "%s:impl-raises-%s:model-%s" % (e, io["err"], me)
    probs = compare(c, io, drv)
    words = []
    for kind, d in probs:
        if kind != "spec":
            continue
        for w in ("a[0]", "normal equation", "sum_j a_j", "energy", "minimiser", "coefficients for order",
                  "documented sums", "exception differs", "non-finite"):
            if w in d and w not in words:
                words.append(w)
    return "%s:%s" % (e, "+".join(words) if words else "content")


# ----------------------------------------------------------------------------------------
# histories: sequences of calls sharing their argument objects
# ----------------------------------------------------------------------------------------
#   {"entry": "history",
#    "objs":  [{"vals": [...], "num": "int|frac|float", "kind": "list|tuple|deque|roseq|stream|gen"}, ...],
#    "calls": [{"fn": "levinson|kautocor|kcovar|lpc", "arg": A, "order": o, "scribble": bool},
#              {"fn": "acorr|lag_matrix", "arg": A, "max_lag": o, "scribble": bool},
#              {"fn": "toeplitz", "arg": A, "scribble": bool},
#              {"fn": "poke", "arg": j, "idx": i, "val": v}]}      # the caller assigns x_j[i] = v
#   A = j (the shared object x_j) or {"res": k} (the list that call number k, an acorr, returned).
_HIST = {}       # key(history case) -> per step the driver request of that call (None: not a call)
_SENT = 424242   # what the harness scribbles on the results it owns
_KINDS = ("list", "tuple", "deque", "roseq", "stream", "gen")
_MUTABLE = ("list", "deque")
_NO_NUMPY = ("OTHER:ModuleNotFoundError", "OTHER:ImportError")
_ORDER_KEY = {"levinson": "order", "kautocor": "order", "kcovar": "order", "lpc": "order",
              "acorr": "max_lag", "lag_matrix": "max_lag"}
_PYNAME = {"levinson": "levinson_durbin", "kautocor": "lpc.kautocor", "kcovar": "lpc.kcovar", "lpc": "lpc",
           "acorr": "acorr", "lag_matrix": "lag_matrix", "toeplitz": "toeplitz"}


class _ROSeq(object):
    """a read-only sequence: len / index / iterate, nothing else"""
    __slots__ = ("_x",)

    def __init__(self, xs):
        self._x = tuple(xs)

    def __len__(self):
        return len(self._x)

    def __getitem__(self, i):
        return self._x[i]

    def __iter__(self):
        return iter(self._x)


def _mk(kind, vals):
    if kind == "list":
        return list(vals)
    if kind == "tuple":
        return tuple(vals)
    if kind == "deque":
        import collections
        return collections.deque(vals)
    if kind == "roseq":
        return _ROSeq(vals)
    if kind == "stream":
        from audiolazy import Stream
        return Stream(list(vals))
    if kind == "gen":
        return (x for x in list(vals))
    raise ValueError(kind)


def _same(live, prist):
    """same values AND same number types, element by element"""
    xs = list(live)
    return len(xs) == len(prist) and all(type(x) is type(y) and x == y for x, y in zip(xs, prist))


def _show(xs):
    try:
        return "[" + ", ".join(str(x) if isinstance(x, F) else repr(x) for x in xs) + "]"
    except Exception:
        return repr(xs)


def _filt_enc(f):
    return {"a": encl(list(f.numerator)), "error": enc(f.error), "den": encl(list(f.denominator))}


def _subcase(st, vals_js, num):
    fn = st["fn"]
    if fn == "levinson":
        return {"entry": "levinson", "r": vals_js, "order": st.get("order"), "num": num, "fam": "history", "seq": "list"}
    if fn == "toeplitz":
        return {"entry": "toeplitz", "vect": vals_js, "num": num}
    if fn in ("acorr", "lag_matrix"):
        return {"entry": fn, "blk": vals_js, "max_lag": st.get("max_lag"), "num": num}
    if fn in ("kautocor", "kcovar", "lpc"):     # lpc at order >= 100 is lpc.kautocor
        return {"entry": "kautocor" if fn == "lpc" else fn, "blk": vals_js, "order": st.get("order"), "num": num}
    raise ValueError("history: unknown fn %r" % (fn,))


def _call_text(st, names):
    a = st.get("arg")
    nm = names[a] if not isinstance(a, dict) else "y%d" % (a["res"] + 1)
    if st["fn"] == "poke":
        return "%s[%d] = %s" % (nm, st["idx"], st["val"])
    ok = _ORDER_KEY.get(st["fn"])
    o = st.get(ok) if ok else None
    return "%s(%s%s)" % (_PYNAME[st["fn"]], nm, "" if o is None else ", %d" % o)


def _describe(c):
    names = ["x%d" % j for j in range(len(c["objs"]))]
    parts = []
    for nm, o in zip(names, c["objs"]):
        k = o["kind"]
        ctor = {"roseq": "ReadOnlySeq", "gen": "iter", "stream": "Stream"}.get(k, k)
        parts.append("%s = %s([%s]%s)" % (nm, ctor, ", ".join(str(v) for v in o["vals"]),
                                         "" if o["num"] == "int" else " as " + o["num"]))
    for i, st in enumerate(c["calls"]):
        t = _call_text(st, names)
        parts.append(t if st["fn"] == "poke" else "y%d = %s" % (i + 1, t))
    return "; ".join(parts)


def _do_call(st, arg):
    from audiolazy import levinson_durbin, lpc, acorr, lag_matrix, toeplitz
    fn = st["fn"]
    if fn == "toeplitz":
        return toeplitz(arg)
    f = {"levinson": levinson_durbin, "kautocor": lpc.kautocor, "kcovar": lpc.kcovar, "lpc": lpc,
         "acorr": acorr, "lag_matrix": lag_matrix}[fn]
    o = st.get(_ORDER_KEY[fn])
    return f(arg, o) if o is not None else f(arg)


def _observe(fn, res):
    if fn in ("acorr",):
        return {"out": encl(res)}
    if fn in ("lag_matrix", "toeplitz"):
        return {"out": [encl(row) for row in res]}
    return _filt_enc(res)


def _impl_history(c):
    """run the history on live shared objects; report per call what the single-call `impl` reports,
    plus the side effects (`effects`) and the single-call cases the calls stand for (`subs`)"""
    objs, steps = c["objs"], c["calls"]
    names = ["x%d" % j for j in range(len(objs))]
    prist = [_vals(o["vals"], o["num"]) for o in objs]
    live = [_mk(o["kind"], p) for o, p in zip(objs, prist)]
    used_later = set()
    for st in steps:
        if isinstance(st.get("arg"), dict):
            used_later.add(st["arg"]["res"])
    calls, subs, reqs, effects = [], [], [], []
    held = {}      # step -> (fn, live result, first observation): results the caller still holds untouched
    reuse = {}     # step -> (live list acorr returned, pristine python values, num)
    snap = [list(p) for p in prist]     # state of the shared objects before the current call
    rsnap = {}
    for i, st in enumerate(steps):
        fn = st["fn"]
        if fn == "poke":
            j = st["arg"]
            if objs[j]["kind"] in _MUTABLE and prist[j]:
                v = _vals([st["val"]], objs[j]["num"])[0]
                ix = st["idx"] % len(prist[j])
                if ix < len(live[j]):        # (a modified list may have lost elements)
                    live[j][ix] = v
                prist[j][ix] = v
                if ix < len(snap[j]):
                    snap[j][ix] = v
                calls.append({"poke": True})
            else:
                calls.append({"skipped": "poke"})
            subs.append(None)
            reqs.append(None)
            continue
        a = st["arg"]
        if isinstance(a, dict):
            if a["res"] not in reuse:
                calls.append({"skipped": "no result to pass on"})
                subs.append(None)
                reqs.append(None)
                continue
            arg, avals, num = reuse[a["res"]]
            kind = "list"
        else:
            kind, num, avals = objs[a]["kind"], objs[a]["num"], prist[a]
            if kind in ("stream", "gen"):
                live[a] = _mk(kind, avals)       # consumables: a fresh one per call
            arg = live[a]
        sub = _subcase(st, encl(avals), num)
        res = None
        try:
            res = _do_call(st, arg)
            ob = _observe(fn, res)
        except Exception as ex:
            ob = {"err": err_kind(ex)}
            res = None
        if kind in ("stream", "gen") and ob.get("err") == "TypeError":
            ob["unsupported"] = kind
            rest = list(arg)
            if not _same(rest, avals):
                effects.append({"at": i, "what": "stream-consumed", "fn": fn,
                                "text": "%s raised TypeError on the %s argument but consumed it: %s left of %s" %
                                        (_call_text(st, names), kind, _show(rest), _show(avals))})
        # (a) no call may modify its arguments: every shared object is as it was before the call
        #     (`snap`: its state before this call, = the pristine copy until a modification was reported;
        #     the pristine copy stays the reference of every later call)
        for j, o in enumerate(objs):
            if o["kind"] in _MUTABLE and not _same(live[j], snap[j]):
                effects.append({"at": i, "what": "argument-modified", "fn": fn,
                                "text": "%s changed the caller's %s %s = %s into %s" %
                                        (_call_text(st, names), o["kind"], names[j], _show(snap[j]), _show(live[j]))})
                snap[j] = list(live[j])
        for k in sorted(reuse):
            lst, pv, _n = reuse[k]
            if not _same(lst, rsnap[k]):
                effects.append({"at": i, "what": "argument-modified", "fn": fn,
                                "text": "%s changed the list y%d = %s (returned by acorr, held by the caller) into %s" %
                                        (_call_text(st, names), k + 1, _show(rsnap[k]), _show(lst))})
                rsnap[k] = list(lst)
        # (b) results obtained earlier do not change
        for k, (kfn, kres, kobs) in sorted(held.items()):
            try:
                now = _observe(kfn, kres)
            except Exception as ex:
                now = {"err": err_kind(ex)}
            if now != kobs:
                effects.append({"at": i, "what": "result-changed-later", "fn": fn,
                                "text": "after %s the result y%d of %s changed from %s to %s" %
                                        (_call_text(st, names), k + 1, _call_text(steps[k], names),
                                         json.dumps(kobs)[:120], json.dumps(now)[:120])})
                held[k] = (kfn, kres, now)
        calls.append(ob)
        subs.append(sub)
        r = {k: v for k, v in sub.items() if k not in ("num", "fam", "seq")}
        if "a" in ob and all(not isinstance(x, str) or x not in ("nan", "inf", "-inf") for x in ob["a"]):
            r["impl_a"] = ob["a"]
        reqs.append(r)
        if res is None:
            continue
        if fn == "acorr" and i in used_later and isinstance(res, list):
            reuse[i] = (res, list(res), num)
            rsnap[i] = list(res)
        elif st.get("scribble"):
            # the caller owns what it was given: write on it; nobody else may see that
            try:
                if fn == "acorr":
                    if res:
                        res[0] = _SENT
                    res.append(_SENT)
                elif fn in ("lag_matrix", "toeplitz"):
                    if res:
                        before = [list(row) for row in res[1:]]
                        res[0].append(_SENT)
                        if res[0]:
                            res[0][0] = _SENT
                        if [list(row) for row in res[1:]] != before:
                            effects.append({"at": i, "what": "result-rows-alias", "fn": fn,
                                            "text": "rows of the table %s returned alias each other: writing on "
                                                    "row 0 changed another row" % _call_text(st, names)})
                    res.append([_SENT])
                else:
                    res.error = _SENT
            except Exception as ex:
                effects.append({"at": i, "what": "result-not-writable", "fn": fn,
                                "text": "the result of %s cannot be written on: %s" % (_call_text(st, names), err_kind(ex))})
            # writing on a result must not reach the arguments either
            for j, o in enumerate(objs):
                if o["kind"] in _MUTABLE and not _same(live[j], snap[j]):
                    effects.append({"at": i, "what": "result-aliases-argument", "fn": fn,
                                    "text": "writing on the result of %s changed the caller's %s from %s to %s" %
                                            (_call_text(st, names), names[j], _show(snap[j]), _show(live[j]))})
                    snap[j] = list(live[j])
            for k in sorted(reuse):
                if not _same(reuse[k][0], rsnap[k]):
                    effects.append({"at": i, "what": "result-aliases-argument", "fn": fn,
                                    "text": "writing on the result of %s changed the list y%d held by the caller from "
                                            "%s to %s" % (_call_text(st, names), k + 1, _show(rsnap[k]), _show(reuse[k][0]))})
                    rsnap[k] = list(reuse[k][0])
            for k, (kfn, kres, kobs) in sorted(held.items()):
                try:
                    now = _observe(kfn, kres)
                except Exception as ex:
                    now = {"err": err_kind(ex)}
                if now != kobs:
                    effects.append({"at": i, "what": "results-alias", "fn": fn,
                                    "text": "writing on the result of %s changed the earlier result y%d of %s" %
                                            (_call_text(st, names), k + 1, _call_text(steps[k], names))})
                    held[k] = (kfn, kres, now)
        else:
            held[i] = (fn, res, ob)
    _HIST[key(c)] = reqs
    return {"calls": calls, "subs": subs, "effects": effects}


def _hist_problems(c, io, drv):
    """[(step, kind, what, fn, text)] in the order of the history"""
    out = []
    payloads = list(drv.get("calls", []))
    infos = []
    pos = 0
    names = ["x%d" % j for j in range(len(c["objs"]))]
    effs = {}
    for ef in io.get("effects", []):
        effs.setdefault(ef["at"], []).append(ef)
    for i, st in enumerate(c["calls"]):
        sub = io["subs"][i] if i < len(io.get("subs", [])) else None
        if sub is not None:
            ob = io["calls"][i]
            pay = payloads[pos] if pos < len(payloads) else None
            pos += 1
            if pay is None:
                out.append((i, "model", "driver", st["fn"], "no driver payload for call %d" % (i + 1)))
            else:
                skip = None
                if ob.get("unsupported"):
                    skip = "TypeError on a %s argument (needs len())" % ob["unsupported"]
                elif st["fn"] == "lpc" and ob.get("err") in _NO_NUMPY + ("TypeError",):
                    o = st.get("order")
                    m = pay.get("model")
                    if o is None or o < 100 or (isinstance(m, dict) and m.get("err") == "ParCorError"):
                        skip = "lpc default strategy needs numpy / an int order here"
                if skip:
                    infos.append({"entry": sub["entry"], "skip": skip})
                else:
                    ob2 = {k: v for k, v in ob.items() if k != "unsupported"}
                    for kind, d in _compare_single(sub, ob2, pay):
                        out.append((i, kind, "wrong-result", st["fn"],
                                    "call %d %s on the values %s: %s" % (i + 1, _call_text(st, names),
                                                                        sub[_FIELD.get(sub["entry"], "blk")], d)))
                    inf = dict(_INFO.get(key(sub), {}))
                    inf["entry"] = sub["entry"]
                    infos.append(inf)
        for ef in effs.get(i, []):
            out.append((i, "spec", ef["what"], ef["fn"], ef["text"]))
    _INFO[key(c)] = {"subs": infos}
    return out


def _compare_history(c, io, drv):
    if "err" in io:     # the harness' own bookkeeping failed
        return [("model", "history: harness error %s %s" % (io["err"], io.get("trace", "")[-300:]))]
    probs = _hist_problems(c, io, drv)
    if not probs:
        return []
    # effects first: the engine truncates the joined detail
    probs.sort(key=lambda p: (p[2] == "wrong-result", p[0]))
    out = [(kind, text) for _i, kind, _w, _f, text in probs]
    k0, t0 = out[0]
    out[0] = (k0, "history [%s]: %s" % (_describe(c), t0))
    return out


def _classify_history(c, io, drv):
    """the first thing that goes wrong along the history (what + which function), and whether a
    later call returns a wrong result because of it; lpc (default strategy) counts as lpc.kautocor"""
    if "err" in io:
        return "history:harness-error"
    first = None
    for i, kind, what, fn, _t in _hist_problems(c, io, drv):
        if kind != "spec":
            continue
        if first is None:
            first = (i, "%s:%s" % (what, "kautocor" if fn == "lpc" else fn))
        elif what == "wrong-result" and i > first[0]:
            return "history:%s+wrong-result-later" % first[1]
    return "history:" + (first[1] if first else "model-only")


def _tally_history(eng, c, io):
    objs, steps = c["objs"], c["calls"]
    for o in objs:
        eng.count("hist_container", o["kind"])
        eng.count("hist_number_type", o["num"])
    real = [st for st in steps if st["fn"] != "poke"]
    eng.count("hist_calls_per_history", len(real))
    if "calls" not in io:
        return
    extended = set()     # shared objects (or results) that a levinson call with order >= len has seen
    seen = set()
    lens = [len(o["vals"]) for o in objs]
    for i, st in enumerate(steps):
        fn = st["fn"]
        ob = io["calls"][i]
        eng.count("hist_call_kind", fn)
        if fn == "poke":
            eng.count("hist_pattern", "caller assigns between calls")
            continue
        if "skipped" in ob:
            eng.count("hist_call_outcome", "skipped (%s)" % ob["skipped"])
            continue
        a = st["arg"]
        ak = "res%d" % a["res"] if isinstance(a, dict) else "obj%d" % a
        eng.count("hist_arg_source", "list returned by acorr" if isinstance(a, dict) else "shared " + objs[a]["kind"])
        if isinstance(a, dict):
            eng.count("hist_pattern", "acorr result passed on")
        n = len(io["subs"][i][_FIELD.get(io["subs"][i]["entry"], "blk")])
        sig = json.dumps([fn, ak, st.get("order"), st.get("max_lag")])
        if sig in seen:
            eng.count("hist_pattern", "same call repeated on the same object")
        seen.add(sig)
        if st.get("scribble") and "err" not in ob:
            eng.count("hist_pattern", "caller writes on the result")
        if fn == "levinson":
            o = st.get("order")
            rel = "default" if o is None else ("order<len-1" if o < n - 1 else "order=len-1" if o == n - 1 else
                                              "order>=len (zero ext)")
            eng.count("hist_lev_order_vs_len", rel)
            if ak in extended and o is None:
                eng.count("hist_pattern", "levinson order>=len, then default order on the same list")
            if o is not None and o >= n:
                extended.add(ak)
        elif fn == "toeplitz":
            if ak in extended:
                eng.count("hist_pattern", "levinson order>=len, then toeplitz of the same list")
        else:
            o = st.get(_ORDER_KEY[fn])
            eng.count("hist_%s_order_vs_len" % fn, "default" if o is None else ("order<len" if o < n else "order>=len"))
        if ob.get("unsupported"):
            eng.count("hist_call_outcome", "%s:TypeError on %s, nothing consumed" % (fn, ob["unsupported"]))
        else:
            eng.count("hist_call_outcome", "%s:%s" % (fn, ob.get("err", "returns")))
    for inf in _INFO.get(key(c), {}).get("subs", []):
        if "skip" in inf:
            eng.count("hist_call_not_compared", inf["skip"])
        else:
            eng.count("regime", "history/%s:%s" % (inf["entry"], inf.get("regime", "?")))
            if inf.get("skipped"):
                eng.count("float_ill_conditioned_model_comparison_skipped", "history/" + inf["entry"])
    eng.count("hist_side_effects_seen", len(io.get("effects", [])))


# --- generation -------------------------------------------------------------------------
def _pick_kind(rng):
    return rng.choice(["list"] * 11 + ["tuple"] * 2 + ["deque"] * 2 + ["roseq", "roseq", "stream", "gen"])


def _lag_call(rng, n):
    t = rng.choice(["lt", "eq", "ge", "ge", "ge", "none", "none", "none", "toeplitz", "toeplitz"])
    if t == "toeplitz":
        return {"fn": "toeplitz"}
    if t == "none":
        return {"fn": "levinson", "order": None}
    if t == "lt" and n >= 2:
        return {"fn": "levinson", "order": rng.randint(0, n - 2)}
    if t == "eq" and n >= 1:
        return {"fn": "levinson", "order": n - 1}
    return {"fn": "levinson", "order": min(n + rng.randint(0, 2), 9) if n <= 9 else n}


def _poke_step(rng, j, o, lags):
    """the caller assigns to one element of its list.  A lag vector only gets its r[0] doubled (T + r0*I:
    every reflection coefficient shrinks, the float regime stays as well conditioned as it was - an
    arbitrary new lag makes |k| >> 1 and the float recursion loses digits the tolerance does not cover)"""
    xs = o["vals"]
    if lags:
        r0 = dec(xs[0])
        return {"fn": "poke", "arg": j, "idx": 0, "val": enc(2 * r0) if r0 != 0 else 1}
    v = rng.randint(-3, 3) if o["num"] == "int" else enc(F(rng.randint(-6, 6), 2))
    return {"fn": "poke", "arg": j, "idx": rng.randrange(len(xs)), "val": v}


def _blk_call(rng, n):
    fn = rng.choice(["acorr", "acorr", "lag_matrix", "lag_matrix", "kautocor", "kautocor", "kcovar", "kcovar", "lpc"])
    o = rng.choice([None, None, 0, 1, 2, 3, max(n - 1, 0), n, n + 1, n + 2])
    if fn == "lpc":
        return {"fn": "lpc", "order": rng.choice([0, 1, 2, 3, 5])}
    if fn == "kautocor" and o is not None:
        o = min(o, 9)
    if fn == "kcovar" and o is not None and o < n:
        o = min(o, 5)
    return {"fn": fn, _ORDER_KEY[fn]: o}


def _hist_cases(rng, n, n_lpc100):
    out = []
    for it in range(n):
        tpl = rng.choice(["lags", "lags", "lags", "block", "block", "chain", "chain", "both"])
        objs, calls = [], []
        ncalls = rng.randint(2, 4)
        if tpl in ("lags", "both"):
            base = _lev_cases(rng, 1)[0]
            r = base["r"][:rng.choice([1, 2, 3, 3, 4, 4, 5, 6, 8])]
            objs.append({"vals": r, "num": base["num"], "kind": _pick_kind(rng)})
        if tpl in ("block", "chain", "both"):
            base = _blk_cases(rng, 1, rng.choice(["kautocor", "kcovar", "acorr"]))[0]
            b = base["blk"][:rng.choice([2, 3, 4, 5, 6, 8, 12, 16])]
            if base["num"] == "float" and any(dec(x).denominator > 8 or abs(dec(x)) > 64 for x in b):
                # acorr / lag_matrix / toeplitz are compared exactly: float samples only when their products
                # and sums are exact (the decaying kcovar blocks have 30-bit samples: keep them as Fractions)
                base["num"] = "frac"
            objs.append({"vals": b, "num": base["num"],
                         "kind": _pick_kind(rng) if tpl != "chain" or rng.random() < 0.5 else "list"})
        if tpl == "lags":
            calls = [dict(_lag_call(rng, len(objs[0]["vals"])), arg=0) for _ in range(ncalls)]
        elif tpl == "block":
            calls = [dict(_blk_call(rng, len(objs[0]["vals"])), arg=0) for _ in range(ncalls)]
        elif tpl == "both":
            for _ in range(ncalls):
                if rng.random() < 0.5:
                    calls.append(dict(_lag_call(rng, len(objs[0]["vals"])), arg=0))
                else:
                    calls.append(dict(_blk_call(rng, len(objs[1]["vals"])), arg=1))
        else:   # chain: y1 = acorr(blk, L), then the list y1 is handed on
            nb = len(objs[0]["vals"])
            L = rng.choice([None, None, 1, 2, 3, max(nb - 1, 0), nb, nb + 1])
            calls = [{"fn": "acorr", "max_lag": L, "arg": 0}]
            nr = (L + 1) if L is not None else nb
            for _ in range(ncalls - 1):
                u = rng.random()
                if u < 0.7:
                    calls.append(dict(_lag_call(rng, nr), arg={"res": 0}))
                elif u < 0.85:
                    calls.append({"fn": "acorr", "max_lag": L, "arg": 0})
                else:
                    calls.append(dict(_blk_call(rng, nb), arg=0))
        if rng.random() < 0.15 and objs[-1]["kind"] in _MUTABLE and objs[-1]["vals"]:
            # the same call before and after the caller changed one element of its list
            j = len(objs) - 1
            first = next((st for st in calls if st.get("arg") == j), None)
            if first is not None:
                calls = [st for st in calls if not isinstance(st.get("arg"), dict)][:2]
                if first not in calls:
                    calls = [first] + calls[:1]
                calls += [_poke_step(rng, j, objs[j], tpl == "lags"), dict(first)]
        # the caller modifies its own list between two calls
        elif rng.random() < 0.25 and len(calls) >= 2:
            j = rng.randrange(len(objs))
            if objs[j]["kind"] in _MUTABLE and objs[j]["vals"]:
                calls.insert(rng.randint(1, len(calls) - 1),
                             _poke_step(rng, j, objs[j], tpl == "lags" or (tpl == "both" and j == 0)))
                # a chain keeps referring to call 0 only: inserting after position 0 keeps {"res": 0} valid
        for st in calls:
            if st["fn"] != "poke":
                st["scribble"] = rng.random() < 0.5
        out.append({"entry": "history", "objs": objs, "calls": calls})
    for it in range(n_lpc100):
        # lpc (default strategy) at order >= 100 is lpc.kautocor: tiny sparse blocks keep the exact
        # rational order-100 run of the model at ~2 s (a dense [2, 1]: ~5 s, every fourth one)
        if it % 4 == 3:
            b = [rng.choice([2, 3, 4]), rng.choice([1, -1])]
        else:
            b = [rng.choice([1, 2])] + [0] * rng.randint(1, 3) + [rng.choice([1, -1])]
        calls = [{"fn": "lpc", "order": 100, "arg": 0, "scribble": True},
                 rng.choice([{"fn": "acorr", "max_lag": None, "arg": 0, "scribble": True},
                             {"fn": "kautocor", "order": 1, "arg": 0, "scribble": False},
                             {"fn": "lag_matrix", "max_lag": 1, "arg": 0, "scribble": True}])]
        if rng.random() < 0.5:
            calls.reverse()
        out.append({"entry": "history", "objs": [{"vals": b, "num": "int", "kind": "list"}], "calls": calls})
    return out


def _hist_exhaustive(tier):
    """every ordered pair of calls of a small menu on one shared list (first result written on),
    plus every pair followed by the default-order / table call that exposes a changed length"""
    q = tier == "quick"
    out = []
    lag_lists = [[2], [2, 1], [6, 0, -1], [4, 2, 1]] + ([] if q else [[], [8, 4, 2, 1], [12, 6, 0, -3, -6]])
    for r in lag_lists:
        n = len(r)
        menu = [{"fn": "levinson", "order": None}, {"fn": "toeplitz"}, {"fn": "levinson", "order": n},
                {"fn": "levinson", "order": n + 2}]
        if n >= 1:
            menu.append({"fn": "levinson", "order": n - 1})
        if n >= 2:
            menu.append({"fn": "levinson", "order": n - 2})
        for a in menu:
            for b in menu:
                for kind in (("list",) if q else ("list", "deque", "tuple")):
                    out.append({"entry": "history", "objs": [{"vals": list(r), "num": "int", "kind": kind}],
                                "calls": [dict(a, arg=0, scribble=True), dict(b, arg=0, scribble=False)]})
    # the same call before and after the caller assigned to an element of its list
    for r in lag_lists:
        n = len(r)
        for a in ({"fn": "levinson", "order": None}, {"fn": "toeplitz"}, {"fn": "levinson", "order": n + 1},
                  {"fn": "levinson", "order": max(n - 1, 0)}):
            for ix in range(n):
                for scr in (False, True):
                    # small lists: any element; the longer ones: r[0] doubled only (see _poke_step)
                    if n > 3 and ix > 0:
                        continue
                    out.append({"entry": "history", "objs": [{"vals": list(r), "num": "int", "kind": "list"}],
                                "calls": [dict(a, arg=0, scribble=scr),
                                          {"fn": "poke", "arg": 0, "idx": ix, "val": 3 if n <= 3 else 2 * r[0]},
                                          dict(a, arg=0, scribble=False)]})
    blocks = [[1, 2], [1, 2, -1], [3, -1, 2, 5], [1, 1, 1]] + ([] if q else [[], [2], [1, 0, -1, 0, 1, 0]])
    for blk in blocks:
        n = len(blk)
        menu = [{"fn": "acorr", "max_lag": None}, {"fn": "acorr", "max_lag": 1}, {"fn": "acorr", "max_lag": n + 1},
                {"fn": "lag_matrix", "max_lag": None}, {"fn": "lag_matrix", "max_lag": 1},
                {"fn": "kautocor", "order": None}, {"fn": "kautocor", "order": n + 1}, {"fn": "kcovar", "order": 1}]
        for a in menu:
            for b in menu:
                for kind in (("list",) if q else ("list", "deque", "tuple")):
                    out.append({"entry": "history", "objs": [{"vals": list(blk), "num": "int", "kind": kind}],
                                "calls": [dict(a, arg=0, scribble=True), dict(b, arg=0, scribble=False)]})
        for a in menu:
            for ix in (0, n - 1):
                out.append({"entry": "history", "objs": [{"vals": list(blk), "num": "int", "kind": "list"}],
                            "calls": [dict(a, arg=0, scribble=bool(ix)), {"fn": "poke", "arg": 0, "idx": ix, "val": -2},
                                      dict(a, arg=0, scribble=False)]})
        # the library's own acorr output handed on
        for L in (None, 1, n + 1):
            nr = n if L is None else L + 1
            for a in ({"fn": "levinson", "order": nr}, {"fn": "levinson", "order": nr + 2},
                      {"fn": "levinson", "order": None}, {"fn": "toeplitz"}):
                for b in ({"fn": "levinson", "order": None}, {"fn": "toeplitz"}, {"fn": "acorr", "max_lag": L}):
                    out.append({"entry": "history", "objs": [{"vals": list(blk), "num": "int", "kind": "list"}],
                                "calls": [{"fn": "acorr", "max_lag": L, "arg": 0, "scribble": False},
                                          dict(a, arg={"res": 0}, scribble=False),
                                          dict(b, arg=0 if b["fn"] == "acorr" else {"res": 0}, scribble=False)]})
    return out


# --- shrinking / search -----------------------------------------------------------------
def _drop_step(c, i):
    """history without step i (and without the calls that use its result)"""
    calls = []
    remap = {}
    for k, st in enumerate(c["calls"]):
        if k == i:
            continue
        a = st.get("arg")
        if isinstance(a, dict):
            if a["res"] == i or a["res"] not in remap:
                continue
            st = dict(st, arg={"res": remap[a["res"]]})
        remap[k] = len(calls)
        calls.append(st)
    return dict(c, calls=calls)


def _shrink_history(c):
    objs, calls = c["objs"], c["calls"]
    # fewer steps
    if len(calls) > 1:
        for i in range(len(calls)):
            d = _drop_step(c, i)
            if d["calls"]:
                yield d
    # unused objects
    used = {st["arg"] for st in calls if not isinstance(st.get("arg"), dict)}
    for j in range(len(objs)):
        if j not in used and len(objs) > 1:
            yield dict(c, objs=objs[:j] + objs[j + 1:],
                       calls=[st if isinstance(st.get("arg"), dict) else dict(st, arg=st["arg"] - (st["arg"] > j))
                              for st in calls])
    # plainer steps
    for i, st in enumerate(calls):
        def put(new):
            return dict(c, calls=calls[:i] + [new] + calls[i + 1:])
        if st["fn"] == "poke":
            if st["val"] != 0:
                yield put(dict(st, val=0))
            if st["idx"] != 0:
                yield put(dict(st, idx=0))
            continue
        if st.get("scribble"):
            yield put(dict(st, scribble=False))
        if st["fn"] == "lpc":
            yield put(dict(st, fn="kautocor", order=min(st.get("order") or 0, 3)))
        ok = _ORDER_KEY.get(st["fn"])
        if ok:
            o = st.get(ok)
            if o is not None and o > 0:
                yield put(dict(st, **{ok: o - 1}))
                if o > 4:
                    yield put(dict(st, **{ok: o // 2}))
            if o is not None and st["fn"] != "lpc":
                yield put(dict(st, **{ok: None}))
    # smaller / plainer shared objects
    for j, o in enumerate(objs):
        def puto(new):
            return dict(c, objs=objs[:j] + [new] + objs[j + 1:])
        xs = o["vals"]
        if o["kind"] != "list":
            yield puto(dict(o, kind="list"))
        if xs:
            yield puto(dict(o, vals=xs[:-1]))
            yield puto(dict(o, vals=xs[1:]))
            # ... together with the orders that refer to the length
            dec_calls = []
            for st in calls:
                ok = _ORDER_KEY.get(st["fn"])
                if ok and st.get("arg") == j and st.get(ok):
                    st = dict(st, **{ok: st[ok] - 1})
                dec_calls.append(st)
            yield dict(c, objs=objs[:j] + [dict(o, vals=xs[:-1])] + objs[j + 1:], calls=dec_calls)
        if len(xs) <= 8:
            for ys in _simplify(xs):
                if o["num"] == "int" and any(dec(y).denominator != 1 for y in ys):
                    continue
                yield puto(dict(o, vals=ys))
        if o["num"] != "int" and all(dec(x).denominator == 1 for x in xs):
            yield puto(dict(o, num="int"))


def _neighbours_history(c):
    objs, calls = c["objs"], c["calls"]
    for j, o in enumerate(objs):
        for k in ("list", "deque", "tuple"):
            if k != o["kind"]:
                yield dict(c, objs=objs[:j] + [dict(o, kind=k)] + objs[j + 1:])
    for i, st in enumerate(calls):
        ok = _ORDER_KEY.get(st["fn"])
        if ok and st["fn"] != "lpc":
            o = st.get(ok)
            for d in (-1, 1, 2):
                if o is not None and o + d >= 0:
                    yield dict(c, calls=calls[:i] + [dict(st, **{ok: o + d})] + calls[i + 1:])
            if o is not None:
                yield dict(c, calls=calls[:i] + [dict(st, **{ok: None})] + calls[i + 1:])
    if len(calls) >= 2:
        if not any(isinstance(st.get("arg"), dict) for st in calls):
            yield dict(c, calls=calls[::-1])
        # one more look at the shared list after everything else
        for extra in ({"fn": "levinson", "order": None}, {"fn": "toeplitz"}, {"fn": "acorr", "max_lag": None}):
            yield dict(c, calls=calls + [dict(extra, arg=0, scribble=False)])


def regenerate(eng=None):
    """translator: lean/ALV/Gen/C10Src.lean from the function bodies of the repo under test (props/c10_tr.py)"""
    return TR.regenerate(eng)


def extra_checks(eng):
    for r in F64.extra_checks(eng):
        yield r
    for r in TR.extra_checks(eng):
        yield r
