"""C10 — toeplitz / acorr / lag_matrix / levinson_durbin / lpc.kautocor / lpc.kcovar.

Tie: the real functions run in-process on generated lag vectors and blocks; the Lean driver
returns (a) the exact-rational run of the code-shaped model, (b) the property-shaped spec
evaluated on the model's result AND on the coefficients the impl returned (`impl_a`, sent to the
driver in the same request: the normal-equation residuals, the error the equations assign, the
energy of a * zero-extended block, the covariance residuals), (c) a conditioning trace.

Regimes.  `Poly`'s default zero is the float `0.`, so the impl computes in binary floating point
even on Fractions.  A case is in the *exact* regime when the Lean trace shows that every
intermediate value is a dyadic rational small enough for all float operations to be exact
(3*D + 3*log2(M) + 2*log2(n) + 4 <= 52 with D the largest denominator exponent, M the largest
magnitude, n the order + 2): comparison is then exact (values, list lengths, exceptions).
Otherwise the case is in the *float* regime: tolerance 1e-9*(1+|x|), coefficient lists compared
modulo trailing zeros, and cases whose exact recursion comes within 1e-4 (relative) of a zero
divisor / of the |k| = 1 exit of kcovar are only required to satisfy the spec when they return.
"""
import json, math
from fractions import Fraction as F
import common
from common import enc, dec, encl, decl, err_kind, close

ID = "C10"
RULE = ("lag vectors from reflection coefficients (dyadic: exact regime; tenths |k|<=9/10: float regime), "
        "from autocorrelations of data blocks, singular (k=+-1) and random small vectors; blocks of ints / "
        "Fractions / dyadic floats; orders 0..8, None, and >= len (zero extension); a case is non-trivial when "
        "the impl returns a filter of order >= 1 or a non-empty table, or raises the modelled exception; "
        "distinct = distinct JSON case")
TRUSTED = [
    "hand-written Lean model ALV/Model/C10.lean of lazy_lpc.toeplitz/levinson_durbin/lpc.kautocor/lpc.kcovar and "
    "lazy_analysis.acorr/lag_matrix (modelled, not verified: ZFilter/Poly arithmetic is taken as coefficient-wise "
    "arithmetic on numlists without trailing zeros; Stream.append/take for the zero extension)",
    "float regime: the impl's numbers are binary floats (Poly zero = 0.), compared with tolerance 1e-9*(1+|x|) against "
    "the exact rational model; exact regime decided from the Lean trace (dyadic intermediates below 2^52)",
]
ASSUMPTIONS = [
    "order is None or an int >= 0; lag vectors / blocks are finite lists of ints, Fractions or floats",
    "theorems are over an arbitrary field (kautocor_minimises: ordered field); float rounding is outside them",
]
MANIFEST = {
    "text": "Lean 4 theorems, for every field / every lag vector / every order (no bound): levinson_durbin as coded "
            "returns a monic solution of the Yule-Walker equations with error = sum_j a_j r_j, raises ParCorError "
            "exactly when an intermediate prediction error is zero, E_{p+1} = E_p - Delta^2/E_p, matrix form with "
            "toeplitz; acorr / lag_matrix / toeplitz are the documented sums; lpc.kautocor's error is the energy of "
            "a * zero-extended block and (ordered field) the filter minimises it; lpc.kcovar as coded (Gram-Schmidt "
            "with its exits) returns a solution of the covariance normal equations whose error is the residual "
            "energy over n >= p, and minimises it.  Tied to /repo by a differential run (exact-rational model vs "
            "the float-contaminated impl, exact on dyadic inputs) that also evaluates the Lean spec on the "
            "coefficients the impl returns.",
    "note": "Trusted: Lean kernel + propext/Classical.choice/Quot.sound, the Python harness, the hand-written model "
            "(ZFilter/Poly arithmetic taken as coefficient-wise arithmetic on trimmed coefficient lists).  Float "
            "rounding is outside the theorems; float cases within 1e-4 of a zero divisor / of |k| = 1 are only "
            "counted, not compared (histogram float_ill_conditioned_model_comparison_skipped).",
    "technique": "Lean 4 machine-checked proof (loop invariants by induction on the order, Finset sums) over an "
                 "executable model + differential correspondence and spec evaluation on the implementation's output",
}
TOL = 1e-9

_IMPL = {}       # key(case) -> coefficients returned by the impl (sent to the driver as impl_a)
_INFO = {}       # key(case) -> regime / skip info decided in compare, read by tally


def key(c):
    return json.dumps(c, sort_keys=True)


# ----------------------------------------------------------------------------------------
# generators
# ----------------------------------------------------------------------------------------
def _stepup(ks, r0):
    """lag vector r[0..p] whose Levinson recursion has reflection coefficients ks (generator only)"""
    r = [F(r0)]
    a = [F(1)]
    E = F(r0)
    for m, k in enumerate(ks, 1):
        # k = -(r_m + sum_{j=1}^{m-1} a_j r_{m-j}) / E
        acc = sum(a[j] * r[m - j] for j in range(1, m))
        r.append(-k * E - acc)
        a = [a[j] if j < len(a) else F(0) for j in range(m + 1)]
        a = [a[j] + k * a[m - j] for j in range(m + 1)]
        E = E * (1 - k * k)
    return r


def _blk(rng, n, kind):
    if kind == "int":
        return [rng.randint(-9, 9) for _ in range(n)]
    if kind == "frac":
        return [F(rng.randint(-12, 12), rng.choice([1, 2, 3, 5, 7])) for _ in range(n)]
    if kind == "float":   # dyadic, exactly representable
        return [F(rng.randint(-16, 16), rng.choice([1, 2, 4, 8])) for _ in range(n)]
    if kind == "sparse":  # unit pulses: every intermediate stays dyadic
        return [rng.choice([0, 0, 0, 1, -1, 2]) for _ in range(n)]
    raise ValueError(kind)


def _num_of(kind):
    return {"sparse": "int"}.get(kind, kind)


def _lev_cases(rng, n):
    out = []
    for _ in range(n):
        fam = rng.choice(["dyadic", "dyadic", "tenths", "tenths", "tenths", "data", "data", "singular", "rand"])
        num = rng.choice(["frac", "frac", "float", "int"])
        if fam == "dyadic":
            p = rng.randint(1, 4)
            ks = [F(rng.choice([0, 1, -1, 2, -2, 3, -3, 1, -2]), 4) for _ in range(p)]
            r = _stepup(ks, rng.choice([1, 2, 4, 8, 16]))
        elif fam == "tenths":
            p = rng.randint(1, 8)
            ks = [F(rng.randint(-9, 9), 10) for _ in range(p)]
            r = _stepup(ks, rng.choice([1, 2, 3, 10, F(1, 2), 7]))
        elif fam == "singular":
            p = rng.randint(1, 4)
            ks = [F(rng.choice([0, 1, -1, 2, -2, 3, -3]), 4) for _ in range(p)]
            ks[rng.randrange(p)] = F(rng.choice([1, -1]))
            r = _stepup(ks, rng.choice([1, 2, 4]))
        elif fam == "data":
            kind = rng.choice(["int", "frac", "float"])
            b = [F(x) for x in _blk(rng, rng.randint(2, 14), kind)]
            p = rng.randint(1, min(8, len(b)))
            r = [sum(b[i] * b[i + t] for i in range(len(b) - t)) for t in range(p + 1)]
        else:
            p = rng.randint(0, 5)
            r = [F(rng.randint(-3, 4)) for _ in range(p + 1)]
        # tail beyond the order, and the choice of the order
        mode = rng.choice(["full", "full", "none", "shorter", "tail", "extend"])
        order = len(r) - 1
        if mode == "none":
            order = None
        elif mode == "shorter" and len(r) > 1:
            order = rng.randint(0, len(r) - 2)
        elif mode == "tail":
            r = r + [F(rng.randint(-4, 4), rng.choice([1, 2])) for _ in range(rng.randint(1, 3))]
        elif mode == "extend":
            order = len(r) + rng.randint(0, 2)
            if order > 9:
                order = len(r)
        if num == "int":
            den = 1
            for x in r:
                den = den * x.denominator // math.gcd(den, x.denominator)
            if den > 10 ** 6:
                num = "frac"
            else:
                r = [x * den for x in r]
        if num == "float" and any((x.denominator & (x.denominator - 1)) or abs(x.numerator) >= 2 ** 50 for x in r):
            num = "frac"
        out.append({"entry": "levinson", "r": encl(r), "order": order, "num": num,
                    "fam": fam, "seq": rng.choice(["list", "tuple"])})
    return out


def _blk_cases(rng, n, entry):
    out = []
    for _ in range(n):
        kind = rng.choice(["int", "frac", "float", "sparse"])
        if entry == "kcovar":
            ln = rng.choice([2, 3, 4, 5, 6, 8, 10, 12, 16, 20])
            fam = rng.choice(["noise", "noise", "noise", "noise", "decay", "decay", "grow", "zero", "sparse"])
            order = rng.choice([1, 1, 2, 2, 3, 3, 4, 5, 6, None, 0, ln, ln - 1])
            if fam == "noise":
                if order not in (None, 0, ln, ln - 1) and rng.random() < 0.7:
                    ln = max(ln, 5 * order + rng.randint(2, 8))    # long blocks: mostly |k| < 1
                b = _blk(rng, ln, kind)
            elif fam == "decay":      # impulse response of a stable one/two pole filter: stable predictors
                q = F(rng.choice([1, -1, 2, -2, 3]), 4)
                b = [F(rng.choice([1, 2, 4]))]
                for _ in range(ln - 1):
                    b.append(b[-1] * q + (F(rng.randint(-1, 1), 4) if kind != "int" else 0))
                kind = "frac" if kind in ("int", "sparse") else kind
            elif fam == "grow":       # unstable: ValueError exit
                g = rng.choice([2, -2, 3, F(3, 2)])
                b = [F(1) * g ** i for i in range(ln)]
                kind = "frac" if g == F(3, 2) else "int"
            elif fam == "zero":
                b = [0] * ln
                if rng.random() < 0.5:
                    b[rng.randrange(ln)] = 1
                kind = "int"
            else:
                b = _blk(rng, ln, "sparse")
                kind = "int"
            if order is not None and order > 6 and order < ln:
                order = 6
        else:
            ln = rng.randint(0, 14) if rng.random() < 0.9 else rng.randint(15, 30)
            b = _blk(rng, ln, kind)
            order = rng.choice([None, 0, 1, 2, 3, 4, 5, 6, 8, ln, ln + 1, ln + 3, max(ln - 1, 0)])
            if entry == "kautocor" and order is not None and order > 9:
                order = 9
        c = {"entry": entry, "blk": encl([F(x) for x in b]), "num": _num_of(kind)}
        if entry in ("kautocor", "kcovar"):
            c["order"] = order
        else:
            c["max_lag"] = order
        out.append(c)
    return out


EDGE = [
    {"entry": "levinson", "r": [], "order": None, "num": "int", "fam": "edge", "seq": "list"},
    {"entry": "levinson", "r": [], "order": 0, "num": "int", "fam": "edge", "seq": "list"},
    {"entry": "levinson", "r": [], "order": 2, "num": "int", "fam": "edge", "seq": "list"},
    {"entry": "levinson", "r": [2], "order": None, "num": "int", "fam": "edge", "seq": "list"},
    {"entry": "levinson", "r": [2], "order": 0, "num": "frac", "fam": "edge", "seq": "tuple"},
    {"entry": "levinson", "r": [0, 1], "order": 1, "num": "int", "fam": "edge", "seq": "list"},
    {"entry": "levinson", "r": [1, 1, 1], "order": 2, "num": "int", "fam": "edge", "seq": "list"},
    {"entry": "levinson", "r": [1, 0, 0], "order": 2, "num": "int", "fam": "edge", "seq": "list"},
    {"entry": "levinson", "r": [1, 2, 3, 4, 5, 3, 2, 1], "order": None, "num": "int", "fam": "edge", "seq": "list"},
    {"entry": "levinson", "r": [12, 6, 0, -3, -6, -3, 0, 2, 4, 2], "order": 3, "num": "int", "fam": "edge", "seq": "list"},
    {"entry": "kautocor", "blk": [-1, 0, 1, 0] * 4, "order": 2, "num": "int"},
    {"entry": "kautocor", "blk": [], "order": None, "num": "int"},
    {"entry": "kautocor", "blk": [], "order": 1, "num": "int"},
    {"entry": "kautocor", "blk": [3], "order": None, "num": "int"},
    {"entry": "kcovar", "blk": [], "order": None, "num": "int"},
    {"entry": "kcovar", "blk": [5], "order": None, "num": "int"},
    {"entry": "kcovar", "blk": [1, 2, 3], "order": 0, "num": "int"},
    {"entry": "kcovar", "blk": [1, 2, 3], "order": 3, "num": "int"},
    {"entry": "kcovar", "blk": [1, 0, 0, 0], "order": 1, "num": "int"},
    {"entry": "kcovar", "blk": [0, 0, 0, 0], "order": 1, "num": "int"},
    {"entry": "kcovar", "blk": [1, 2, 4, 8], "order": 1, "num": "int"},
    {"entry": "acorr", "blk": [1, 2, 3, 4, 3, 4, 2], "max_lag": 9, "num": "int"},
    {"entry": "lag_matrix", "blk": [1, 2, 3], "max_lag": 3, "num": "int"},
    {"entry": "lag_matrix", "blk": [], "max_lag": None, "num": "int"},
    {"entry": "toeplitz", "vect": [], "num": "int"},
]


def _exhaustive(tier):
    """small universes, every member: lag vectors / blocks over a few small integers"""
    import itertools
    q = tier == "quick"
    out = []
    vals = (-1, 0, 1, 2) if q else (-2, -1, 0, 1, 2, 3)
    for n in (1, 2, 3):
        for r in itertools.product(vals, repeat=n):
            if q and n == 3 and r[0] <= 0:
                continue
            for order in range(0, 4):
                out.append({"entry": "levinson", "r": list(r), "order": order, "num": "int",
                            "fam": "exhaustive", "seq": "list"})
    bvals = (-1, 0, 1) if q else (-1, 0, 1, 2)
    for n in ((2, 3, 4) if q else (2, 3, 4, 5)):
        for b in itertools.product(bvals, repeat=n):
            for order in (1, 2):
                if order < n:
                    out.append({"entry": "kcovar", "blk": list(b), "order": order, "num": "int"})
            if n <= 3:
                out.append({"entry": "kautocor", "blk": list(b), "order": n - 1, "num": "int"})
    return out


def generate(rng, tier, scale=1):
    q = tier == "quick"
    n_lev = (700 if q else 20000) * scale
    n_ka = (300 if q else 9000) * scale
    n_kc = (400 if q else 10000) * scale
    n_tab = (120 if q else 2000) * scale
    cases = (list(EDGE) + _exhaustive(tier)) if scale == 1 else []
    cases += _lev_cases(rng, n_lev)
    cases += _blk_cases(rng, n_ka, "kautocor")
    cases += _blk_cases(rng, n_kc, "kcovar")
    cases += _blk_cases(rng, n_tab, "acorr")
    cases += _blk_cases(rng, n_tab, "lag_matrix")
    for _ in range(n_tab // 2):
        kind = rng.choice(["int", "frac", "float"])
        cases.append({"entry": "toeplitz", "vect": encl([F(x) for x in _blk(rng, rng.randint(0, 9), kind)]),
                      "num": kind})
    return cases


# ----------------------------------------------------------------------------------------
# impl
# ----------------------------------------------------------------------------------------
def _vals(js, num):
    xs = decl(js)
    if num == "int":
        return [int(x) for x in xs]
    if num == "float":
        return [float(x) for x in xs]
    return xs


def _finite(x):
    return not (isinstance(x, float) and (x != x or x in (float("inf"), float("-inf"))))


def _filt_obs(c, f):
    a = list(f.numerator)
    obs = {"a": encl(a), "error": enc(f.error), "den": encl(list(f.denominator))}
    if all(_finite(x) for x in a):
        _IMPL[key(c)] = obs["a"]
    return obs


def impl(c):
    from audiolazy import levinson_durbin, lpc, acorr, lag_matrix, toeplitz
    e = c["entry"]
    _IMPL.pop(key(c), None)
    try:
        if e == "levinson":
            r = _vals(c["r"], c["num"])
            if c.get("seq") == "tuple":
                r = tuple(r)
            return _filt_obs(c, levinson_durbin(r, c["order"]) if c["order"] is not None else levinson_durbin(r))
        if e == "kautocor":
            b = _vals(c["blk"], c["num"])
            return _filt_obs(c, lpc.kautocor(b, c["order"]) if c["order"] is not None else lpc.kautocor(b))
        if e == "kcovar":
            b = _vals(c["blk"], c["num"])
            return _filt_obs(c, lpc.kcovar(b, c["order"]) if c["order"] is not None else lpc.kcovar(b))
        if e == "acorr":
            b = _vals(c["blk"], c["num"])
            return {"out": encl(acorr(b, c["max_lag"]) if c["max_lag"] is not None else acorr(b))}
        if e == "lag_matrix":
            b = _vals(c["blk"], c["num"])
            t = lag_matrix(b, c["max_lag"]) if c["max_lag"] is not None else lag_matrix(b)
            return {"out": [encl(row) for row in t]}
        if e == "toeplitz":
            return {"out": [encl(row) for row in toeplitz(_vals(c["vect"], c["num"]))]}
    except Exception as ex:
        return {"err": err_kind(ex)}
    raise ValueError("unknown entry " + e)


def request(c):
    r = {k: v for k, v in c.items() if k not in ("num", "fam", "seq")}
    a = _IMPL.get(key(c))
    if a is not None:
        r["impl_a"] = a
    return r


# ----------------------------------------------------------------------------------------
# comparison
# ----------------------------------------------------------------------------------------
def _log2(x):
    x = abs(x)
    return 0 if x <= 1 else math.ceil(math.log2(x))


def _exact_regime(vals, n):
    """every intermediate is dyadic and all float operations on them are exact"""
    D, M = 0, 0
    for v in vals:
        d = v.denominator
        if d & (d - 1):
            return False
        D = max(D, d.bit_length() - 1)
        M = max(M, _log2(v))
    return 3 * D + 3 * M + 2 * _log2(n) + 4 <= 52


def _trace_vals(drv, inputs):
    vals = list(inputs)
    for it in drv.get("trace", []):
        vals.append(dec(it["num"]))
        vals.append(dec(it.get("den", it.get("beta", 0))))
        d = dec(it.get("den", it.get("beta", 0)))
        if d != 0:
            vals.append(dec(it["num"]) / d)
        vals += decl(it["A"])
        for b in it.get("B", []):
            vals += decl(b)
    m = drv.get("model", {})
    if isinstance(m, dict) and "a" in m:
        vals += decl(m["a"])
        vals.append(dec(m["error"]))
    return vals


def _conditioning(drv, scale):
    """smallest relative distance of the exact recursion to one of its exits"""
    worst = 1.0
    for it in drv.get("trace", []):
        d = dec(it.get("den", it.get("beta", 0)))
        worst = min(worst, float(abs(d) / scale) if scale else 0.0)
        if "beta" in it and d != 0:      # kcovar: distance of |k| to 1
            k = dec(it["num"]) / d
            worst = min(worst, float(abs(abs(k) - 1)))
    return worst


def _pad(xs, n):
    return list(xs) + [F(0)] * (n - len(xs))


def _cmp_filter(c, io, drv, inputs, order, scale, spec_of):
    """shared comparison for levinson / kautocor / kcovar; returns (problems, info)"""
    e = c["entry"]
    out = []
    model = drv["model"]
    vals = _trace_vals(drv, inputs)
    exact = all(isinstance(v, F) for v in vals) and _exact_regime(vals, (order or 0) + 2)
    cond = _conditioning(drv, scale)
    info = {"regime": "exact" if exact else "float", "skipped": False, "passes": len(drv.get("trace", []))}
    tol = 0 if exact else TOL
    safe = exact or cond >= 1e-4

    if "err" in io and io["err"].startswith("UNMAPPED"):
        return [("model", e + ": unmapped impl exception " + io["err"])], info

    # exceptions that depend on lengths only (IndexError, ValueError of lag_matrix): empty trace
    structural = "err" in model and not drv.get("trace")
    if not safe and not structural:
        # float regime, exact recursion on / within 1e-4 of one of its exits (zero divisor, |k| = 1):
        # rounding decides which side the impl takes, and amplifies its error by 1/distance.  The
        # property speaks of the exact recursion away from its zero divisors: nothing to compare
        # unless both sides agree anyway.
        if model.get("err") != io.get("err") or "err" not in model:
            info["skipped"] = True
        return out, info

    # --- impl <-> model -------------------------------------------------------------
    if "err" in model:
        if io.get("err") != model["err"]:
            out.append(("model", "%s: model raises %s, impl gives %s" % (e, model["err"], _brief(io))))
            out.append(("spec", "%s: exception differs (model %s, impl %s)" % (e, model["err"], _brief(io))))
    elif "err" in io:
        out.append(("model", "%s: impl raises %s, model returns a filter" % (e, io["err"])))
        out.append(("spec", "%s: impl raises %s although the exact recursion meets no zero divisor "
                            "(nearest relative distance %.3g)" % (e, io["err"], cond)))
    else:
        ia, ie = decl(io["a"]), dec(io["error"])
        ma, me = decl(model["a"]), dec(model["error"])
        if decl(io["den"]) != [1]:
            out.append(("model", e + ": denominator is not 1"))
        if not (_finite(ie) and all(_finite(x) for x in ia)):
            out.append(("model", e + ": non-finite output"))
            out.append(("spec", e + ": non-finite output"))
        elif exact:
            if ia != ma:
                out.append(("model", "%s: coefficients differ: impl=%s model=%s" % (e, io["a"], model["a"])))
            if ie != me:
                out.append(("model", "%s: error differs: impl=%s model=%s" % (e, io["error"], model["error"])))
        else:
            n = max(len(ia), len(ma))
            if not common.close_list(_pad(ia, n), _pad(ma, n), tol):
                out.append(("model", "%s: coefficients differ: impl=%s model=%s" %
                            (e, [float(x) for x in ia], [float(x) for x in ma])))
            if not close(ie, me, tol * max(1, float(scale))):
                out.append(("model", "%s: error differs: impl=%r model=%r" % (e, float(ie), float(me))))
        # --- impl <-> spec: the Lean statement evaluated on the impl's own coefficients ----
        if drv.get("spec_impl") is not None and _finite(ie):
            out += spec_of(drv["spec_impl"], ia, ie, tol)
    # the model's own result must satisfy the spec exactly (sanity of the theorem's reading)
    if drv.get("spec_model") is not None and "a" in model:
        bad = spec_of(drv["spec_model"], decl(model["a"]), dec(model["error"]), 0)
        for k, d in bad:
            out.append(("model", "MODEL violates its own spec (theorem reading wrong?): " + d))
    return out, info


def _brief(io):
    return io["err"] if "err" in io else "a filter %s" % ([float(dec(x)) for x in io["a"]][:6],)


def _yw_spec(entry, order, rscale):
    def f(sp, a, err, tol):
        out = []
        yw = sp["yw"] if "yw" in sp else sp
        asum = sum(abs(x) for x in a)
        sc = max(1, float(rscale * asum))
        if dec(yw["a0"]) != 1:
            out.append(("spec", "%s: a[0] = %s is not 1" % (entry, yw["a0"])))
        if order is not None and yw["len"] > order + 1:
            out.append(("spec", "%s: %d coefficients for order %d" % (entry, yw["len"], order)))
        for i, x in enumerate(decl(yw["res"]), 1):
            if not close(x, F(0), tol * sc):
                out.append(("spec", "%s: normal equation %d has residual %.6g" % (entry, i, float(x))))
                break
        if not close(err, dec(yw["err_eq"]), tol * sc):
            out.append(("spec", "%s: error attribute %.12g but sum_j a_j r_j = %.12g" %
                        (entry, float(err), float(dec(yw["err_eq"])))))
        if "energy" in sp:
            en = dec(sp["energy"])
            if not close(err, en, tol * sc):
                out.append(("spec", "%s: error attribute %.12g but energy of a*block = %.12g" %
                            (entry, float(err), float(en))))
            for i, x in enumerate(decl(sp.get("perturbed", []))):
                if x < en - F(tol) * F(sc) * 10:
                    out.append(("spec", "%s: not a minimiser: perturbation %d has energy %.12g < %.12g" %
                                (entry, i, float(x), float(en))))
                    break
        return out
    return f


def _cov_spec(entry, order, scale):
    def f(sp, a, err, tol):
        out = []
        asum = sum(abs(x) for x in a)
        sc = max(1, float(scale * asum * asum))
        if dec(sp["a0"]) != 1:
            out.append(("spec", "%s: a[0] = %s is not 1" % (entry, sp["a0"])))
        if sp["len"] > order + 1:
            out.append(("spec", "%s: %d coefficients for order %d" % (entry, sp["len"], order)))
        for i, x in enumerate(decl(sp["res"]), 1):
            if not close(x, F(0), tol * sc):
                out.append(("spec", "%s: covariance normal equation %d has residual %.6g" % (entry, i, float(x))))
                break
        if not close(err, dec(sp["energy"]), tol * sc):
            out.append(("spec", "%s: error attribute %.12g but residual energy over n>=p = %.12g" %
                        (entry, float(err), float(dec(sp["energy"])))))
        if not close(err, dec(sp["err_eq"]), tol * sc):
            out.append(("spec", "%s: error attribute %.12g but sum_j a_j phi(0,j) = %.12g" %
                        (entry, float(err), float(dec(sp["err_eq"])))))
        return out
    return f


def compare(c, io, drv):
    e = c["entry"]
    k = key(c)
    if e in ("acorr", "lag_matrix", "toeplitz"):
        _INFO[k] = {"regime": "exact", "skipped": False}
        model = drv["model"]
        if isinstance(model, dict) and "err" in model:
            if io.get("err") != model["err"]:
                return [("model", "%s: model raises %s, impl %s" % (e, model["err"], io.get("err", "returns"))),
                        ("spec", "%s: expected %s" % (e, model["err"]))]
            return []
        if "err" in io:
            return [("model", "%s: impl raises %s" % (e, io["err"])), ("spec", "%s: impl raises %s" % (e, io["err"]))]
        out = []
        if io["out"] != model:
            out.append(("model", "%s differs from model: impl=%s model=%s" % (e, io["out"], model)))
        if io["out"] != drv["spec"]:
            out.append(("spec", "%s differs from the documented sums: impl=%s spec=%s" % (e, io["out"], drv["spec"])))
        return out
    if e == "levinson":
        r = decl(c["r"])
        order = c["order"] if c["order"] is not None else len(r) - 1
        rs = max([abs(x) for x in r] + [F(0)])
        out, info = _cmp_filter(c, io, drv, r, order, abs(r[0]) if r else F(0), _yw_spec(e, order, rs))
    elif e == "kautocor":
        b = decl(c["blk"])
        r = decl(drv["r"])
        order = c["order"] if c["order"] is not None else len(b) - 1
        rs = max([abs(x) for x in r] + [F(0)])
        out, info = _cmp_filter(c, io, drv, b + r, order, abs(r[0]) if r else F(0), _yw_spec(e, order, rs))
    else:
        b = decl(c["blk"])
        order = c["order"] if c["order"] is not None else len(b) - 1
        sc = sum(x * x for x in b)
        out, info = _cmp_filter(c, io, drv, b + [sc], order, sc, _cov_spec(e, order, sc))
    _INFO[k] = info
    return out


# ----------------------------------------------------------------------------------------
# statistics, shrinking, search
# ----------------------------------------------------------------------------------------
def nontrivial(c, io):
    if "err" in io:
        return io["err"] in ("ParCorError", "ZeroDivisionError", "ValueError", "IndexError")
    if "a" in io:
        return len(io["a"]) >= 2
    return bool(io.get("out"))


def tally(eng, c, io):
    e = c["entry"]
    eng.count("entry", e)
    info = _INFO.get(key(c), {})
    eng.count("regime", "%s:%s" % (e, info.get("regime", "?")))
    if info.get("skipped"):
        eng.count("float_ill_conditioned_model_comparison_skipped", e)
    eng.count("impl_outcome", "%s:%s" % (e, io.get("err", "returns")))
    eng.count("number_type", c.get("num"))
    if e == "levinson":
        eng.count("lev_family", c.get("fam"))
        n = len(c["r"])
        o = c["order"]
        eng.count("lev_order", "None" if o is None else min(o, 10))
        eng.count("lev_order_vs_len", "None" if o is None else ("order<len-1" if o < n - 1 else
                  "order=len-1" if o == n - 1 else "order>=len (zero ext)"))
        if "a" in io:
            eng.count("lev_returned_len_vs_order", "trimmed" if o is not None and len(io["a"]) < o + 1 else "full")
        elif info.get("passes"):
            eng.count("lev_exit", "%s at pass %d" % (io["err"], min(info["passes"], 9)))
    elif e in ("kautocor", "kcovar"):
        o = c["order"]
        n = len(c["blk"])
        eng.count(e + "_order", "None" if o is None else min(o, 10))
        eng.count(e + "_order_vs_len", "None" if o is None else ("order<len" if o < n else "order>=len"))
        eng.count(e + "_blklen", min(n // 4 * 4, 28))
        if "err" in io:
            where = "structural (lengths)" if not info.get("passes") else "pass %d" % min(info["passes"], 7)
            eng.count(e + "_exit", "%s at %s" % (io["err"], where))
    else:
        eng.count(e + "_size", min(len(c.get("blk", c.get("vect", []))), 16))


def _simplify(xs):
    for i in range(len(xs)):
        v = dec(xs[i])
        if v != 0:
            yield xs[:i] + [0] + xs[i + 1:]
        if v.denominator != 1 or abs(v) > 3:
            w = F(round(v))
            if abs(w) > 3:
                w = F(3 if w > 0 else -3)
            yield xs[:i] + [enc(w)] + xs[i + 1:]


def shrink(c):
    e = c["entry"]
    fld = {"levinson": "r", "toeplitz": "vect"}.get(e, "blk")
    xs = c[fld]
    okey = "order" if e in ("levinson", "kautocor", "kcovar") else ("max_lag" if e != "toeplitz" else None)
    if xs:
        yield dict(c, **{fld: xs[:-1]})
        yield dict(c, **{fld: xs[1:]})
    if okey and c.get(okey) is not None:
        o = c[okey]
        if o > 0:
            yield dict(c, **{okey: o - 1})
            if xs and o >= 1:
                yield dict(c, **{okey: o - 1, fld: xs[:-1]})
    if okey and c.get(okey) is None and xs:
        yield dict(c, **{okey: len(xs) - 1})
    for ys in _simplify(xs):
        d = dict(c, **{fld: ys})
        if c.get("num") == "int" and any(dec(y).denominator != 1 for y in ys):
            continue
        yield d
    if c.get("num") != "frac" and all(dec(x).denominator == 1 for x in xs) and c.get("num") != "int":
        yield dict(c, num="int")
    if c.get("seq") == "tuple":
        yield dict(c, seq="list")


def neighbours(c):
    e = c["entry"]
    fld = {"levinson": "r", "toeplitz": "vect"}.get(e, "blk")
    xs = c[fld]
    okey = "order" if e in ("levinson", "kautocor", "kcovar") else ("max_lag" if e != "toeplitz" else None)
    if okey:
        o = c.get(okey)
        for d in (-1, 1, 2):
            if o is not None and o + d >= 0:
                yield dict(c, **{okey: o + d})
        if o is None and xs:
            yield dict(c, **{okey: len(xs) - 1})
    for i in range(len(xs)):
        v = dec(xs[i])
        yield dict(c, **{fld: xs[:i] + [0] + xs[i + 1:]})
        yield dict(c, **{fld: xs[:i] + [enc(-v)] + xs[i + 1:]})
    if xs:
        yield dict(c, **{fld: xs[:-1]})


def classify(c, io, drv):
    e = c["entry"]
    if "err" in io:
        m = drv.get("model")
        me = m.get("err", "returns") if isinstance(m, dict) else "returns"
        return "%s:impl-raises-%s:model-%s" % (e, io["err"], me)
    probs = compare(c, io, drv)
    words = []
    for kind, d in probs:
        if kind != "spec":
            continue
        for w in ("a[0]", "normal equation", "sum_j a_j", "energy", "minimiser", "coefficients for order",
                  "documented sums", "exception differs", "non-finite"):
            if w in d and w not in words:
                words.append(w)
    return "%s:%s" % (e, "+".join(words) if words else "content")
