"""C13 — designed filters meet their gain, cut-off and pole contracts.

Tie (kind "model"): the Float twin of the generic Lean definitions (ALV/Model/C13.lean, the very
terms the theorems are about at R) against `filt.numerator` / `filt.denominator` of the real
designs, for constant parameters, and sample by sample for Stream-valued parameters.

Contract (kind "spec"): the quantities the theorems are about, measured on the REAL filter
(`abs(filt.freq_response(w))` at DC / Nyquist / cut-off / centre frequency / on a grid, the roots of
`filt.denominator`, the output of comb filters) against the required values of the Lean
`Contract` record (ALV/Spec/C13.lean) returned by the driver.
"""
import cmath
import math
import common
from common import enc, dec, close, err_kind
from props import c13_hist as hist
from props import c13_tr

ID = "C13"
RULE = ("dense parameter grids (cut-off/centre in [1e-3, pi-1e-3], bandwidth in [1e-3, 1], delays 1..12, "
        "eta 1..6) for every strategy of lowpass/highpass/resonator/comb/gammatone plus random parameters in the "
        "same ranges, Stream-valued parameters, erb/gammatone_erb_constants; "
        "histories (entry hist, harness/props/c13_hist.py): 1-4 designs of the same or of different strategies built from a "
        "small heap of parameter objects that they SHARE (one Stream / Stream subclass with its own __iter__ / generator / "
        "iterator / list / tuple / caller-made tee hub / ControlStream passed to two or three designs; numbers of type int, "
        "float, Fraction, bool that compare equal, in both orders), builds before or after other designs were used, "
        "instants taken one at a time in sequential / round-robin / random interleavings, control values changed between "
        "instants and before the first one, calls that raise (non-integer comb delay, bandwidth None) among the builds; each "
        "instant is compared with the Lean history spec (which value of each shared object it must get, the constant "
        "design of those values, its contract record), the number of values pulled from every shared Stream / generator is "
        "compared after every step, and after the history every caller's object must yield what the spec says (shared "
        "iterator: the next unread values; list / tuple: unchanged; tee hub: a further copy starts at the first value; "
        "control: its current value); "
        "comb filters in the time domain for delays 13..300, 2^k-1 / 2^k / 2^k+1 for 2^k = 64..4096 (thorough: ..8192) and "
        "1000..5000 on impulse / pseudo-random dyadic signals of length delay+3 (ff) or 2*delay+3 (fb, tau); one comb filter "
        "object called on 1-4 signals (list / tuple / Stream / generator / iterator) whose outputs are alive together and "
        "consumed sequentially / round-robin / randomly (entry combhist); constant lowpass / highpass / resonator / gammatone "
        "designs run for 2000-5000 (thorough 20000) samples against the C04 difference equation on the model "
        "coefficients (entry run); "
        "CALL SHAPES (gen_calls): every StrategyDict called directly (default strategy: lowpass=pole, highpass=z, resonator=poles_exp, "
        "comb=fb, gammatone=sampled, erb=gm90; the call must also equal the named default strategy's), every strategy by [] / "
        "attribute / alias name with positional / keyword / mixed arguments (every strategy at least once all-keyword), parameters "
        "LEFT OUT (comb alpha, comb.tau tau, gammatone.sampled phase / eta / both, erb Hz), parameters spelled as int / bool / "
        "Fraction where the value allows, gammatone.sampled for every eta 1..6 with zero and non-zero phase, cut-offs and centre "
        "frequencies written `f * Hz` with sHz(rate), boundary cut-offs 0 / 1e-9 / 1e-5 / pi-1e-5 / pi-1e-9 / pi (coefficients only), "
        "erb with Hz omitted on both sides of the 7 Hz refusal (7.0, the double below it, ints, Fractions), erb over list / tuple / "
        "Stream / generator with and without an item that is refused (entry erbmap; a lazy result is also READ ON two items past "
        "its end / past the refusal: StopIteration from then on, Lean erbLazyReads); "
        "TEE HUBS (entry thub, gen_thub): every thub-based strategy (lowpass / highpass x 4, resonator x 4, comb fb / tau / ff, "
        "gammatone.klapuri) called with Stream(*values) / number arguments, the filter objects of the result read by a schedule "
        "(lock-step, or random order with one position running ahead): read number k of position j must be section j of the "
        "constant design of value number k of each argument (Lean machine thubModel on the transcribed strategy bodies = "
        "constReads, theorem thub_reads_are_constant_designs; the transcribed bodies are re-derived from the source text on every run "
        "by the translator harness/props/c13_tr.py -> ALV/Gen/C13Src.lean and proved equal, theorems src_*_is_model); call shapes inside histories (all-keyword, StrategyDict called "
        "directly); a case is non-trivial when the "
        "implementation returned a filter (no exception; history: at least one instant read and no unexpected exception); "
        "distinct = distinct JSON case")
TRUSTED = [
    "translator harness/props/c13_tr.py (ast, no import of the repo) -> lean/ALV/Gen/C13Src.lean, for the bodies of lowpass / "
    "highpass .pole .z .pole_exp .z_exp, resonator .poles_exp .freq_poles_exp .z_exp .freq_z_exp, comb .fb .tau .ff, "
    "gammatone.klapuri.  It trusts (1) the Python subset semantics it assumes: statements in order, operands left to right, "
    "arguments in order, `name = expr` rebinding, a variable that is not a hub stands for its expression (used twice = read "
    "twice), the two branches of the `isinstance(x, Iterable)` idiom of lowpass.z / highpass.z mean `el if el else 1` of the "
    "same expression; (2) the vocabulary mapping: `thub(x, n)` = a new hub (identifier base + number of hubs made before, "
    "declared copies n from the source, every use of the variable takes the next copy), `cos sin sqrt exp`, `+ - * /`, unary "
    "minus, `x ** 2` -> Op1.sq, `x ** y` -> Op2.pow, literals 0 1 2 .5 n, `pi`, `e`; `s * z ** -k`, sums and differences of such "
    "terms and 1 = a dense coefficient list (x*1 = x, 0-x = -x folded as the model does), a Stream scalar times a k-term "
    "polynomial = a hub of k copies (Poly.__mul__), p / q = filter (num p, den q), `1 +- v * z ** -delay` = onePlusDelayedS "
    "delay (+-v), CascadeFilter(f(a, b) for f in [refs] * 2) = the calls in order with hub bases 10, 20, ...; anything "
    "outside this subset is a TranslationError (broken obligation).  Cross-checked: the generated definitions are proved "
    "EQUAL to the hand transcription (rfl + decide), and the hand transcription is what entry thub runs against /repo; the "
    "translator is run on edited source texts on every check (extra check translator-selftest)",
    "translator, scalar part (same file -> same Gen file): erb.gm90 / erb.mg83 (decorators must be strategy / "
    "@elementwise(<first parameter>, 0) / format_docstring; body = `if Hz is None: if a < b: raise ValueError(...); Hz = <number>` "
    "followed by `name = expr` lines and `return expr`) and gammatone_erb_constants(n) (`name = expr` lines and a returned pair) "
    "become generic [TrigField] Lean definitions proved equal, as functions, to erbGm90 / erbMg83 / erbCall / "
    "gammatoneErbConstants (src_erb_*_is_model, src_gammatone_erb_constants_is_model).  It trusts a TYPED reading of Python "
    "arithmetic: expressions built from the int parameter n, non-negative int literals, + - * **, factorial stay ints = Lean "
    "Nat (`-` is truncated subtraction: agrees with Python only where Python's value is >= 0, i.e. n >= 1 - for n = 0 "
    "the implementation raises and the model is not claimed); an int meeting a float or `/` is converted (literal k -> ofInt k, "
    "expression e -> ofNat e); a float literal is the shortest decimal p/q that reads back as it (ofRat p q; 1. -> ofInt 1, "
    ".5 -> half); int ** -int -> 1 / ofNat (a ^ e); x ** y -> pow; pi -> pi; `<` -> LtTest.lt, raise ValueError -> "
    "Except.error; Hz=None -> Option; the default of a StrategyDict is the strategy registered first (also extra check "
    "default:erb on the imported module)",
    "translator, gammatone.sampled (same file): the body must be `assert eta >= 1`, then `name = expr` lines and the two "
    "`f /= abs(f.freq_response(x))`, then `return CascadeFilter([f0] + [fn] * (<count>))`.  Vocabulary trusted: a sum / difference "
    "of scalars and `scalar * z ** -k` terms = the dense coefficient list (k-th entry, `- t` -> `-(t)`); "
    "`(num / den).diff(n=e, mul_after=-z)` followed by `ZFilter(filt.numpoly) / den` = mk (diffNum num den e) den, where diffNum / "
    "diffStep is the HAND model of the loop of ZFilter.diff in lazy_filters.py (not translated); `number / den` = mk [number] den; "
    "`f /= abs(f.freq_response(x))` = normalise f x (hand model of freq_response: Horner evaluation at exp(-jx)); "
    "`[a] + [b] * k` = a :: List.replicate k b; defaults phase=<int>, eta=<int> of the def line -> gammatone_sampled_call "
    "(theorems src_gammatone_sampled_is_model, src_gammatone_sampled_call_is_model)",
    "hand-written generic Lean transcription ALV/Model/C13.lean of the design strategies (modelled, not verified: "
    "ZFilter/Poly operator plumbing that turns the design expression into coefficients, thub/Stream broadcasting)",
    "Float evaluation of the model (Lean runtime, C libm) vs CPython floats: the model copies the code's operation order, so the "
    "coefficients of lowpass / highpass / resonator / comb / klapuri designs (constant, Stream-valued and in histories), erb and "
    "gammatone_erb_constants are compared within 4 ulp of the largest coefficient (measured on this machine: bit-exact, histogram "
    "coef_ulp; the 4 ulp leave room for another libm); gammatone.sampled / slaney sections are divided by a MEASURED gain "
    "(abs(freq_response)) and are compared up to one common factor within 1e-9 + 64 ulp * condition number",
    "tee hubs (ALV/Model/C13Thub.lean): the 16 thub-based strategy bodies are programs over iterator objects (one leaf "
    "per use of a parameter / intermediate Stream: the caller's argument itself, or copy c of hub h), transcribed by hand AND "
    "regenerated from the source on every run (translator below; theorems src_*_is_model); itertools.tee is trusted "
    "(a hub copy at position k yields item k of the hub's source), valid when the hub is the only reader of its source - the "
    "static ownership conditions are the executable check wfDesign, proved for every program (thub_programs_wellformed) and "
    "returned by the driver; Poly / ZFilter's own hubs (a Stream scalar times a k-term polynomial takes k copies) are folded "
    "into the programs; the python side reads filt.numdict / filt.dendict of each filter object of the result",
    "call shapes: which python call a case stands for (strategy lookup, positional / keyword, omitted parameters, numeric type) is "
    "built by harness/props/c13.py:_real_call; the Lean side sees only which parameters are absent (ALV/Model/C13Call.lean) - that "
    "`lowpass.pole`, `lowpass['pole']` and an alias are the same function object is StrategyDict's job (extra checks alias:*)",
    "poles of the real filter are computed by the harness from filt.denominator (closed form, orders 1 and 2)",
    "histories: the constant designs of the model are pure functions of their arguments, so 'a design does not depend on "
    "earlier calls, on the type of a number that compares equal, or on which other designs exist' holds for the model by "
    "construction (nothing to prove); that the REAL code keeps no state between calls, does not modify or pre-read the "
    "caller's parameter objects and treats equal numbers of different types alike is what the history cases test",
    "histories: which python objects behave as a shared iterator (Stream, Stream subclass, generator, iterator), as a "
    "re-iterable / tee'd object (list, tuple, caller's StreamTeeHub) or as a control (ControlStream) is the table "
    "harness/props/c13_hist.py:PY_FLAV (modelled: python iterator protocol, itertools.tee, ControlStream's generator); the "
    "coefficients of a time-varying design at an instant are read from the Stream objects in filt.numdict / filt.dendict, one "
    "item per instant; the contract quantities of an instant are computed by the harness from those coefficient lists",
    "isolation (harness/props/c13_hist.py:zygote_start): a process forked before the first case runs forks one child per "
    "request; the first 150 hist / combhist cases of a run always run there, and every case of any entry that disagrees "
    "in-process is run again there: the reported witness is the isolated observation when the case fails alone too, and "
    "is labelled ':only-after-earlier-cases' otherwise",
    "entry run / combhist / long comb delays: the filter loop itself is C04's model (ALV.C04.fspec run by the driver on the "
    "model coefficients); C13's own theorems comb_fb_eq_spec / comb_ff_eq_spec identify it with the difference equations",
]
ASSUMPTIONS = [
    "cut-off / centre frequency in (0, pi), bandwidth > 0, delay >= 1, eta >= 1 (the property's quantifier)",
    "theorems are over the reals; rounding is covered by the comparison tolerance only",
    "gammatone.sampled first section: unit gain is proved for EVERY order eta and phase (gammatone_sampled_first_unit_gain_all_eta; "
    "the differentiated numerator never vanishes at the centre frequency: closed form with Eulerian polynomials, "
    "gammatone_sampled_numerator_closed_form / _ne_zero) - over the reals; for eta >= 5 near 0 or pi the Float evaluation "
    "is dominated by rounding (see the tolerance line below)",
    "gammatone.sampled with Fraction-spelled parameters (gen_calls): the model is the Float model of the binary values - "
    "`freq - phase`, `-bandwidth` computed in exact Fractions and converted by cos / exp are the correctly rounded float "
    "operations (CPython's Fraction.__float__ is correctly rounded), measured bit-identical",
    "the branch `if not denR: denR = 1` of lowpass.z / highpass.z (lazy_filters.py 1407, 1423, the only anchored lines of the "
    "property no case executes) is unreachable with binary floats (no double has cos(x) == 0); it is covered by the theorems "
    "(cut-off pi/2 over the reals), not by the tie; phon2dB (lazy_auditory.py 261-290, listed by the anchor tool) needs scipy and "
    "is not part of the property",
    "erb / gammatone_erb_constants have no clause in the property text; their documented behaviour is what is proved and tied "
    "(closed forms, units, the Hz=None refusal below 7, elementwise mapping, the 1/a_n and 3 dB identities)",
    "boundary cut-offs 0 and pi (outside the contract's quantifier): only the coefficients are compared with the model",
    "histories: 'sample by sample' is read as: a design pulls exactly one value of each Stream-valued parameter for every "
    "instant of its coefficients, when that instant is first requested, and none when it is built (otherwise a ControlStream "
    "changed by the caller would act late, and designs sharing one Stream would not get consecutive values); the pull counts "
    "of shared Stream / generator objects are compared after every step (signatures hist:pulls:more / fewer)",
    "histories: iterables that are not Stream instances (generator, iterator, list, tuple) are outside the quantifier "
    "('stream-valued'): a strategy may refuse them with a TypeError when called (today: exp(-cutoff), cos(freq) * number, "
    "-delay / tau do); when it accepts them the coefficients must follow them sample by sample (list / tuple: every design "
    "from the start)",
    "histories: one shared-iterator object for BOTH arguments of one call is not generated (the order of the two pulls inside "
    "one instant is an implementation detail); resonator.z_exp in histories uses centre frequencies in [0.6, 2.5] (complex "
    "poles for every bandwidth <= 1; the real-pole regime is the recorded finding of the constant designs)",
    "a call that raises (non-integer comb delay, bandwidth None): any exception kind is accepted, the shared objects must be "
    "left as they were",
    "gains measured on the implementation are compared with tolerance 1e-8 + 64 ulp * condition number of the "
    "freq_response evaluation (sum|c_k| / |sum c_k z^k|); for gammatone.sampled with eta >= 5 at centre frequencies "
    "within ~1e-2 of 0 or pi rounding dominates and the unit-gain check becomes vacuous (histogram gammatone_gain_tolerance)",
]
MANIFEST = {"text": "Lean 4 theorems (104, no sorry/axiom, no PENDING statement) over R about the generic [TrigField] design "
                    "definitions the driver runs at Float: lowpass/highpass gains, half power, monotonicity, pole radii (8 strategies); "
                    "resonators: unit gain, stability, pole radius exp(-bw/2), for z_exp exactly on |cos f| <= 1/cosh(bw/2) (iff; outside "
                    "it a real pole of larger modulus: recorded finding); combs = their difference equations; gammatone slaney / klapuri / "
                    "sampled: EVERY section has unit gain at the centre frequency and poles A e^{+-jf}, A = e^{-bw} < 1 - for sampled for "
                    "every order eta and phase (the numerator after eta-1 passes of ZFilter.diff(mul_after=-z) in closed form with "
                    "Eulerian polynomials; it never vanishes at e^{jf}); histories of designs sharing parameter objects; Stream-valued arguments at the level of the strategy bodies: a "
                    "machine over iterator objects (argument / tee-hub copy) run on the transcribed bodies, for every schedule of reads = "
                    "the constant design of the instant's values (all 16 thub-based strategies), klapuri's four sections are distinct "
                    "objects, an aliased pair shows the NEXT instant, number arguments make any sharing harmless; poles exist "
                    "(lowpass / highpass except z at pi/2, resonators), every gammatone section stable; the calls with "
                    "omitted parameters / default strategies (Option-valued call model), erb closed forms / units / monotonicity / Hz=None "
                    "refusal / elementwise mapping, gammatone_erb_constants closed form and 3 dB identity, the time-domain run the driver "
                    "evaluates (runFilter over C04.fspec) = the comb recursions pointwise incl. n < delay; the 16 thub-based strategy bodies are "
                    "REGENERATED from the source text on every run (translator harness/props/c13_tr.py -> ALV/Gen/C13Src.lean) and proved "
                    "equal to the transcribed programs (src_*_is_model, src_progOf_is_model), so the machine theorem, the wellformedness "
                    "and - instant by instant - the scalar design formulas are theorems about the regenerated bodies "
                    "(src_reads_are_constant_designs, src_instants_are_the_design_formulas, src_programs_wellformed); erb.gm90 / erb.mg83 (formula, "
                    "Hz=None refusal below 7, unit 1, strategy table and default) and gammatone_erb_constants are regenerated too and the "
                    "closed forms are restated about the regenerated text (src_erb_closed_forms, src_erb_call, "
                    "src_gammatone_erb_constants_closed_form); gammatone.sampled (body and defaults) is regenerated and theorem 7k restated about it "
                    "(src_gammatone_sampled_all_sections; ZFilter.diff's loop stays the hand model diffNum); tied to /repo by a "
                    "differential correspondence (Float twin in the code's operation order, coefficients within 4 ulp - measured "
                    "bit-exact) run on every check over call shapes, numeric spellings, units and boundary cut-offs",
            "technique": "Lean 4 proof over R of generic [TrigField] design definitions + TRANSLATOR (harness/props/c13_tr.py: the 16 "
                         "thub-based strategy bodies of lazy_filters.py / lazy_auditory.py -> ALV/Gen/C13Src.lean on every run, proved equal "
                         "to the model's stream programs; erb.gm90 / erb.mg83 with the Hz=None branch and gammatone_erb_constants -> "
                         "generic scalar definitions proved equal to the model's functions; gammatone.sampled -> coefficient lists / diffNum / "
                         "normalise / cascade, proved equal to gammatoneSampled) + Float twin tied to the implementation "
                         "+ histories of designs sharing parameter objects (Lean state machine = state-free spec, proved) "
                         "+ long-delay / long-run time-domain runs against the difference equations"}

PI = math.pi
LO, HI = 1e-3, PI - 1e-3
TOL = 1e-9          # coefficients (model)
GTOL = 1e-8         # contract gains: the design formulas lose ~eps/cutoff^2 relative accuracy near 0 and pi
GRID = [PI * k / 24 for k in range(25)]

LP_STRATS = ["pole", "z", "pole_exp", "z_exp"]
RES_STRATS = ["poles_exp", "freq_poles_exp", "z_exp", "freq_z_exp"]
COMB_STRATS = ["fb", "tau", "ff"]
GT_STRATS = ["sampled", "slaney", "klapuri"]
# what a StrategyDict called directly / a parameter left out means (lazy_filters.py, lazy_auditory.py): the Lean side
# of the same table is ALV/Model/C13Call.lean (lowpassCall ... erbCall), theorem calls_with_omitted_parameters
DEFAULT_STRATEGY = {"lowpass": "pole", "highpass": "z", "resonator": "poles_exp", "comb": "fb", "gammatone": "sampled",
                    "erb": "gm90"}
ALIASES = {("comb", "fb"): ["alpha", "fb_alpha", "feedback_alpha"], ("comb", "tau"): ["fb_tau", "feedback_tau"],
           ("comb", "ff"): ["ff_alpha", "feedforward_alpha"],
           ("erb", "gm90"): ["glasberg_moore_90", "glasberg_moore"], ("erb", "mg83"): ["moore_glasberg_83"]}
HARNESS_KEYS = ("via", "args", "spell", "nocontract", "rate", "fhz", "sig")   # never sent to the driver
UTOL = 4             # coefficients of the designs whose operation order the model copies: within 4 ulp of the largest
#                      coefficient (measured: bit-exact, same libm on both sides; histogram coef_ulp)


def _strategy(c):
    return c.get("strategy", DEFAULT_STRATEGY.get(c["entry"], ""))


def _param_names(c):
    """(case key, python parameter name) of the call, in positional order"""
    e = c["entry"]
    if e in ("lowpass", "highpass"):
        return [("cutoff", "cutoff")]
    if e == "resonator":
        return [("freq", "freq"), ("bandwidth", "bandwidth")]
    if e == "comb":
        return [("delay", "delay"), ("param", "tau" if _strategy(c) == "tau" else "alpha")]
    if e == "gammatone":
        return [("freq", "freq"), ("bandwidth", "bandwidth")] + (
            [("phase", "phase"), ("eta", "eta")] if _strategy(c) == "sampled" else [])
    if e == "erb":
        return [("freq", "freq"), ("Hz", "Hz")]
    raise KeyError(e)


def _spelled(v, how):
    """the python object for the float value v in another numeric type (exact: Fraction(float) is the binary value)"""
    from fractions import Fraction
    if how == "int":
        assert v == int(v)
        return int(v)
    if how == "bool":
        assert v in (0.0, 1.0)
        return bool(v)
    if how == "frac":
        return Fraction(v)
    return v


def _default_ref(c, got):
    """a StrategyDict called directly must be the documented default strategy called with the same arguments: the
    coefficient lists of both calls (same code, so identical) - None when the case names its strategy"""
    if "strategy" in c:
        return None
    import audiolazy as al
    fn, a, kw = _real_call(dict(c, strategy=DEFAULT_STRATEGY[c["entry"]]))
    ref = fn(*a, **kw)
    secs = list(ref) if isinstance(ref, al.CascadeFilter) else [ref]
    mine = list(got) if isinstance(got, al.CascadeFilter) else [got]
    pair = lambda fs: [[[enc(float(x)) for x in f.numerator], [enc(float(x)) for x in f.denominator]] for f in fs]
    return {"default": DEFAULT_STRATEGY[c["entry"]], "same": pair(secs) == pair(mine)}


def _real_call(c):
    """the real call of a plain design case: which object is called (`via`: the strategy looked up with [] / as an
    attribute / under an alias name / not at all = the StrategyDict itself, i.e. its default), how the arguments travel
    (`args`: positional / keyword / first positional, rest keyword), in which numeric type (`spell`); a key that is
    absent from the case is a parameter LEFT OUT of the call"""
    import audiolazy as al
    e = c["entry"]
    sd = getattr(al, e)
    via = c.get("via", "item")
    if "strategy" not in c:
        fn = sd
    elif via == "attr":
        fn = getattr(sd, c["strategy"])
    elif via.startswith("alias:"):
        fn = sd[via[6:]]
    else:
        fn = sd[c["strategy"]]
    spell = c.get("spell", {})
    vals = []
    for key, pname in _param_names(c):
        if key not in c:
            continue
        if key in ("delay", "eta"):
            v = c[key]
        else:
            v = _fl(c[key])
        if "rate" in c and key in ("cutoff", "freq", "Hz"):
            Hz = al.sHz(c["rate"])[1]          # units: `fhz * Hz` as the docs write it
            v = Hz if key == "Hz" else _fl(c["fhz"]) * Hz
        vals.append((pname, _spelled(v, spell.get(key, "float"))))
    how = c.get("args", "pos")
    if how == "pos":
        # a parameter after an omitted one can only travel by keyword
        names = [k for k, _ in _param_names(c)]
        present = [k in c for k in names]
        npos = present.index(False) if False in present else len(names)
        return fn, [v for _, v in vals[:npos]], dict(vals[npos:])
    if how == "kw":
        return fn, [], dict(vals)
    return fn, [vals[0][1]], dict(vals[1:])


# ----------------------------------------------------------------------------------------------
# generation
# ----------------------------------------------------------------------------------------------
def _f(x):
    """enc(float(x)) without the detour through Fraction (same encoding: int or 'p/q' in lowest terms)"""
    x = float(x)
    if x != x or x in (float("inf"), float("-inf")):
        return enc(x)
    p, q = x.as_integer_ratio()
    return p if q == 1 else "%d/%d" % (p, q)


def _rand_freq(rng):
    r = rng.random()
    if r < 0.15:
        return LO + rng.random() * 0.05
    if r < 0.30:
        return HI - rng.random() * 0.05
    if r < 0.36:
        return PI / 2 + (rng.random() - 0.5) * 1e-3
    return LO + rng.random() * (HI - LO)


def _rand_bw(rng):
    if rng.random() < 0.2:
        return 1e-3 + rng.random() * 0.02
    return 1e-3 + rng.random() * (1 - 1e-3)


def _xs(rng, n):
    return [_f(rng.randint(-8, 8) / 4.0) for _ in range(n)]


def generate(rng, tier, scale=1):
    quick = tier == "quick"
    cases = []
    n_cut = 48 if quick else 600
    n_rand = (40 if quick else 1500) * scale
    if scale == 1:
        specials = [LO, HI, PI / 2, math.nextafter(PI / 2, 0), math.nextafter(PI / 2, 4), PI / 6, 5 * PI / 6, 1.0]
        cuts = [LO + (HI - LO) * k / (n_cut - 1) for k in range(n_cut)] + specials
        for band in ("lowpass", "highpass"):
            for st in LP_STRATS:
                for c in cuts:
                    cases.append({"entry": band, "strategy": st, "cutoff": _f(c)})
        nf, nb = (12, 6) if quick else (60, 24)
        freqs = [LO + (HI - LO) * k / (nf - 1) for k in range(nf)]
        bws = [1e-3 + (1 - 1e-3) * (k / (nb - 1)) ** 2 for k in range(nb)]
        for st in RES_STRATS:
            for f in freqs:
                for bw in bws:
                    cases.append({"entry": "resonator", "strategy": st, "freq": _f(f), "bandwidth": _f(bw)})
        gf, gb = (7, 4) if quick else (24, 10)
        for f in [LO + (HI - LO) * k / (gf - 1) for k in range(gf)]:
            for bw in [1e-3 + (1 - 1e-3) * (k / (gb - 1)) ** 2 for k in range(gb)]:
                cases.append({"entry": "gammatone", "strategy": "slaney", "freq": _f(f), "bandwidth": _f(bw)})
                cases.append({"entry": "gammatone", "strategy": "klapuri", "freq": _f(f), "bandwidth": _f(bw)})
                for eta in (1, 2, 3, 4) if quick else (1, 2, 3, 4, 5, 6):
                    ph = [0, 0.5, -1.25, PI / 2][(eta + int(f * 7)) % 4]
                    cases.append({"entry": "gammatone", "strategy": "sampled", "freq": _f(f), "bandwidth": _f(bw),
                                  "phase": _f(ph), "eta": eta})
        for d in range(1, 9 if quick else 13):
            for a in (0.5, -0.75, 1.0, 0.0, 0.9375, -0.125):
                cases.append({"entry": "comb", "strategy": "fb", "delay": d, "param": _f(a), "xs": _xs(rng, 3 * d + 4)})
                cases.append({"entry": "comb", "strategy": "ff", "delay": d, "param": _f(a), "xs": _xs(rng, 3 * d + 4)})
            for tau in (0.5, 1.0, 2.5, 10.0, 1000.0, float("inf")):
                cases.append({"entry": "comb", "strategy": "tau", "delay": d, "param": _f(tau), "xs": _xs(rng, 3 * d + 4)})
        for st in ("gm90", "mg83"):
            for f, hz in ((1000.0, 1.0), (7.0, 1.0), (440.0, 1.0), (0.1, 2 * PI / 44100), (1.0, 2 * PI / 8000), (20000.0, 1.0)):
                cases.append({"entry": "erb", "strategy": st, "freq": _f(f), "Hz": _f(hz)})
        for n in range(1, 9):
            cases.append({"entry": "erb_constants", "n": n})
        # Stream-valued parameters, every thub-based strategy
        for band in ("lowpass", "highpass"):
            for st in LP_STRATS:
                for k in (1, 3):
                    cases.append({"entry": "stream", "design": band, "strategy": st,
                                  "cutoff": [_f(_rand_freq(rng)) for _ in range(k)], "take": k + 2})
        for st in RES_STRATS:
            fs = [_f(_rand_freq(rng)) for _ in range(3)]
            bs = [_f(_rand_bw(rng)) for _ in range(2)]
            cases.append({"entry": "stream", "design": "resonator", "strategy": st, "freq": fs, "bandwidth": bs[0], "take": 4})
            cases.append({"entry": "stream", "design": "resonator", "strategy": st, "freq": fs[0], "bandwidth": bs, "take": 3})
            cases.append({"entry": "stream", "design": "resonator", "strategy": st, "freq": fs, "bandwidth": bs, "take": 7})
        cases.append({"entry": "stream", "design": "klapuri", "strategy": "klapuri",
                      "freq": [_f(_rand_freq(rng)) for _ in range(2)], "bandwidth": [_f(_rand_bw(rng)) for _ in range(3)], "take": 7})
        for st in ("fb", "ff"):
            cases.append({"entry": "stream", "design": "comb", "strategy": st, "delay": 3,
                          "param": [_f(0.5), _f(-0.25), _f(0.75)], "take": 4})
        # malformed stream (error branches)
        cases.append({"entry": "gammatone", "strategy": "sampled", "freq": _f(0.5), "bandwidth": _f(0.1), "phase": 0, "eta": 0})
    for _ in range(n_rand):
        for band in ("lowpass", "highpass"):
            for st in LP_STRATS:
                cases.append({"entry": band, "strategy": st, "cutoff": _f(_rand_freq(rng))})
        for st in RES_STRATS:
            cases.append({"entry": "resonator", "strategy": st, "freq": _f(_rand_freq(rng)), "bandwidth": _f(_rand_bw(rng))})
        st = rng.choice(GT_STRATS)
        c = {"entry": "gammatone", "strategy": st, "freq": _f(_rand_freq(rng)), "bandwidth": _f(_rand_bw(rng))}
        if st == "sampled":
            c["phase"] = _f(rng.choice([0.0, rng.uniform(-PI, PI)]))
            c["eta"] = rng.randint(1, 6)
        cases.append(c)
        st = rng.choice(COMB_STRATS)
        d = rng.randint(1, 12)
        p = rng.choice([0.5, 1.0, 2.5, 40.0, rng.uniform(0.1, 50)]) if st == "tau" else \
            rng.choice([rng.randint(-16, 16) / 16.0, rng.uniform(-1, 1)])
        cases.append({"entry": "comb", "strategy": st, "delay": d, "param": _f(p), "xs": _xs(rng, rng.randint(1, 3 * d + 6))})
        # Stream-valued parameters
        kind = rng.choice(["lowpass", "highpass", "resonator", "resonator", "klapuri", "comb"])
        n = rng.randint(1, 4)
        if kind in ("lowpass", "highpass"):
            cases.append({"entry": "stream", "design": kind, "strategy": rng.choice(LP_STRATS),
                          "cutoff": [_f(_rand_freq(rng)) for _ in range(n)], "take": n + 2})
        elif kind == "resonator":
            m = rng.randint(1, 3)
            fs = [_f(_rand_freq(rng)) for _ in range(n)]
            bs = [_f(_rand_bw(rng)) for _ in range(m)]
            which = rng.choice(["freq", "bandwidth", "both"])
            cases.append({"entry": "stream", "design": kind, "strategy": rng.choice(RES_STRATS),
                          "freq": fs if which != "bandwidth" else fs[0],
                          "bandwidth": bs if which != "freq" else bs[0], "take": n * m + 1})
        elif kind == "klapuri":
            cases.append({"entry": "stream", "design": kind, "strategy": "klapuri",
                          "freq": [_f(_rand_freq(rng)) for _ in range(n)], "bandwidth": _f(_rand_bw(rng)), "take": n + 1})
        else:
            cases.append({"entry": "stream", "design": "comb", "strategy": rng.choice(["fb", "ff"]), "delay": rng.randint(1, 5),
                          "param": [_f(rng.randint(-15, 15) / 16.0 or 0.5) for _ in range(n)], "take": n + 1})
    # histories of designs sharing parameter objects / numbers of different types; long delays and long runs in the
    # time domain; one comb filter object run on several signals at once (harness/props/c13_hist.py)
    cases.extend(hist.gen_hist(rng, tier, scale))
    cases.extend(hist.gen_long(rng, tier, scale))
    cases.extend(gen_calls(rng, tier, scale))
    cases.extend(gen_thub(rng, tier, scale))
    return cases


def _thub_kinds():
    ks = [("lowpass", st, None) for st in LP_STRATS] + [("highpass", st, None) for st in LP_STRATS]
    ks += [("resonator", st, None) for st in RES_STRATS] + [("klapuri", "klapuri", None)]
    ks += [("comb", st, d) for st, d in (("fb", 1), ("tau", 2), ("ff", 3))]
    return ks


def gen_thub(rng, tier, scale=1):
    """entry thub (ALV/Model/C13Thub.lean): ONE design called with Stream-valued / number arguments, its filter objects
    (the positions of the cascade; one for a plain filter) read by a SCHEDULE - any order, different rates; read number k of
    position j must show the constant design of value number k of every argument, whatever was read in between"""
    out = []
    reps = (1 if tier == "quick" else 6) * scale
    for _ in range(reps):
        for kind, st, d in _thub_kinds():
            two = kind in ("resonator", "klapuri")
            nsec = 4 if kind == "klapuri" else 1
            for shape in ("lockstep", "uneven", "uneven") if nsec > 1 else ("lockstep",):
                n1, n2 = rng.randint(2, 4), rng.randint(2, 3)
                if kind == "comb":
                    v1 = [_f(rng.uniform(0.5, 50)) if st == "tau" else _f(rng.choice([-1, 1]) * rng.randint(1, 15) / 16.0)
                          for _ in range(n1)]
                    d = rng.randint(1, 6) if scale > 1 or tier != "quick" else d
                else:
                    v1 = [_f(_rand_freq(rng)) for _ in range(n1)]
                v2 = [_f(_rand_bw(rng)) for _ in range(n2)] if two else [_f(0.5)]
                streams = [True, two]
                if two:
                    streams = rng.choice([[True, True], [True, True], [True, False], [False, True]])
                elif rng.random() < 0.15:
                    streams = [False, False]
                v1 = v1 if streams[0] else v1[:1]
                v2 = v2 if streams[1] else v2[:1]
                if shape == "lockstep":
                    sched = list(range(nsec)) * rng.randint(3, 5)
                else:
                    sched = [rng.randrange(nsec) for _ in range(rng.randint(8, 14))]
                    sched += [rng.choice([0, 2])] * 3          # one position runs ahead of the others
                c = {"entry": "thub", "kind": kind, "strategy": st, "v1": v1, "v2": v2, "streams": streams, "sched": sched}
                if d is not None:
                    c["delay"] = d
                out.append(c)
    return out



def _shape(rng, c, allow_default=True):
    """dress a plain design case with a call shape: how the strategy is reached and how the arguments travel"""
    e = c["entry"]
    via = rng.choice(["item", "attr", "alias", "default"])
    if via == "default" and allow_default and c.get("strategy") == DEFAULT_STRATEGY[e]:
        del c["strategy"]
    elif via == "alias" and (e, c.get("strategy")) in ALIASES:
        c["via"] = "alias:" + rng.choice(ALIASES[(e, c["strategy"])])
    elif via == "attr":
        c["via"] = "attr"
    c["args"] = rng.choice(["pos", "kw", "mixed"])
    return c


def _spell_some(rng, c):
    """another numeric type for every parameter whose value it can carry exactly"""
    sp = {}
    for k in ("cutoff", "freq", "bandwidth", "param", "phase", "Hz"):
        if k in c and not isinstance(c[k], list):
            v = _fl(c[k])
            if v != v or v in (float("inf"), float("-inf")):
                continue
            kinds = ["frac"] + (["int"] if v == int(v) else []) + (["bool"] if v in (0.0, 1.0) else [])
            t = rng.choice(kinds + ["float"])
            if t != "float":
                sp[k] = t
    if sp:
        c["spell"] = sp
    return c


def gen_calls(rng, tier, scale=1):
    """call shapes (default strategies, aliases, attribute / item access, positional / keyword arguments, omitted
    parameters), numeric spellings, units, boundary cut-offs, the erb branches"""
    quick = tier == "quick"
    reps = (1 if quick else 6) * scale
    cases = []
    for _ in range(reps):
        # --- every default strategy called through the StrategyDict itself, positional and keyword
        for args in ("pos", "kw"):
            cases.append({"entry": "lowpass", "cutoff": _f(_rand_freq(rng)), "args": args})
            cases.append({"entry": "highpass", "cutoff": _f(_rand_freq(rng)), "args": args})
            cases.append({"entry": "resonator", "freq": _f(_rand_freq(rng)), "bandwidth": _f(_rand_bw(rng)), "args": args})
            d = rng.randint(1, 6)
            cases.append({"entry": "comb", "delay": d, "param": _f(rng.randint(-15, 15) / 16.0), "xs": _xs(rng, 2 * d + 3), "args": args})
            cases.append({"entry": "gammatone", "freq": _f(rng.uniform(0.3, 2.8)), "bandwidth": _f(_rand_bw(rng)), "args": args})
        # --- every strategy of every StrategyDict with all arguments by keyword
        for band in ("lowpass", "highpass"):
            for st in LP_STRATS:
                cases.append({"entry": band, "strategy": st, "cutoff": _f(_rand_freq(rng)), "args": "kw", "via": "attr"})
        for st in RES_STRATS:
            cases.append({"entry": "resonator", "strategy": st, "freq": _f(rng.uniform(0.6, 2.5)), "bandwidth": _f(_rand_bw(rng)),
                          "args": "kw", "via": "attr"})
        for st in COMB_STRATS:
            d = rng.randint(1, 5)
            cases.append({"entry": "comb", "strategy": st, "delay": d, "param": _f(rng.choice([0.5, 2.0, -0.75])),
                          "xs": _xs(rng, 2 * d + 2), "args": "kw"})
        for st in GT_STRATS:
            c = {"entry": "gammatone", "strategy": st, "freq": _f(rng.uniform(0.5, 2.6)), "bandwidth": _f(_rand_bw(rng)), "args": "kw"}
            if st == "sampled":
                c.update(phase=_f(rng.uniform(-1, 1)), eta=rng.randint(1, 4))
            cases.append(c)
        # --- omitted parameters
        for st in (None, "fb", "tau", "ff"):
            d = rng.randint(1, 7)
            c = {"entry": "comb", "delay": d, "xs": _xs(rng, 3 * d + 2), "args": rng.choice(["pos", "kw"])}
            if st:
                c["strategy"] = st
                if rng.random() < 0.5:
                    c["via"] = rng.choice(["attr", "alias:" + rng.choice(ALIASES[("comb", st)])])
            cases.append(c)
        for omit in (("phase",), ("eta",), ("phase", "eta"), ()):
            for with_st in (True, False):
                c = {"entry": "gammatone", "strategy": "sampled", "freq": _f(rng.uniform(0.3, 2.8)), "bandwidth": _f(_rand_bw(rng)),
                     "phase": _f(rng.uniform(-PI, PI)), "eta": rng.choice([1, 2, 3, 5, 6]),
                     "args": rng.choice(["pos", "kw", "mixed"])}
                for k in omit:
                    del c[k]
                if not with_st:
                    del c["strategy"]
                elif rng.random() < 0.5:
                    c["via"] = "attr"
                cases.append(c)
        # --- every strategy under every way to reach it, arguments positional / keyword, other numeric types
        for band in ("lowpass", "highpass"):
            for st in LP_STRATS:
                v = rng.choice([1.0, 2.0, 3.0, 0.5, 1.5, _rand_freq(rng)])
                cases.append(_spell_some(rng, _shape(rng, {"entry": band, "strategy": st, "cutoff": _f(v)})))
        for st in RES_STRATS:
            f = rng.choice([1.0, 2.0, 0.75, _rand_freq(rng)]) if st != "z_exp" else rng.choice([1.0, 2.0, 1.5])
            bw = rng.choice([1.0, 0.5, 0.125, _rand_bw(rng)])
            cases.append(_spell_some(rng, _shape(rng, {"entry": "resonator", "strategy": st, "freq": _f(f), "bandwidth": _f(bw)})))
        for st in COMB_STRATS:
            for _k in range(2):
                d = rng.randint(1, 8)
                p = rng.choice([1.0, 2.0, 0.5, 40.0, float("inf")]) if st == "tau" else rng.choice([1.0, 0.0, -1.0, 0.5, -0.25])
                cases.append(_spell_some(rng, _shape(rng, {"entry": "comb", "strategy": st, "delay": d, "param": _f(p),
                                                            "xs": _xs(rng, 2 * d + 3)})))
        for st in GT_STRATS:
            c = {"entry": "gammatone", "strategy": st, "freq": _f(rng.choice([1.0, 2.0, 0.5, rng.uniform(0.3, 2.8)])),
                 "bandwidth": _f(rng.choice([1.0, 0.5, 0.0625, _rand_bw(rng)]))}
            if st == "sampled":
                c["phase"] = _f(rng.choice([0.0, 1.0, -0.5, rng.uniform(-PI, PI)]))
                c["eta"] = rng.randint(1, 6)
            c = _shape(rng, c)
            # sampled too: Fraction(float) is the binary value, so `freq - phase` / `-bandwidth` in exact Fractions and
            # then float(...) is the correctly rounded float operation - measured bit-identical on 3000 random calls
            c = _spell_some(rng, c)
            cases.append(c)
        # --- gammatone.sampled with Fraction / int spelled parameters, every order
        for eta in (1, 2, 3, 4, 5, 6):
            c = {"entry": "gammatone", "strategy": "sampled", "freq": _f(rng.choice([1.0, 2.0, rng.uniform(0.6, 2.5)])),
                 "bandwidth": _f(rng.choice([1.0, 0.5, rng.uniform(0.05, 1.0)])),
                 "phase": _f(rng.choice([0.0, 1.0, -0.5, rng.uniform(-PI, PI)])), "eta": eta}
            c["spell"] = {k: "frac" for k in ("freq", "bandwidth", "phase") if rng.random() < 0.8} or {"freq": "frac"}
            cases.append(c)
        # --- gammatone.sampled: every order with a non-zero phase and with phase 0 (well conditioned centre frequencies)
        for eta in (1, 2, 3, 4, 5, 6):
            for ph in (0.0, rng.choice([0.5, -1.25, 2.0, rng.uniform(-PI, PI)])):
                cases.append({"entry": "gammatone", "strategy": "sampled", "freq": _f(rng.uniform(0.6, 2.5)),
                              "bandwidth": _f(rng.uniform(0.05, 1.0)), "phase": _f(ph), "eta": eta})
        # --- units: `f * Hz` with `s, Hz = sHz(rate)`
        for rate in (44100, 8000, 48000.0):
            Hz = 2 * PI / rate
            fhz = rng.choice([100.0, 440.0, 1000.0, rng.uniform(20, rate / 2 - 20)])
            band = rng.choice(["lowpass", "highpass"])
            cases.append({"entry": band, "strategy": rng.choice(LP_STRATS), "cutoff": _f(fhz * Hz), "rate": rate, "fhz": _f(fhz)})
            cases.append({"entry": "resonator", "strategy": rng.choice(["poles_exp", "freq_poles_exp", "freq_z_exp"]),
                          "freq": _f(fhz * Hz), "bandwidth": _f(rng.uniform(10, 400) * Hz), "rate": rate, "fhz": _f(fhz)})
            for st in ("gm90", "mg83"):
                fhz = rng.choice([100.0, 1000.0, 4000.0, rng.uniform(20, rate / 2)])
                cases.append(_shape(rng, {"entry": "erb", "strategy": st, "freq": _f(fhz * Hz), "Hz": _f(Hz), "rate": rate,
                                          "fhz": _f(fhz)}))
        # --- erb: Hz left out (hertz in, hertz out; below 7 refused), given by keyword / position, other numeric types
        for st in ("gm90", "mg83"):
            for f in (1000.0, 7.0, math.nextafter(7.0, 0), 6.0, 0.5, 20000.0, rng.uniform(7, 20000), rng.uniform(0, 7)):
                cases.append(_spell_some(rng, _shape(rng, {"entry": "erb", "strategy": st, "freq": _f(f)})))
            for f, hz in ((0.1, 2 * PI / 44100), (3.0, 1.0), (rng.uniform(0.01, 3.1), 2 * PI / rng.choice([8000, 22050, 96000]))):
                cases.append(_spell_some(rng, _shape(rng, {"entry": "erb", "strategy": st, "freq": _f(f), "Hz": _f(hz)})))
        # --- erb is elementwise in freq
        for cont in ("list", "tuple", "Stream", "gen"):
            for hz, refuse in ((None, False), (None, True), (2 * PI / 44100, False)):
                n = rng.randint(1, 4)
                fs = [rng.uniform(7, 20000) if hz is None else rng.uniform(0.001, 3.1) for _ in range(n)]
                if refuse:
                    fs.insert(rng.randint(0, n), rng.uniform(0, 6.9))      # an item the call refuses
                c = {"entry": "erbmap", "cont": cont, "freqs": [_f(f) for f in fs]}
                if hz is not None:
                    c["Hz"] = _f(hz)
                if rng.random() < 0.6:
                    c["strategy"] = rng.choice(["gm90", "mg83"])
                cases.append(c)
    if scale == 1:
        # --- boundary cut-offs, outside the contract's quantifier: coefficients only (kind model)
        for band in ("lowpass", "highpass"):
            for st in LP_STRATS:
                for v in (0.0, 1e-9, 1e-5, PI - 1e-5, PI - 1e-9, PI):
                    cases.append({"entry": band, "strategy": st, "cutoff": _f(v), "nocontract": True})
                cases.append({"entry": band, "strategy": st, "cutoff": 0, "nocontract": True, "spell": {"cutoff": "int"}})
        for st in RES_STRATS:
            for f in (0.0, PI):
                for bw in (1e-3, 1.0):
                    cases.append({"entry": "resonator", "strategy": st, "freq": _f(f), "bandwidth": _f(bw), "nocontract": True})
    return cases

# ----------------------------------------------------------------------------------------------
# observation of the real code
# ----------------------------------------------------------------------------------------------
def _fl(j):
    """float(dec(j)) without the detour through Fraction: int / int is correctly rounded (exact for the
    binary values the transport carries)"""
    if type(j) is str:
        p, sep, q = j.partition("/")
        if sep:
            return int(p) / int(q)
    elif type(j) is int:
        return float(j)
    v = dec(j)
    return v if isinstance(v, float) else float(v)


def _absresp(filt, w):
    r = filt.freq_response(w)
    return enc(float(abs(r)))


def _observe(filt, at=None):
    o = {"num": [enc(float(x)) for x in filt.numerator], "den": [enc(float(x)) for x in filt.denominator],
         "dc": _absresp(filt, 0.0), "nyq": _absresp(filt, PI), "grid": [_absresp(filt, w) for w in GRID]}
    if at is not None:
        o["at"] = _absresp(filt, at)
    return o


def _sample(v, n):
    from audiolazy import Stream
    if isinstance(v, Stream):
        return [enc(float(x)) for x in v.take(n)]
    return [enc(float(v))] * n


def _coef_samples(filt, n):
    """numerator / denominator of a (possibly time varying) filter at the first n instants"""
    out = []
    for d in (filt.numdict, filt.dendict):
        cols = {int(k): _sample(v, n) for k, v in d.items()}
        top = max(cols) if cols else -1
        zero = [0] * n
        out.append([[cols.get(k, zero)[i] for k in range(top + 1)] for i in range(n)])
    return out


def _cyc(p, i):
    return p[i % len(p)] if isinstance(p, list) else p


def _param(p):
    from audiolazy import Stream
    if isinstance(p, list):
        return Stream(*[_fl(x) for x in p])
    return _fl(p)


def _impl_erbmap(c):
    """erb is elementwise in `freq`: a list / tuple / Stream / generator of frequencies gives the same kind of container
    of bandwidths; the lazy kinds are read one item at a time up to the first exception"""
    import audiolazy as al
    fs = [_fl(x) for x in c["freqs"]]
    cont = c["cont"]
    arg = {"list": list, "tuple": tuple, "Stream": lambda v: al.Stream(v), "gen": lambda v: (x for x in v)}[cont](fs)
    fn = al.erb if "strategy" not in c else al.erb[c["strategy"]]
    kw = {"Hz": _fl(c["Hz"])} if "Hz" in c else {}
    try:
        r = fn(arg, **kw)
    except Exception as ex:
        return {"raised": err_kind(ex), "items": []}
    o = {"type": "generator" if type(r).__name__ == "generator" else type(r).__name__, "items": []}
    it = iter(r)
    for _ in fs:
        try:
            o["items"].append({"v": enc(float(next(it)))})
        except Exception as ex:
            o["items"].append({"err": err_kind(ex)})
            break
    # ... and READING ON: two reads more than there are frequencies, refusals and the end included (a lazy result only;
    # from a second result of the same call, so that "items" above stays what it was)
    if cont in ("Stream", "gen"):
        arg2 = {"Stream": lambda v: al.Stream(v), "gen": lambda v: (x for x in v)}[cont](fs)
        it2 = iter(fn(arg2, **kw))
        o["reads"] = []
        for _ in range(len(fs) + 2):
            try:
                o["reads"].append({"v": enc(float(next(it2)))})
            except StopIteration:
                o["reads"].append({"stop": True})
            except Exception as ex:
                o["reads"].append({"err": err_kind(ex)})
    return o


def _impl_thub(c):
    """the real design with Stream(*values) / number arguments; per schedule entry j one item of every coefficient of the
    filter object at position j of the cascade (numdict / dendict; a number coefficient is itself)"""
    import warnings
    import audiolazy as al
    with warnings.catch_warnings():
        warnings.simplefilter("ignore")
        args = []
        for vals, as_stream in zip((c["v1"], c["v2"]), c["streams"]):
            vals = [_fl(x) for x in vals]
            args.append(al.Stream(*vals) if as_stream else vals[0])
        k = c["kind"]
        if k in ("lowpass", "highpass"):
            filt = getattr(al, k)[c["strategy"]](args[0])
        elif k == "resonator":
            filt = al.resonator[c["strategy"]](args[0], args[1])
        elif k == "klapuri":
            filt = al.gammatone.klapuri(args[0], args[1])
        else:
            filt = al.comb[c["strategy"]](c["delay"], args[0])
        objs = list(filt) if isinstance(filt, al.CascadeFilter) else [filt]
        cols = [({int(kk): v for kk, v in f.numdict.items()}, {int(kk): v for kk, v in f.dendict.items()}) for f in objs]
        reads = []
        for j in c["sched"]:
            n, d = hist._instant(cols[j][0]), hist._instant(cols[j][1])
            reads.append(None if n is None or d is None else {"num": n, "den": d})
        return {"reads": reads, "nobj": len(objs), "distinct_objects": len(set(id(f) for f in objs)) == len(objs)}


def impl(c):
    """hist / combhist: the first ISO_ALWAYS of a run alone in a fresh process (harness/props/c13_hist.py:zygote_start),
    everything else in this process — and again alone in a fresh process when it disagrees (see compare)"""
    hist.zygote_start()            # fork the pristine process before this process runs its first case
    if c["entry"] in ("hist", "combhist"):
        hist._ISO["n"] += 1
        if hist._ISO["n"] <= hist.ISO_ALWAYS:
            io = hist.isolated_impl(c)
            if io is not None:
                return io
    io = impl_here(c)
    io["isolated"] = False
    return io


def impl_here(c):
    import audiolazy as al
    e = c["entry"]
    if e == "hist":
        return hist.impl_hist(c)
    if e == "combhist":
        return hist.impl_combhist(c)
    if e == "run":
        return hist.impl_run(c)
    try:
        if e in ("lowpass", "highpass"):
            fn, a, kw = _real_call(c)
            filt = fn(*a, **kw)
            return dict(_observe(filt, _fl(c["cutoff"])), ref=_default_ref(c, filt))
        if e == "resonator":
            fn, a, kw = _real_call(c)
            filt = fn(*a, **kw)
            return dict(_observe(filt, _fl(c["freq"])), ref=_default_ref(c, filt))
        if e == "comb":
            fn, a, kw = _real_call(c)
            filt = fn(*a, **kw)
            xs = hist.xs_of(c)
            return {"num": [enc(float(x)) for x in filt.numerator], "den": [enc(float(x)) for x in filt.denominator],
                    "out": [enc(float(y)) for y in filt(xs)], "ref": _default_ref(c, filt)}
        if e == "gammatone":
            fn, a, kw = _real_call(c)
            g = fn(*a, **kw)
            f = _fl(c["freq"])
            return {"type": type(g).__name__, "sections": [_observe(s, f) for s in g], "ref": _default_ref(c, g)}
        if e == "erb":
            fn, a, kw = _real_call(c)
            v = fn(*a, **kw)
            o = {"value": enc(float(v)), "type": type(v).__name__}
            if "rate" in c:
                # units (theorem erb_units): the bandwidth in rad/sample is the hertz formula times Hz
                Hz = al.sHz(c["rate"])[1]
                o["units_ref"] = enc(float(al.erb[_strategy(c)](_fl(c["fhz"])) * Hz))
            return o
        if e == "erbmap":
            return _impl_erbmap(c)
        if e == "erb_constants":
            x, y = al.gammatone_erb_constants(c["n"])
            return {"value": [enc(float(x)), enc(float(y))]}
        if e == "thub":
            return _impl_thub(c)
        if e == "stream":
            d, n = c["design"], c["take"]
            if d in ("lowpass", "highpass"):
                filts = [getattr(al, d)[c["strategy"]](_param(c["cutoff"]))]
            elif d == "resonator":
                filts = [al.resonator[c["strategy"]](_param(c["freq"]), _param(c["bandwidth"]))]
            elif d == "klapuri":
                filts = list(al.gammatone.klapuri(_param(c["freq"]), _param(c["bandwidth"])))
            else:
                filts = [al.comb[c["strategy"]](c["delay"], _param(c["param"]))]
            consts = []
            for i in range(n):
                if d in ("lowpass", "highpass"):
                    cf = [getattr(al, d)[c["strategy"]](_fl(_cyc(c["cutoff"], i)))]
                elif d == "resonator":
                    cf = [al.resonator[c["strategy"]](_fl(_cyc(c["freq"], i)), _fl(_cyc(c["bandwidth"], i)))]
                elif d == "klapuri":
                    cf = list(al.gammatone.klapuri(_fl(_cyc(c["freq"], i)), _fl(_cyc(c["bandwidth"], i))))
                else:
                    cf = [al.comb[c["strategy"]](c["delay"], _fl(_cyc(c["param"], i)))]
                consts.append([{"num": [enc(float(x)) for x in f.numerator],
                                "den": [enc(float(x)) for x in f.denominator]} for f in cf])
            ids = [id(v) for f in filts for d in (f.numdict, f.dendict) for v in d.values() if isinstance(v, al.Stream)]
            return {"samples": [_coef_samples(f, n) for f in filts], "const": consts,
                    "shared": len(ids) != len(set(ids)), "ncoefstreams": len(ids)}
        return {"err": "bad-entry"}
    except Exception as ex:
        return {"err": err_kind(ex)}


def request(c):
    if c["entry"] == "hist":
        return hist.request_hist(c)
    if c["entry"] == "combhist":
        return hist.request_combhist(c)
    if c["entry"] == "run":
        return hist.request_run(c)
    if c["entry"] == "comb" and "sig" in c:
        r = {k: v for k, v in c.items() if k not in HARNESS_KEYS}
        r["xs"] = [_f(x) for x in hist.xs_of(c)]
        return r
    if c["entry"] == "erbmap":
        return {k: v for k, v in c.items() if k != "cont"}
    if c["entry"] != "stream":
        return {k: v for k, v in c.items() if k not in HARNESS_KEYS}
    d, n = c["design"], c["take"]
    subs = []
    for i in range(n):
        if d in ("lowpass", "highpass"):
            subs.append({"entry": d, "strategy": c["strategy"], "cutoff": _cyc(c["cutoff"], i)})
        elif d == "resonator":
            subs.append({"entry": d, "strategy": c["strategy"], "freq": _cyc(c["freq"], i), "bandwidth": _cyc(c["bandwidth"], i)})
        elif d == "klapuri":
            subs.append({"entry": "gammatone", "strategy": "klapuri", "freq": _cyc(c["freq"], i), "bandwidth": _cyc(c["bandwidth"], i)})
        else:
            subs.append({"entry": "comb", "strategy": c["strategy"], "delay": c["delay"], "param": _cyc(c["param"], i), "xs": []})
    return {"entry": "multi", "cases": subs}


# ----------------------------------------------------------------------------------------------
# comparison
# ----------------------------------------------------------------------------------------------
def _close_list(xs, ys, tol):
    if len(xs) != len(ys):
        return False
    scale = max([1.0] + [abs(_fl(y)) for y in ys])
    return all(abs(_fl(x) - _fl(y)) <= tol * scale for x, y in zip(xs, ys))


def _ulp_dist(xs, ys):
    """largest |x - y| in units of the ulp of the largest |y| (inf when the lengths differ)"""
    if len(xs) != len(ys):
        return float("inf")
    ys = [_fl(y) for y in ys]
    u = math.ulp(max([abs(y) for y in ys] + [5e-324]))
    return max([abs(_fl(x) - y) / u for x, y in zip(xs, ys)] + [0.0])


def _ulp_close(xs, ys, k=UTOL):
    return _ulp_dist(xs, ys) <= k


def _poles(den):
    """roots of den(z^-1) in z, for the orders the designs produce"""
    a = [_fl(x) for x in den]
    if len(a) <= 1:
        return [], "none"
    if len(a) == 2:
        return [complex(-a[1] / a[0])], "real"
    if len(a) == 3:
        a1, a2 = a[1] / a[0], a[2] / a[0]
        disc = a1 * a1 - 4 * a2
        if disc < 0:
            r = math.sqrt(a2)
            th = math.atan2(math.sqrt(-disc), -a1)
            return [cmath.rect(r, th), cmath.rect(r, -th)], "complex"
        s = math.sqrt(disc)
        return [complex((-a1 + s) / 2), complex((-a1 - s) / 2)], "real"
    return None, "high-order"


def _resp(num, den, w):
    z = cmath.exp(-1j * w)
    n = sum(_fl(b) * z ** k for k, b in enumerate(num))
    d = sum(_fl(a) * z ** k for k, a in enumerate(den))
    return abs(n / d)


EPS = 2.0 ** -52


def _cond(num, den, w):
    """condition number of evaluating |H(e^{jw})| in floating point from the coefficient lists:
    sum|c_k| / |sum c_k z^k| for numerator and denominator (cancellation in the Horner sums)"""
    z = cmath.exp(-1j * w)
    tot = 0.0
    for cs in (num, den):
        v = [_fl(c) for c in cs]
        s = abs(sum(c * z ** k for k, c in enumerate(v)))
        if s == 0:
            return float("inf")
        tot += sum(abs(c) for c in v) / s
    return tot


def _gtol(obs, w):
    """tolerance of a measured gain: the design formulas' own conditioning (GTOL) plus the rounding
    of the implementation's freq_response evaluation (64 ulp times the condition number)"""
    return GTOL + 64 * EPS * _cond(obs["num"], obs["den"], w)


def _check_contract(name, obs, spec, out):
    """obs: observation of one real filter; spec: the Lean Contract record"""
    def bad(clause, detail):
        out.append(("spec", name + ":" + clause, detail))
    if spec["dc"] is not None and not close(_fl(obs["dc"]), _fl(spec["dc"]), _gtol(obs, 0.0)):
        bad("dc-gain", "|H(0)|=%r required %r" % (_fl(obs["dc"]), _fl(spec["dc"])))
    if spec["nyquist"] is not None and not close(_fl(obs["nyq"]), _fl(spec["nyquist"]), _gtol(obs, PI)):
        bad("nyquist-gain", "|H(pi)|=%r required %r" % (_fl(obs["nyq"]), _fl(spec["nyquist"])))
    for (w, g) in spec["points"]:
        got = _fl(obs["at"]) ** 2
        if not close(got, _fl(g), 2 * _gtol(obs, _fl(w))):
            bad("gain-at-frequency", "|H(%r)|^2=%r required %r" % (_fl(w), got, _fl(g)))
    for (x, g) in spec["cos_points"]:
        x = _fl(x)
        if -1 <= x <= 1:
            w = math.acos(x)
            got = _resp(obs["num"], obs["den"], w) ** 2
            if not close(got, _fl(g), 2 * _gtol(obs, w)):
                bad("gain-at-resonance", "|H(acos %r)|^2=%r required %r" % (x, got, _fl(g)))
    poles, kind = _poles(obs["den"])
    if poles is None:
        bad("poles", "denominator of unexpected order %d" % (len(obs["den"]) - 1))
        poles = []
    for p in poles:
        if not abs(p) < 1:
            bad("stable", "pole %r outside the unit circle" % (p,))
    if spec["pole_radius"] is not None:
        R = _fl(spec["pole_radius"])
        for p in poles:
            if not close(abs(p), R, TOL):
                bad("pole-radius:" + kind + "-poles", "|pole|=%r required %r" % (abs(p), R))
                break
    grid = [_fl(g) for g in obs["grid"]]
    if spec["peak"] is not None:
        pk = _fl(spec["peak"])
        if any(not (g * g <= pk + GTOL) for g in grid):
            bad("peak", "max |H|^2 on the grid = %r > %r" % (max(g * g for g in grid), pk))
    if spec["mono"] != 0:
        s = spec["mono"]
        if any((grid[i + 1] - grid[i]) * s < -1e-12 for i in range(len(grid) - 1)):
            bad("monotone", "|H| on the grid is not %s: %r" % ("increasing" if s > 0 else "decreasing", grid[:6]))


_ULP = []          # distances seen by the comparison of the current case (read and cleared by tally)


def _check_coefs(name, obs, model, out):
    _ULP.append(max(_ulp_dist(obs[part], model[part]) for part in ("num", "den")))
    for part in ("num", "den"):
        if not _ulp_close(obs[part], model[part]):
            out.append(("model", name + ":coefficients", "%s: impl %r model %r" % (
                part, [_fl(x) for x in obs[part]], [_fl(x) for x in model[part]])))


def _check_section(name, obs, model, w, out):
    """a section normalised by its own gain at w: the denominator as usual; the numerator must be the
    model's numerator up to ONE common factor (shape to 1e-9), and that factor must be 1 within the
    rounding of the gain evaluation (condition number of the section at w)"""
    if not _close_list(obs["den"], model["den"], TOL):
        out.append(("model", name + ":coefficients", "den: impl %r model %r" % (
            [_fl(x) for x in obs["den"]], [_fl(x) for x in model["den"]])))
    a, b = [_fl(x) for x in obs["num"]], [_fl(x) for x in model["num"]]
    if len(a) != len(b):
        out.append(("model", name + ":coefficients", "num: impl %r model %r" % (a, b)))
        return
    den = sum(y * y for y in b)
    lam = sum(x * y for x, y in zip(a, b)) / den if den else 1.0
    scale = max([1e-300] + [abs(x) for x in a])
    if any(abs(x - lam * y) > TOL * scale for x, y in zip(a, b)) or \
            not abs(lam - 1) <= TOL + 64 * EPS * _cond(obs["num"], obs["den"], w):
        out.append(("model", name + ":coefficients", "num (common factor %r): impl %r model %r" % (lam, a, b)))


def _problems(c, io, drv):
    out = []
    del _ULP[:]
    e = c["entry"]
    if e == "hist":
        return hist.problems_hist(c, io, drv)
    if e == "combhist":
        return hist.problems_combhist(c, io, drv)
    if e == "run":
        return hist.problems_run(c, io, drv)
    name = e + "." + str(_strategy(c))
    if e == "erbmap":
        return _problems_erbmap(c, io, drv)
    if "err" in drv:
        if io.get("err") != drv["err"]:
            out.append(("model", name + ":error", "impl %r model raises %s" % (io, drv["err"])))
            out.append(("spec", name + ":error", "impl %r, required %s" % (io, drv["err"])))
        return out
    if "err" in io:
        return [("model", name + ":raised", "impl raised " + io["err"]), ("spec", name + ":raised:" + io["err"], "impl raised " + io["err"])]
    if io.get("ref") and not io["ref"]["same"]:
        out.append(("spec", e + ":default-strategy", "%s(...) called directly is not %s.%s(...) with the same arguments" % (
            e, e, io["ref"]["default"])))
    if e in ("lowpass", "highpass", "resonator"):
        _check_coefs(name, io, drv["model"], out)
        if not c.get("nocontract"):
            _check_contract(name, io, drv["spec"], out)
    elif e == "comb":
        _check_coefs(name, io, drv["model"], out)
        if not _close_list(io["out"], drv["run"], TOL):
            out.append(("model", name + ":run", "output %r, difference equation on model coefficients %r" % (io["out"][:8], drv["run"][:8])))
        if not _close_list(io["out"], drv["spec"]["out"], TOL):
            out.append(("spec", name + ":difference-equation", "delay %d, %d input samples: %s" % (
                c["delay"], len(io["out"]), hist._first_diff(io["out"], drv["spec"]["out"]))))
        if _strategy(c) == "tau":
            d = c["delay"]
            den = [_fl(x) for x in io["den"]]
            got = -den[d] if len(den) == d + 1 else 0.0
            if not close(got, _fl(drv["spec"]["alpha"]), TOL):
                out.append(("spec", name + ":alpha", "alpha=%r required exp(-delay/tau)=%r" % (got, _fl(drv["spec"]["alpha"]))))
    elif e == "gammatone":
        secs = io["sections"]
        if io["type"] != "CascadeFilter":
            out.append(("spec", name + ":type", "returned %s, not a CascadeFilter" % io["type"]))
        if len(secs) != len(drv["model"]):
            out.append(("model", name + ":sections", "%d sections, model %d" % (len(secs), len(drv["model"]))))
            out.append(("spec", name + ":sections", "%d sections, required %d" % (len(secs), len(drv["spec"]))))
        else:
            for i, (s, m, sp) in enumerate(zip(secs, drv["model"], drv["spec"])):
                if _strategy(c) == "klapuri":
                    _check_coefs(name + "[%d]" % i, s, m, out)      # resonator sections: no normalisation by a measured gain
                else:
                    _check_section(name + "[%d]" % i, s, m, _fl(c["freq"]), out)
                _check_contract(name, s, sp, out)
    elif e == "erb":
        if not _ulp_close([io["value"]], [drv["model"]]):
            out.append(("model", name + ":value", "impl %r model %r" % (_fl(io["value"]), _fl(drv["model"]))))
        if io.get("type") != "float":
            out.append(("spec", name + ":type", "erb of a number returned a %s" % io.get("type")))
        if "units_ref" in io and not _ulp_close([io["value"]], [io["units_ref"]], 8):
            out.append(("spec", name + ":units", "erb(f*Hz, Hz) = %r but erb(f) * Hz = %r (sHz(%r))" % (
                _fl(io["value"]), _fl(io["units_ref"]), c["rate"])))
    elif e == "erb_constants":
        if not _ulp_close(io["value"][:1], drv["model"][:1]) or not _ulp_close(io["value"][1:], drv["model"][1:]):
            out.append(("model", name + ":value", "impl %r model %r" % (io["value"], drv["model"])))
    elif e == "thub":
        name = "thub." + c["kind"] + "." + c["strategy"]
        if drv.get("wf") is not True:
            out.append(("model", name + ":program-not-wellformed", "wfDesign of the strategy's stream program is false"))

        def tz(xs):
            xs = list(xs)
            while len(xs) > 1 and _fl(xs[-1]) == 0:
                xs.pop()
            return xs
        past = []
        for t, (j, got) in enumerate(zip(c["sched"], io["reads"])):
            k = past.count(j)
            past.append(j)
            if got is None:
                out.append(("spec", name + ":coefficient-stream-ended", "read %d (position %d, its read number %d): a coefficient "
                            "Stream has ended" % (t, j, k)))
                return out
            for part in ("num", "den"):
                want = tz(drv["spec"][t][part])
                if not _ulp_close(tz(got[part]), want):
                    out.append(("spec", name + ":sample-by-sample", "read %d = read number %d of position %d, %s: Stream-valued "
                                "design %r, constant design of value number %d of each argument %r" % (
                                    t, k, j, part, [_fl(x) for x in got[part]], k, [_fl(x) for x in want])))
                if not _ulp_close(tz(got[part]), tz(drv["model"][t][part])):
                    out.append(("model", name + ":sample-by-sample", "read %d (position %d, its read number %d) %s: impl %r model %r" % (
                        t, j, k, part, [_fl(x) for x in got[part]], [_fl(x) for x in drv["model"][t][part]])))
            if out:
                return out
    elif e == "stream":
        name = "stream." + c["design"] + "." + c["strategy"]
        n = c["take"]
        if io.get("shared"):
            out.append(("spec", name + ":shared-coefficient-object", "one Stream object is the coefficient of two places of the "
                        "cascade / filter: its items would be split between them"))
        for fi, samples in enumerate(io["samples"]):
            for i in range(n):
                m = drv["results"][i]["model"]
                m = m[fi] if isinstance(m, list) else m
                k = io["const"][i][fi]
                for part, got in (("num", samples[0][i]), ("den", samples[1][i])):
                    got = list(got)
                    # a time varying coefficient that happens to be zero is still stored
                    while len(got) > len(k[part]) and _fl(got[-1]) == 0:
                        got.pop()
                    if not _close_list(got, k[part], 1e-12):
                        out.append(("spec", name + ":sample-by-sample", "instant %d %s: Stream-valued design %r, constant design %r" % (
                            i, part, [_fl(x) for x in got], [_fl(x) for x in k[part]])))
                    if not _ulp_close(got, m[part]):
                        out.append(("model", name + ":sample-by-sample", "instant %d %s: impl %r model %r" % (
                            i, part, [_fl(x) for x in got], [_fl(x) for x in m[part]])))
                    if out:
                        return out
    return out


def _problems_erbmap(c, io, drv):
    """elementwise erb: the container kind is kept; an eager container (list / tuple) is the Lean `erbCallList` (all
    items, or the ValueError of the first refused one), a lazy one (Stream / generator) the Lean `erbCallLazy` (item by
    item up to the first refusal)   [theorem erb_elementwise]"""
    name = "erbmap." + _strategy(c) + "." + c["cont"]
    out = []

    def bad(cl, detail):
        out.append(("model", name + ":" + cl, detail))
        out.append(("spec", name + ":" + cl, detail))
    if c["cont"] in ("list", "tuple"):
        want = drv["eager"]
        if "err" in want:
            if io.get("raised") != want["err"]:
                bad("error", "impl %r, required: the call raises %s" % (io, want["err"]))
            return out
        want = [{"model": v} for v in want["values"]]
    else:
        want = drv["lazy"]
    if "raised" in io:
        bad("raised:" + io["raised"], "the call raised " + io["raised"])
        return out
    kind = {"list": "list", "tuple": "tuple", "Stream": "Stream", "gen": "generator"}[c["cont"]]
    if io["type"] != kind:
        out.append(("spec", name + ":type", "erb of a %s returned a %s" % (kind, io["type"])))
    if len(io["items"]) != len(want):
        bad("length", "%d items read, required %d" % (len(io["items"]), len(want)))
        return out
    for k, (got, w) in enumerate(zip(io["items"], want)):
        if "err" in w or "err" in got:
            if got.get("err") != w.get("err"):
                bad("item-error", "item %d: impl %r required %r" % (k, got, w))
        elif not _ulp_close([got["v"]], [w["model"]]):
            bad("elementwise", "item %d (frequency %r): %r, the call on that frequency alone gives %r" % (
                k, _fl(c["freqs"][k]), _fl(got["v"]), _fl(w["model"])))
    if "reads" in io:
        # reading on after a refusal / after the end (Lean erbLazyReads, theorem erb_lazy_reading_on)
        for k, (got, w) in enumerate(zip(io["reads"], drv["reads"])):
            same = (got.get("stop") is True and w.get("stop") is True) or \
                   ("err" in got and got.get("err") == w.get("err")) or \
                   ("v" in got and "model" in w and _ulp_close([got["v"]], [w["model"]]))
            if not same:
                bad("reading-on", "read %d of the lazy result: impl %r, required %r" % (k, got, w))
                break
    return out


AFTER = ":only-after-earlier-cases"


def _problems_iso(c, io, drv):
    """a case that disagrees in this process is run again alone in a fresh process: when it fails there too, that
    observation is the witness (self-contained); when it does not, the library kept state from the earlier cases of
    this run — still a violation (the designs must not depend on earlier calls), labelled as such"""
    ps = _problems(c, io, drv)
    if ps and io.get("isolated") is False:
        io2 = hist.isolated_impl(c)
        if io2 is not None:
            ps2 = _problems(c, io2, drv)
            if ps2:
                io.clear()
                io.update(io2)
                return ps2
            io["only_after_earlier_cases"] = True
    if io.get("only_after_earlier_cases"):
        ps = [(k, cl + AFTER, "only after the earlier cases of this run (agrees when run alone in a fresh process: the "
               "library keeps state between calls): " + d) for k, cl, d in ps]
    return ps


def compare(c, io, drv):
    return [(k, "%s: %s" % (cl, d)) for k, cl, d in _problems_iso(c, io, drv)]


def classify(c, io, drv):
    ps = _problems_iso(c, io, drv)
    spec = [p for p in ps if p[0] == "spec"]
    if spec:
        return spec[0][1]
    return ps[0][1] if ps else "none"


def nontrivial(c, io):
    if c["entry"] == "hist":
        return any("secs" in st for st in io["steps"]) and not any(
            "err" in st and not (op[0] == "build" and c["dsgs"][op[1]].get("bad")) for st, op in zip(io["steps"], c["ops"]))
    return "err" not in io


def tally(eng, c, io):
    e = c["entry"]
    for u in _ULP:
        eng.count("coef_ulp", "bit-exact" if u == 0 else "<=%d ulp" % UTOL if u <= UTOL else "more (reported)")
    del _ULP[:]
    if e == "hist":
        eng.count("entry", "hist")
        for d in c["dsgs"]:
            eng.count("hist_design", d["kind"] + "." + str(d.get("strategy", "")))
        hist.tally_hist(eng, c, io)
        return
    if e == "run":
        eng.count("entry", "run." + c["design"]["entry"] + "." + c["design"]["strategy"])
        if "err" in io:
            eng.count("impl_error", io["err"])
        hist.tally_long(eng, c, io)
        return
    if e == "thub":
        eng.count("entry", "thub." + c["kind"] + "." + c["strategy"])
        eng.count("thub_args", "/".join("Stream" if b else "number" for b in c["streams"][:2 if c["kind"] in ("resonator", "klapuri") else 1]))
        nsec = io.get("nobj", 1)
        cnt = [c["sched"].count(j) for j in range(nsec)]
        eng.count("thub_schedule", "one filter object" if nsec == 1 else
                  "cascade, lock-step" if c["sched"] == list(range(nsec)) * cnt[0] else "cascade, uneven rates / order")
        if "err" in io:
            eng.count("impl_error", io["err"])
        return
    eng.count("entry", e + ("." + c["design"] if e == "stream" else "") + "." + str(c.get("strategy", "")))
    if e in DEFAULT_STRATEGY and "sig" not in c:
        # call shape: which object is called, how the arguments travel, which are left out, their numeric types
        eng.count("call_via", e + ":" + ("default (StrategyDict called)" if "strategy" not in c else c.get("via", "item").split(":")[0]))
        eng.count("call_args", c.get("args", "pos"))
        left = [k for k, _ in _param_names(c) if k not in c]
        eng.count("call_omitted", e + ":" + (",".join(left) if left else "-"))
        for k, t in sorted(c.get("spell", {}).items()):
            eng.count("param_spelling", k + ":" + t)
        if "rate" in c:
            eng.count("units", e + ": f*Hz with sHz(%s)" % c["rate"])
        if c.get("nocontract"):
            eng.count("boundary", e + "." + _strategy(c) + ":" + ("0" if _fl(c.get("cutoff", c.get("freq"))) == 0 else
                      "pi" if _fl(c.get("cutoff", c.get("freq"))) == PI else "near 0" if _fl(c.get("cutoff", c.get("freq"))) < 1 else "near pi"))
    if e == "erbmap":
        eng.count("erbmap", c["cont"] + ":" + ("Hz given" if "Hz" in c else "Hz omitted") + ":" + (
            "raises" if io.get("raised") or any("err" in it for it in io["items"]) else "ok"))
        return
    if e == "erb":
        eng.count("erb_branch", ("Hz given" if "Hz" in c else "Hz omitted") + ":" + ("ValueError" if "err" in io else "ok"))
    if e == "combhist" or (e == "comb" and "sig" in c):
        hist.tally_long(eng, c, io)
        if "err" in io:
            eng.count("impl_error", io["err"])
        return
    if "err" in io:
        eng.count("impl_error", io["err"])
        return
    for k in ("cutoff", "freq"):
        if k in c and not isinstance(c[k], list):
            v = _fl(c[k])
            eng.count("frequency_bucket", "%.1f" % (math.floor(v * 5) / 5))
            if e in ("lowpass", "highpass") and _strategy(c) == "z":
                eng.count("z_branch", "cos==0" if math.cos(v) == 0 else "cos!=0")
    if "bandwidth" in c and not isinstance(c["bandwidth"], list):
        eng.count("bandwidth_bucket", "%.1f" % (math.floor(_fl(c["bandwidth"]) * 10) / 10))
    if e == "resonator":
        _p, kind = _poles(io["den"])
        eng.count("resonator_poles", _strategy(c) + ":" + kind)
    if e == "comb":
        eng.count("comb_delay", c["delay"])
        eng.count("comb_den_len", len(io["den"]))
    if e == "gammatone":
        eng.count("gammatone_sections", len(io["sections"]))
        # how sharp the unit-gain check is: 64 ulp * condition number of the first section at freq
        t = 64 * EPS * _cond(io["sections"][0]["num"], io["sections"][0]["den"], _fl(c["freq"]))
        eng.count("gammatone_gain_tolerance", "<1e-9" if t < 1e-9 else "<1e-6" if t < 1e-6 else "<1e-3" if t < 1e-3
                  else "<1e-1" if t < 1e-1 else ">=1e-1 (rounding dominates: check vacuous)")
        if _strategy(c) == "sampled":
            eng.count("gammatone_eta", c.get("eta", "omitted (4)"))
            eng.count("gammatone_eta_phase", "eta=%s:phase%s" % (c.get("eta", "omitted"), " omitted" if "phase" not in c else
                      "=0" if _fl(c["phase"]) == 0 else "!=0"))


def regenerate(eng=None):
    """translator: lean/ALV/Gen/C13Src.lean from the strategy bodies of the repo under test (harness/props/c13_tr.py)"""
    return c13_tr.regenerate(eng)


def _translator_checks(eng):
    """the translator on edited copies of the source, and on the source under test against the committed Gen file"""
    try:
        texts = c13_tr.read_source()
        text, _ = c13_tr.translate(texts)
    except Exception as e:
        yield ("translator-selftest", False, "the source under test does not translate: %s" % e)
        return
    for item in c13_tr.selftest(texts):
        yield item
    # the default parameter values the call model (ALV/Model/C13Call.lean: combCall, alpha = 1, tau = inf) copies,
    # read from the `def` lines by the translator
    _, infos = c13_tr.translate(texts)
    got = {i["strategy"]: dict(zip(i["params"], i["defaults"])) for i in infos if "strategy" in i}
    want = {"comb.fb": {"delay": None, "alpha": "1"}, "comb.tau": {"delay": None, "tau": "inf"},
            "comb.ff": {"delay": None, "alpha": "1"}}
    bad = {k: got.get(k) for k in want if got.get(k) != want[k]}
    bad.update({k: v for k, v in got.items() if k not in want and any(d is not None for d in v.values())})
    yield ("translator-defaults", not bad, "default parameter values in the source differ from the call model's: %r" % bad
           if bad else "comb.fb alpha=1, comb.tau tau=inf, comb.ff alpha=1; no other translated strategy has a default")
    good = c13_tr.committed_text()
    if good is None:
        yield ("translator-reproduces-committed", False, "lean/" + c13_tr.GEN_REL + " is not committed")
    else:
        same = c13_tr._defs_only(good) == c13_tr._defs_only(text)
        yield ("translator-reproduces-committed", same,
               "byte-identical to the committed file" if good == text else
               "only comments differ from the committed file" if same else
               "the source under test translates to other definitions than the committed lean/" + c13_tr.GEN_REL +
               ": " + ", ".join(c13_tr.changed_defs(good, text)) + " (theorems src_<name>_is_model)")


def extra_checks(eng):
    """identity facts about the implementation's strategy tables (not per-case)"""
    import audiolazy as al
    for item in _translator_checks(eng):
        yield item
    eng.extra["pending"] = []   # gammatone_sampled_first_unit_gain_all_eta is a theorem now (Eulerian closed form)
    eng.extra["refuted_on_the_model"] = [
        "resonator.z_exp pole radius exp(-bw/2) for ALL parameters: false when cos(f)*(1+R^2) > 2R "
        "(theorem resonator_z_exp_real_poles); recorded as known finding; exact region: the documented radius holds iff "
        "|cos f| <= 1/cosh(bw/2), i.e. arccos(1/cosh(bw/2)) <= f <= pi - arccos(1/cosh(bw/2)) "
        "(theorems resonator_z_exp_radius_region / _radius_interval / _wrong_radius)"]
    want = {
        "lowpass": {"pole", "z", "pole_exp", "z_exp"}, "highpass": {"pole", "z", "pole_exp", "z_exp"},
        "resonator": {"poles_exp", "freq_poles_exp", "z_exp", "freq_z_exp"},
        "comb": {"fb", "alpha", "fb_alpha", "feedback_alpha", "tau", "fb_tau", "feedback_tau", "ff", "ff_alpha", "feedforward_alpha"},
        "gammatone": {"sampled", "slaney", "klapuri"},
    }
    for name, keys in sorted(want.items()):
        sd = getattr(al, name)
        got = {k for ks in sd.keys() for k in ks}
        yield ("strategies:" + name, got == keys, "strategy names %r, expected %r" % (sorted(got), sorted(keys)))
    yield ("default:lowpass", al.lowpass.default is al.lowpass.pole, "lowpass.default is not lowpass.pole")
    yield ("default:highpass", al.highpass.default is al.highpass.z, "highpass.default is not highpass.z")
    yield ("default:erb", al.erb.default is al.erb.gm90, "erb.default is not erb.gm90 (the strategy registered first)")
    yield ("alias:comb", al.comb.alpha is al.comb.fb and al.comb.fb_tau is al.comb.tau and al.comb.ff_alpha is al.comb.ff,
           "comb aliases do not name the same strategies")


def _simpler(v):
    """strictly simpler values only (shorter exact encoding), so that shrinking terminates quickly"""
    v = _fl(v)
    if v != v or v in (float("inf"), float("-inf")):
        return
    size = len(str(enc(v)))
    seen = set()
    for k in (0, 1, 2, 3, 4, 6, 10):
        r = round(v * 2 ** k) / 2 ** k
        if r != v and r not in seen and len(str(enc(r))) < size:
            seen.add(r)
            yield r


def shrink(c):
    e = c["entry"]
    if e == "hist":
        yield from hist.shrink_hist(c)
        return
    if e == "combhist":
        yield from hist.shrink_combhist(c)
        return
    if e == "run":
        yield from hist.shrink_run(c)
        return
    if e == "comb" and "sig" in c:
        yield from hist.shrink_comb_sig(c)
        for v in _simpler(c["param"]):
            yield dict(c, param=_f(v))
        return
    if e == "thub":
        if len(c["sched"]) > 1:
            yield dict(c, sched=c["sched"][:-1])
            yield dict(c, sched=c["sched"][1:])
        for k in ("v1", "v2"):
            if len(c[k]) > 1:
                yield dict(c, **{k: c[k][:-1]})
        return
    if e == "stream":
        for k in ("cutoff", "freq", "bandwidth", "param"):
            if isinstance(c.get(k), list) and len(c[k]) > 1:
                yield dict(c, **{k: c[k][:-1]})
                yield dict(c, **{k: c[k][1:]})
        if c["take"] > 1:
            yield dict(c, take=c["take"] - 1)
        return
    for k in ("cutoff", "freq", "bandwidth", "phase", "param"):
        if k in c and "rate" not in c and k not in c.get("spell", {}) and e != "erbmap":
            for v in _simpler(c[k]):
                ok = (LO <= v <= HI) if k in ("cutoff", "freq") else (1e-3 <= v <= 1) if k == "bandwidth" else True
                if ok:
                    yield dict(c, **{k: _f(v)})
    if e == "comb":
        if c["delay"] > 1:
            yield dict(c, delay=c["delay"] - 1)
        xs = c["xs"]
        if len(xs) > 1:
            yield dict(c, xs=xs[:-1])
        if any(_fl(x) != 0 for x in xs[1:]):
            yield dict(c, xs=[1] + [0] * (len(xs) - 1))
    if e == "gammatone" and _strategy(c) == "sampled" and c.get("eta", 1) > 1:
        yield dict(c, eta=c["eta"] - 1)
    # a plainer call: same numbers, default shape
    for k in ("spell", "args", "via", "rate"):
        if k in c and not (k == "via" and "strategy" not in c):
            yield {kk: v for kk, v in c.items() if kk != k and not (k == "rate" and kk == "fhz")}
    if e == "erbmap" and len(c["freqs"]) > 1:
        yield dict(c, freqs=c["freqs"][:-1])
        yield dict(c, freqs=c["freqs"][1:])


def neighbours(c):
    e = c["entry"]
    if e in ("hist", "combhist", "run", "thub"):
        return
    for k in ("cutoff", "freq", "bandwidth", "param"):
        if k in c and not isinstance(c[k], list) and "rate" not in c and k not in c.get("spell", {}) and e != "erbmap":
            v = _fl(c[k])
            if v != v or v in (float("inf"), float("-inf")):
                continue
            for d in (-0.1, -0.01, 0.01, 0.1):
                w = v + d
                ok = (LO <= w <= HI) if k in ("cutoff", "freq") else (1e-3 <= w <= 1) if k == "bandwidth" else True
                if ok:
                    yield dict(c, **{k: _f(w)})
    if e == "comb":
        for d in (-1, 1):
            if c["delay"] + d >= 1:
                yield dict(c, delay=c["delay"] + d)
    if e == "gammatone" and _strategy(c) == "sampled" and "eta" in c:
        for d in (-1, 1):
            if c["eta"] + d >= 1:
                yield dict(c, eta=c["eta"] + d)
