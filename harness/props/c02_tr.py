"""C02 - translator of function BODIES: reads `Stream.limit`, `Stream.skip` (with its generator `skipper`), `Stream.take`,
`Stream.peek` (audiolazy/lazy_stream.py), `zero_pad` (lazy_misc.py) and `attack` (lazy_synth.py) from the source of the repo
under test with `ast` (nothing is imported from the repo) and writes `lean/ALV/Gen/C02Src.lean` in the vocabulary of
`lean/ALV/Model/C02Src.lean`:

  * count expressions (`max(int(round(n)), 0)`, `rint(n) if n > 0 else 0`, `int(a + .5)`, `isinf(n) and n > 0`, ...) become
    program values `PE` (deep: interpreted by `PE.eval` in Lean), together with the sink they are handed to
    (`it.islice(data, .)` or `xrange(.)`);
  * the statement list of `take` becomes a `List TStmt` (deep: `TProg.run`);
  * generator bodies over ONE source are parsed into PHASES
        emit(c, x)   `for _ in xrange(c): yield x`                      (no read)
        drop(c)      `for _ in xrange(c): try: next(src) except StopIteration: return`
        first(it, v) `try: v = next(it) except StopIteration: return`
        pass(src)    `for el in src: yield el`
    and the three phase shapes of the slice are written as `Stage` literals of the shape of the hand-written model
    (shallow): emit* pass emit* -> prologue / pass-through / epilogue; drop pass -> counter state; first emit* pass -> flag
    state with all the line samples behind the one read.

Anything outside this subset in a translated function is a TranslationError (= broken obligation).  The theorems
`ALV.Props.C02.src_*_is_model` say that every regenerated definition IS the hand-written model function."""
import ast
import os
from fractions import Fraction

import common

GEN_REL = os.path.join("ALV", "Gen", "C02Src.lean")
FILES = ("lazy_stream.py", "lazy_misc.py", "lazy_synth.py")
RANGES = ("xrange", "range")

TRANSLATED = [
    ("Stream.limit", "lazy_stream.py", "shallow stage (it.islice(data, stop) -> isliceStop) + deep count program (PE)"),
    ("Stream.skip / skipper", "lazy_stream.py", "shallow stage from generator phases [drop, pass] + deep count program (PE)"),
    ("Stream.take", "lazy_stream.py", "deep: statement list (TStmt) with PE conditions / counts, interpreter TProg.run"),
    ("Stream.peek", "lazy_stream.py", "deep: the delegation `self.copy().take(n=n, constructor=constructor)` -> take's program"),
    ("zero_pad", "lazy_misc.py", "shallow stage from generator phases [emit*, pass, emit*]"),
    ("attack (iterable sustain)", "lazy_synth.py", "shallow stage from generator phases [first, emit, emit, pass] + deep length "
                                                   "programs int(a + .5), int(d + .5) (PE)"),
]
NOT_TRANSLATED = [
    ("StreamTeeHub.take / peek / copy / __iter__", "object state (the list of tee copies popped by __iter__) - the hub machine is "
                                                   "modelled and proved in C03 / C06, not in this slice"),
    ("Stream.copy (it.tee) behind peek", "tee is trusted vocabulary; peekThenReads stays hand-written"),
    ("lazy_itertools `for func in filter(callable, ...)` wrapper loop", "iterates dir(itertools) of the RUNNING interpreter: not "
     "determined by the source text; the registry tables stay checked against audiolazy.__all__ at run time (api-complete)"),
    ("attack: slopes m_a / m_d and the non-iterable branch `while True: yield s`", "data path (C19) / no source to count; parsed "
     "strictly (pure assignments, exact shape) but not emitted"),
    ("blocks, overlap_add, stft, resample, Streamix, zcross, filters, ...", "loops with deques / exec'ed code / float positions: "
     "outside the translated subset; hand-written models tied by differential pull counting as before"),
    ("rint (lazy_misc)", "vocabulary of the count programs (PE.rint = half away from zero), its body is not translated"),
]


class TranslationError(Exception):
    pass


def read_sources():
    out = {}
    for name in FILES:
        with open(os.path.join(common.REPO, "audiolazy", name)) as f:
            out[name] = f.read()
    return out


# ---------------------------------------------------------------------------------------------
# small ast helpers
# ---------------------------------------------------------------------------------------------
def _fail(where, node, what):
    raise TranslationError("%s line %s: %s: %s" % (where, getattr(node, "lineno", "?"), what,
                                                   ast.unparse(node)[:100] if isinstance(node, ast.AST) else node))


def _body(fn):
    """statements of a function without its docstring"""
    b = list(fn.body)
    if b and isinstance(b[0], ast.Expr) and isinstance(b[0].value, ast.Constant) and isinstance(b[0].value.value, str):
        b = b[1:]
    return b


def _top_func(tree, name, where):
    fs = [n for n in tree.body if isinstance(n, ast.FunctionDef) and n.name == name]
    if len(fs) != 1:
        raise TranslationError("%s: %d top-level definitions of %s" % (where, len(fs), name))
    return fs[0]


def _method(tree, cls, name, where):
    cs = [n for n in tree.body if isinstance(n, ast.ClassDef) and n.name == cls]
    if len(cs) != 1:
        raise TranslationError("%s: %d definitions of class %s" % (where, len(cs), cls))
    fs = [n for n in cs[0].body if isinstance(n, ast.FunctionDef) and n.name == name]
    if len(fs) != 1:
        raise TranslationError("%s: %d definitions of %s.%s" % (where, len(fs), cls, name))
    return fs[0]


def _params(fn, where):
    a = fn.args
    if a.vararg or a.kwarg or a.kwonlyargs or getattr(a, "posonlyargs", None):
        raise TranslationError("%s: *args / **kwargs / keyword-only / positional-only parameters" % where)
    nd = len(a.defaults)
    out = []
    for i, p in enumerate(a.args):
        k = i - (len(a.args) - nd)
        out.append((p.arg, a.defaults[k] if k >= 0 else None))
    return out


def _is_name(node, name=None):
    return isinstance(node, ast.Name) and (name is None or node.id == name)


def _is_self_data(node):
    return isinstance(node, ast.Attribute) and node.attr == "_data" and _is_name(node.value, "self")


def _plain_call(node, nargs=None):
    """f(a, b) with positional arguments only -> (callee node, args) else None"""
    if isinstance(node, ast.Call) and not node.keywords and not any(isinstance(a, ast.Starred) for a in node.args):
        if nargs is None or len(node.args) == nargs:
            return node.func, node.args
    return None


def _names(node):
    return set(n.id for n in ast.walk(node) if isinstance(n, ast.Name))


def _calls(node):
    out = set()
    for n in ast.walk(node):
        if isinstance(n, ast.Call):
            out.add(n.func.id if isinstance(n.func, ast.Name) else ast.unparse(n.func))
    return out


# ---------------------------------------------------------------------------------------------
# count expressions -> PE
# ---------------------------------------------------------------------------------------------
def pe(node, var, where):
    """expression over the one variable `var` -> PE tree (tuples)"""
    if _is_name(node, var):
        return ("arg",)
    if isinstance(node, ast.Constant):
        v = node.value
        if isinstance(v, bool) or v is None:
            _fail(where, node, "constant outside the subset")
        if isinstance(v, int):
            return ("int", v)
        if isinstance(v, float) and v == v and abs(v) != float("inf"):
            return ("flt", Fraction(v))
        _fail(where, node, "constant outside the subset")
    if isinstance(node, ast.UnaryOp) and isinstance(node.op, ast.USub) and isinstance(node.operand, ast.Constant):
        inner = pe(node.operand, var, where)
        return (inner[0], -inner[1])
    c = _plain_call(node)
    if c and isinstance(c[0], ast.Name):
        f, args = c[0].id, c[1]
        if f in ("round", "int", "rint", "isinf") and len(args) == 1:
            return ({"round": "round", "int": "toInt", "rint": "rint", "isinf": "isinf"}[f], pe(args[0], var, where))
        if f == "max" and len(args) == 2:
            return ("max", pe(args[0], var, where), pe(args[1], var, where))
        if f == "isinstance" and len(args) == 2 and _is_name(args[1], "float"):
            return ("isFloat", pe(args[0], var, where))
        _fail(where, node, "call outside the vocabulary (round, int, rint, isinf, max, isinstance(., float))")
    if isinstance(node, ast.BinOp) and isinstance(node.op, ast.Add):
        return ("add", pe(node.left, var, where), pe(node.right, var, where))
    if isinstance(node, ast.Compare) and len(node.ops) == 1 and isinstance(node.ops[0], ast.Gt):
        return ("gt", pe(node.left, var, where), pe(node.comparators[0], var, where))
    if isinstance(node, ast.BoolOp) and isinstance(node.op, ast.And):
        vals = [pe(v, var, where) for v in node.values]
        out = vals[-1]
        for v in reversed(vals[:-1]):
            out = ("and", v, out)
        return out
    if isinstance(node, ast.IfExp):
        return ("ite", pe(node.test, var, where), pe(node.body, var, where), pe(node.orelse, var, where))
    _fail(where, node, "expression outside the subset")


def lean_pe(t):
    k = t[0]
    if k == "arg":
        return ".arg"
    if k == "int":
        return "(.int %d)" % t[1] if t[1] >= 0 else "(.int (%d))" % t[1]
    if k == "flt":
        q = t[1]
        return "(.flt (%d / %d))" % (q.numerator, q.denominator) if q >= 0 else "(.flt (-%d / %d))" % (-q.numerator, q.denominator)
    return "(.%s %s)" % (k, " ".join(lean_pe(x) for x in t[1:]))


# ---------------------------------------------------------------------------------------------
# generator bodies -> phases
# ---------------------------------------------------------------------------------------------
def _stop_returns(node, where):
    """`try: <one statement> except StopIteration: return` -> that statement"""
    if not (isinstance(node, ast.Try) and len(node.body) == 1 and len(node.handlers) == 1 and not node.orelse
            and not node.finalbody):
        _fail(where, node, "try statement outside the subset")
    h = node.handlers[0]
    if not (_is_name(h.type, "StopIteration") and h.name is None and len(h.body) == 1
            and isinstance(h.body[0], ast.Return) and h.body[0].value is None):
        _fail(where, node, "handler is not `except StopIteration: return`")
    return node.body[0]


def _next_of(node):
    """`next(x)` -> 'x' else None"""
    c = _plain_call(node, 1)
    if c and _is_name(c[0], "next") and _is_name(c[1][0]):
        return c[1][0].id
    return None


def _yield_of(stmt):
    if isinstance(stmt, ast.Expr) and isinstance(stmt.value, ast.Yield) and stmt.value.value is not None:
        return stmt.value.value
    return None


def phases(stmts, sources, where):
    """statement list of a generator -> list of phases; `sources` = names of the iterators that may be read"""
    out = []
    for st in stmts:
        if isinstance(st, ast.For) and not st.orelse and _is_name(st.target) and len(st.body) == 1:
            c = _plain_call(st.iter, 1)
            if c and isinstance(c[0], ast.Name) and c[0].id in RANGES:
                count, inner = c[1][0], st.body[0]
                if _names(count) & set(sources):
                    _fail(where, st, "loop count depends on a source")
                y = _yield_of(inner)
                if y is not None:
                    if _names(y) & set(sources) or _calls(y) & {"next", "iter"}:
                        _fail(where, st, "yielded value reads a source")
                    out.append(("emit", count, y, st.target.id))
                    continue
                if isinstance(inner, ast.Try):
                    got = _stop_returns(inner, where)
                    src = _next_of(got.value) if isinstance(got, ast.Expr) else None
                    if src in sources:
                        out.append(("drop", count, src))
                        continue
                _fail(where, st, "counted loop outside the subset")
            if _is_name(st.iter) and st.iter.id in sources:
                y = _yield_of(st.body[0])
                if y is not None and _is_name(y, st.target.id):
                    out.append(("pass", st.iter.id, st.target.id))
                    continue
            _fail(where, st, "for loop outside the subset")
        if isinstance(st, ast.Try):
            got = _stop_returns(st, where)
            if isinstance(got, ast.Assign) and len(got.targets) == 1 and _is_name(got.targets[0]):
                src = _next_of(got.value)
                if src in sources:
                    out.append(("first", src, got.targets[0].id))
                    continue
            _fail(where, st, "try statement outside the subset")
        _fail(where, st, "statement outside the subset")
    return out


def _kinds(ph):
    return [p[0] for p in ph]


# ---------------------------------------------------------------------------------------------
# the six functions
# ---------------------------------------------------------------------------------------------
def _islice_of_self_data(node, where):
    """`it.islice(self._data, E)` -> E"""
    c = _plain_call(node)
    if not (c and isinstance(c[0], ast.Attribute) and c[0].attr == "islice" and _is_name(c[0].value, "it")):
        _fail(where, node, "not a call of it.islice")
    if len(c[1]) != 2 or not _is_self_data(c[1][0]):
        _fail(where, node, "it.islice must be called as it.islice(self._data, stop)")
    return c[1][1]


def _assign_self_data(st, where):
    if not (isinstance(st, ast.Assign) and len(st.targets) == 1 and _is_self_data(st.targets[0])):
        _fail(where, st, "expected `self._data = ...`")
    return st.value


def _returns_self(st, where):
    if not (isinstance(st, ast.Return) and _is_name(st.value, "self")):
        _fail(where, st, "expected `return self`")


def tr_limit(tree):
    w = "Stream.limit"
    fn = _method(tree, "Stream", "limit", w)
    ps = _params(fn, w)
    if [p for p, _ in ps] != ["self", ps[-1][0]] or ps[1][1] is not None:
        raise TranslationError("%s: expected the signature (self, n)" % w)
    b = _body(fn)
    if len(b) != 2:
        raise TranslationError("%s: expected two statements, found %d" % (w, len(b)))
    stop = _islice_of_self_data(_assign_self_data(b[0], w), w)
    _returns_self(b[1], w)
    return {"count": pe(stop, ps[1][0], w)}


def tr_skip(tree):
    w = "Stream.skip"
    fn = _method(tree, "Stream", "skip", w)
    ps = _params(fn, w)
    if len(ps) != 2 or ps[0][0] != "self" or ps[1][1] is not None:
        raise TranslationError("%s: expected the signature (self, n)" % w)
    b = _body(fn)
    if len(b) != 3 or not isinstance(b[0], ast.FunctionDef):
        raise TranslationError("%s: expected a nested generator, `self._data = gen(self._data)`, `return self`" % w)
    gen = b[0]
    gps = _params(gen, w)
    if len(gps) != 1 or gen.decorator_list:
        raise TranslationError("%s: the nested generator must take the data iterator only" % w)
    c = _plain_call(_assign_self_data(b[1], w), 1)
    if not (c and _is_name(c[0], gen.name) and _is_self_data(c[1][0])):
        _fail(w, b[1], "expected `self._data = %s(self._data)`" % gen.name)
    _returns_self(b[2], w)
    ph = phases(_body(gen), [gps[0][0]], w)
    if _kinds(ph) != ["drop", "pass"]:
        raise TranslationError("%s: generator phases %r, expected ['drop', 'pass']" % (w, _kinds(ph)))
    return {"count": pe(ph[0][1], ps[1][0], w), "el": ph[1][2]}


def _tret(node, where):
    c = _plain_call(node, 1)
    if c and _is_name(c[0], "next") and _is_self_data(c[1][0]):
        return ("one",)
    if c and _is_name(c[0], "constructor"):
        if _is_self_data(c[1][0]):
            return ("all",)
        return ("islice", _islice_of_self_data(c[1][0], where))
    _fail(where, node, "return value outside the subset")


def tr_take(tree):
    w = "Stream.take"
    fn = _method(tree, "Stream", "take", w)
    ps = _params(fn, w)
    if [p for p, _ in ps] != ["self", "n", "constructor"]:
        raise TranslationError("%s: expected the parameters (self, n, constructor)" % w)
    var = "n"
    prog = []
    for st in _body(fn):
        if isinstance(st, ast.Return) and st.value is not None:
            r = _tret(st.value, w)
            prog.append(("ret", r if r[0] != "islice" else ("islice", pe(r[1], var, w))))
            break
        if isinstance(st, ast.If) and not st.orelse and len(st.body) == 1:
            inner = st.body[0]
            is_none = (isinstance(st.test, ast.Compare) and len(st.test.ops) == 1 and isinstance(st.test.ops[0], ast.Is)
                       and _is_name(st.test.left, var) and isinstance(st.test.comparators[0], ast.Constant)
                       and st.test.comparators[0].value is None)
            if isinstance(inner, ast.Return) and inner.value is not None:
                r = _tret(inner.value, w)
                r = r if r[0] != "islice" else ("islice", pe(r[1], var, w))
                prog.append(("retIfNone", r) if is_none else ("retIf", pe(st.test, var, w), r))
                continue
            if (not is_none and isinstance(inner, ast.Assign) and len(inner.targets) == 1
                    and _is_name(inner.targets[0], var)):
                prog.append(("setIf", pe(st.test, var, w), pe(inner.value, var, w)))
                continue
        _fail(w, st, "statement outside the subset")
    else:
        raise TranslationError("%s: the body does not end with a return" % w)
    if st is not _body(fn)[-1]:
        raise TranslationError("%s: statements after the final return" % w)
    return {"prog": prog, "defaults": [(p, ast.unparse(d)) for p, d in ps if d is not None]}


def tr_peek(tree):
    w = "Stream.peek"
    fn = _method(tree, "Stream", "peek", w)
    ps = _params(fn, w)
    if [p for p, _ in ps] != ["self", "n", "constructor"]:
        raise TranslationError("%s: expected the parameters (self, n, constructor)" % w)
    b = _body(fn)
    ok = False
    if len(b) == 1 and isinstance(b[0], ast.Return) and isinstance(b[0].value, ast.Call):
        call = b[0].value
        f = call.func
        if (isinstance(f, ast.Attribute) and f.attr == "take" and isinstance(f.value, ast.Call)
                and isinstance(f.value.func, ast.Attribute) and f.value.func.attr == "copy"
                and _is_name(f.value.func.value, "self") and not f.value.args and not f.value.keywords):
            bound = {}
            for i, a in enumerate(call.args):
                bound[("n", "constructor")[i] if i < 2 else i] = a
            for k in call.keywords:
                bound[k.arg] = k.value
            ok = (set(bound) == {"n", "constructor"} and _is_name(bound["n"], "n")
                  and _is_name(bound["constructor"], "constructor"))
    if not ok:
        raise TranslationError("%s: expected `return self.copy().take(n=n, constructor=constructor)`" % w)
    return {"defaults": [(p, ast.unparse(d)) for p, d in ps if d is not None]}


def tr_zero_pad(tree):
    w = "zero_pad"
    fn = _top_func(tree, "zero_pad", w)
    if fn.decorator_list:
        raise TranslationError("%s: decorators" % w)
    ps = _params(fn, w)
    src = ps[0][0]
    ph = phases(_body(fn), [src], w)
    ks = _kinds(ph)
    if ks.count("pass") != 1 or set(ks) - {"emit", "pass"}:
        raise TranslationError("%s: generator phases %r, expected emit* pass emit*" % (w, ks))
    i = ks.index("pass")
    counts, values = [], []
    for p in ph[:i] + ph[i + 1:]:
        if not (_is_name(p[1]) and _is_name(p[2])):
            _fail(w, p[1], "an emit loop must be `for _ in xrange(<parameter>): yield <parameter>`")
        counts.append(p[1].id)
        values.append(p[2].id)
    role = {}
    for name, _ in ps[1:]:
        c, v = name in counts, name in values
        if c == v:
            raise TranslationError("%s: parameter %s is %s" % (w, name, "used as a count AND as a value" if c else "not used"))
        role[name] = "Nat" if c else "α"
    for n in counts + values:
        if n not in role:
            raise TranslationError("%s: %s is not a parameter" % (w, n))
    defaults = [(p, d.value) for p, d in ps[1:] if role[p] == "Nat" and isinstance(d, ast.Constant)
                and isinstance(d.value, int) and not isinstance(d.value, bool)]
    return {"params": [(p, role[p]) for p, _ in ps[1:]], "item": ph[i][2],
            "pre": [(p[1].id, p[2].id) for p in ph[:i]], "post": [(p[1].id, p[2].id) for p in ph[i + 1:]],
            "defaults": defaults}


def tr_attack(tree):
    w = "attack"
    fn = _top_func(tree, "attack", w)
    ps = [p for p, _ in _params(fn, w)]
    b = _body(fn)
    if len(b) < 3:
        raise TranslationError("%s: body too short" % w)
    # (1) `if isinstance(s, Iterable): it_s = iter(s); try: s = next(it_s) except StopIteration: return  else: it_s = None`
    head = b[0]
    c = _plain_call(head.test, 2) if isinstance(head, ast.If) else None
    if not (c and _is_name(c[0], "isinstance") and _is_name(c[1][0]) and c[1][0].id in ps and _is_name(c[1][1], "Iterable")):
        _fail(w, head, "expected `if isinstance(<parameter>, Iterable):` first")
    sus = c[1][0].id
    if len(head.body) != 2 or len(head.orelse) != 1:
        _fail(w, head, "branches of the sustain test outside the subset")
    a0 = head.body[0]
    ci = _plain_call(a0.value, 1) if isinstance(a0, ast.Assign) and len(a0.targets) == 1 and _is_name(a0.targets[0]) else None
    if not (ci and _is_name(ci[0], "iter") and _is_name(ci[1][0], sus)):
        _fail(w, a0, "expected `<it> = iter(%s)`" % sus)
    it_s = a0.targets[0].id
    first = phases([head.body[1]], [it_s], w)
    if _kinds(first) != ["first"] or first[0][2] != sus:
        _fail(w, head.body[1], "expected `try: %s = next(%s) except StopIteration: return`" % (sus, it_s))
    e0 = head.orelse[0]
    if not (isinstance(e0, ast.Assign) and len(e0.targets) == 1 and _is_name(e0.targets[0], it_s)
            and isinstance(e0.value, ast.Constant) and e0.value.value is None):
        _fail(w, e0, "expected `%s = None`" % it_s)
    # (3) `if it_s is None: while True: yield s  else: for s in it_s: yield s`
    tail = b[-1]
    t = tail.test if isinstance(tail, ast.If) else None
    if not (isinstance(t, ast.Compare) and len(t.ops) == 1 and isinstance(t.ops[0], ast.Is) and _is_name(t.left, it_s)
            and isinstance(t.comparators[0], ast.Constant) and t.comparators[0].value is None):
        _fail(w, tail, "expected `if %s is None:` last" % it_s)
    wl = tail.body[0] if len(tail.body) == 1 else None
    if not (isinstance(wl, ast.While) and isinstance(wl.test, ast.Constant) and wl.test.value is True and not wl.orelse
            and len(wl.body) == 1 and _yield_of(wl.body[0]) is not None and _is_name(_yield_of(wl.body[0]), sus)):
        _fail(w, tail, "expected `while True: yield %s` for a number" % sus)
    last = phases(tail.orelse, [it_s], w)
    if _kinds(last) != ["pass"] or last[0][2] != sus:
        _fail(w, tail, "expected `for %s in %s: yield %s` for an iterable" % (sus, it_s, sus))
    # (2) pure assignments, then the line loops
    assigns, loops = {}, []
    for st in b[1:-1]:
        if isinstance(st, ast.Assign) and not loops:
            if len(st.targets) != 1 or not _is_name(st.targets[0]) or st.targets[0].id in (it_s, sus) + tuple(ps):
                _fail(w, st, "assignment outside the subset")
            if it_s in _names(st.value) or _calls(st.value) & {"next", "iter"}:
                _fail(w, st, "assignment reads the sustain iterator")
            assigns[st.targets[0].id] = st.value
            continue
        ph = phases([st], [it_s], w)
        if _kinds(ph) != ["emit"]:
            _fail(w, st, "expected a line loop `for i in xrange(<length>): yield ...`")
        loops.append(ph[0])
    if not loops:
        raise TranslationError("%s: no line loop" % w)
    lens = []
    for p in loops:
        if not (_is_name(p[1]) and p[1].id in assigns):
            _fail(w, p[1], "the length of a line loop must be a local variable assigned before the loops")
        expr = assigns[p[1].id]
        free = sorted(_names(expr) & set(ps))
        if len(free) != 1 or free[0] == sus:
            _fail(w, expr, "a line length must depend on exactly one duration parameter")
        lens.append((p[1].id, free[0], pe(expr, free[0], w)))
    if len(set(l[0] for l in lens)) != len(lens):
        raise TranslationError("%s: a length variable drives two loops" % w)
    return {"lens": lens, "s": sus}


# ---------------------------------------------------------------------------------------------
# Lean text
# ---------------------------------------------------------------------------------------------
def _ident(s):
    if not (s.isidentifier() and s.isascii()) or s in ("fun", "match", "with", "if", "then", "else", "def", "end", "at", "from",
                                                        "let", "do", "in", "have", "show", "α"):
        raise TranslationError("name %r cannot be used as a Lean identifier" % (s,))
    return s


def _lean_str(s):
    if not all(ch.isalnum() or ch in "_.()' =" for ch in s):
        raise TranslationError("unexpected text %r" % (s,))
    return '"%s"' % s


def _lean_tret(r):
    return "." + r[0] if r[0] != "islice" else "(.islice %s)" % lean_pe(r[1])


def _lean_tstmt(s):
    if s[0] == "retIfNone":
        return ".retIfNone %s" % _lean_tret(s[1])
    if s[0] == "retIf":
        return ".retIf %s %s" % (lean_pe(s[1]), _lean_tret(s[2]))
    if s[0] == "setIf":
        return ".setIf %s %s" % (lean_pe(s[1]), lean_pe(s[2]))
    return ".ret %s" % _lean_tret(s[1])


def _binders(params):
    """[(name, type)] -> `(a b : Nat) (z : α)` grouping neighbours of one type"""
    groups = []
    for n, t in params:
        if groups and groups[-1][1] == t:
            groups[-1][0].append(_ident(n))
        else:
            groups.append(([_ident(n)], t))
    return " ".join("(%s : %s)" % (" ".join(ns), t) for ns, t in groups)


def _replicates(pairs):
    return " ++ ".join("List.replicate %s %s" % (_ident(c), _ident(v)) for c, v in pairs) if pairs else "[]"


def _defaults(rows):
    return "[%s]" % ", ".join("(%s, %s)" % (_lean_str(p), _lean_str(d) if isinstance(d, str) else "%d" % d) for p, d in rows)


def translate(srcs):
    tree = {name: ast.parse(text) for name, text in srcs.items()}
    lim, skp = tr_limit(tree["lazy_stream.py"]), tr_skip(tree["lazy_stream.py"])
    tk, pk = tr_take(tree["lazy_stream.py"]), tr_peek(tree["lazy_stream.py"])
    zp, at = tr_zero_pad(tree["lazy_misc.py"]), tr_attack(tree["lazy_synth.py"])
    L = ["/- GENERATED by harness/props/c02_tr.py from audiolazy/lazy_stream.py (Stream.limit, Stream.skip, Stream.take,",
         "   Stream.peek), audiolazy/lazy_misc.py (zero_pad) and audiolazy/lazy_synth.py (attack), read with `ast`.",
         "   Do not edit: rewritten on every check.  Vocabulary: ALV/Model/C02Src.lean. -/",
         "import ALV.Model.C02Src", "namespace ALV.Gen.C02", "open ALV ALV.C02", ""]
    L += ["/-- Stream.limit: `self._data = it.islice(self._data, <limit_count>)`; `return self` -/",
          "def limit_count : PE := %s" % lean_pe(lim["count"]),
          "def limit_sink : Sink := .islice",
          "def limit {α : Type} (N : Nat) : StopStage α α (Unit × Nat) := isliceStop N", ""]
    el = _ident(skp["el"])
    L += ["/-- Stream.skip: `self._data = skipper(self._data)`; `return self`; skipper = drop loop (StopIteration: return), then",
          "    the pass-through loop -/",
          "def skip_count : PE := %s" % lean_pe(skp["count"]),
          "def skip_sink : Sink := .xrange",
          "def skip {α : Type} (n : Nat) : Stage α α Nat :=",
          "  ⟨n, [],",
          "   fun c %s => match c with" % el,
          "     | 0 => (0, [%s])" % el,
          "     | c + 1 => (c, []),",
          "   fun _ => []⟩", ""]
    L += ["/-- Stream.take(n, constructor) -/",
          "def take_defaults : List (String × String) := %s" % _defaults(tk["defaults"]),
          "def take : List TStmt := ["]
    L.append(",\n".join("  " + _lean_tstmt(s) for s in tk["prog"]) + "]")
    L += ["", "/-- Stream.peek(n, constructor): `return self.copy().take(n=n, constructor=constructor)` -/",
          "def peek_defaults : List (String × String) := %s" % _defaults(pk["defaults"]),
          "def peek : List TStmt := take", ""]
    item = _ident(zp["item"])
    L += ["/-- zero_pad: yields before the loop (no read), the pass-through loop, yields after it -/",
          "def zero_pad_defaults : List (String × Int) := %s" % _defaults(zp["defaults"]),
          "def zero_pad {α : Type} %s : Stage α α Unit :=" % _binders(zp["params"]),
          "  ⟨(), %s," % _replicates(zp["pre"]),
          "   fun _ %s => ((), [%s])," % (item, item),
          "   fun _ => %s⟩" % _replicates(zp["post"]), ""]
    s = _ident(at["s"])
    lens = at["lens"]
    L += ["/-- attack with an iterable sustain, seen from the sustain: the first item on the first demand (StopIteration:",
          "    return), the line loops, then one item per output -/",
          "def attack_lens : List (String × String × PE × Sink) := ["]
    L.append(",\n".join("  (%s, %s, %s, .xrange)" % (_lean_str(v), _lean_str(p), lean_pe(e)) for v, p, e in lens) + "]")
    lvars = [_ident(v) for v, _, _ in lens]
    lines = ["line_%d" % (i + 1) for i in range(len(lens))]
    L += ["def attack {α : Type} (%s : Nat) (%s : α → Nat → α) : Stage α α Bool :=" % (" ".join(lvars), " ".join(lines)),
          "  ⟨true, [],",
          "   fun first %s =>" % s,
          "     if first then (false, %s)" % " ++ ".join("(List.range %s).map (%s %s)" % (v, l, s) for v, l in zip(lvars, lines)),
          "     else (false, [%s])," % s,
          "   fun _ => []⟩", "", "end ALV.Gen.C02", ""]
    return "\n".join(L)


def committed_text():
    import subprocess
    r = subprocess.run(["git", "-C", common.VERIF, "show", "HEAD:lean/" + GEN_REL.replace(os.sep, "/")],
                       capture_output=True, text=True, timeout=30)
    return r.stdout if r.returncode == 0 and r.stdout else None


def regenerate(eng=None):
    """Rewrite lean/ALV/Gen/C02Src.lean from the repo under test.  On a translation failure the last COMMITTED translation is
    put back (so that the build speaks about the last translatable state) and the error propagates (= broken obligation)."""
    path = os.path.join(common.LEAN, GEN_REL)
    try:
        text = translate(read_sources())
    except Exception:
        try:
            good = committed_text()
            if good and (not os.path.exists(path) or open(path).read() != good):
                with open(path, "w") as f:
                    f.write(good)
        except Exception:
            pass
        raise
    old = open(path).read() if os.path.exists(path) else None
    if old != text:
        with open(path, "w") as f:
            f.write(text)
        return "rewritten (%d bytes)" % len(text)
    return "unchanged (%d bytes)" % len(text)


# ---------------------------------------------------------------------------------------------
# self-test: deliberately edited source texts must change the translation (or fail to translate)
# ---------------------------------------------------------------------------------------------
EDITS = [
    ("limit: drop the clamp max(., 0)", "lazy_stream.py",
     "self._data = it.islice(self._data, max(int(round(n)), 0))", "self._data = it.islice(self._data, int(round(n)))"),
    ("limit: round -> rint", "lazy_stream.py", "it.islice(self._data, max(int(round(n)), 0))",
     "it.islice(self._data, max(int(rint(n)), 0))"),
    ("skip: one more turn of the drop loop", "lazy_stream.py", "for _ in xrange(int(round(n))):", "for _ in xrange(int(round(n)) + 1):"),
    ("skip: the pass-through loop before the drop loop (reordered statements)", "lazy_stream.py", None, None),
    ("take: `n > 0` -> `0 > n` in the float branch (swapped comparison)", "lazy_stream.py",
     "n = rint(n) if n > 0 else 0", "n = rint(n) if 0 > n else 0"),
    ("take: the clamp constant 0 -> 1", "lazy_stream.py", "constructor(it.islice(self._data, max(n, 0)))",
     "constructor(it.islice(self._data, max(n, 1)))"),
    ("peek: takes one item more than asked", "lazy_stream.py", "return self.copy().take(n=n, constructor=constructor)",
     "return self.copy().take(n=n + 1, constructor=constructor)"),
    ("zero_pad: left and right swapped", "lazy_misc.py",
     "xrange(left):\n    yield zero\n  for item in seq:\n    yield item\n  for unused in xrange(right):",
     "xrange(right):\n    yield zero\n  for item in seq:\n    yield item\n  for unused in xrange(left):"),
    ("zero_pad: the right padding is dropped", "lazy_misc.py", "  for unused in xrange(right):\n    yield zero\n", ""),
    ("zero_pad: the source is turned into a list first (eager)", "lazy_misc.py", "for item in seq:\n    yield item",
     "for item in list(seq):\n    yield item"),
    ("attack: len_d from the attack time", "lazy_synth.py", "len_d = int(d + .5)", "len_d = int(a + .5)"),
    ("attack: the rounding constant .5 -> 1.5", "lazy_synth.py", "len_a = int(a + .5)", "len_a = int(a + 1.5)"),
    ("attack: the first sustain value is read again inside the decay loop", "lazy_synth.py",
     "yield 1. + sample * m_d", "yield next(it_s) + sample * m_d"),
]


SCOPE = {"limit": "  def limit(", "skip": "  def skip(", "take": "  def take(", "peek": "  def peek(",
         "zero_pad": "def zero_pad(", "attack": "def attack("}


def _edit_in(text, marker, old, new):
    """replace `old` by `new` inside the FIRST definition starting with `marker` (up to the next definition at that depth)"""
    i = text.find("\n" + marker)
    if i < 0:
        return None
    indent = len(marker) - len(marker.lstrip())
    j = text.find("\n" + " " * indent + "def ", i + 1)
    k = text.find("\n" + " " * indent + "@", i + 1)
    ends = [x for x in (j, k) if x > 0]
    end = min(ends) if ends else len(text)
    seg = text[i:end]
    if seg.count(old) != 1:
        return None
    return text[:i] + seg.replace(old, new) + text[end:]


def _reorder_skipper(text):
    a = ("      for _ in xrange(int(round(n))):\n        try:\n          next(data)\n        except StopIteration: "
         "# Fewer than n items: nothing left to yield\n          return\n")
    b = "      for el in data:\n        yield el\n"
    if a + b not in text:
        return None
    return text.replace(a + b, b + a)


def selftest():
    """-> list of (label, outcome) with outcome in 'differs' / 'TranslationError: ...' / 'SAME TEXT' / 'edit not applicable'"""
    srcs = read_sources()
    base = translate(srcs)
    out = []
    for label, fname, old, new in EDITS:
        text = srcs[fname]
        if old is None:
            edited = _reorder_skipper(text)
        else:
            edited = _edit_in(text, SCOPE[label.split(":")[0]], old, new)
        if edited is None:
            out.append((label, "edit not applicable"))
            continue
        s2 = dict(srcs)
        s2[fname] = edited
        try:
            ast.parse(edited)
        except SyntaxError as e:
            out.append((label, "edit not applicable (syntax: %s)" % e))
            continue
        try:
            t2 = translate(s2)
            out.append((label, "differs" if t2 != base else "SAME TEXT"))
        except TranslationError as e:
            out.append((label, "TranslationError: %s" % str(e)[:110]))
    return base, out


if __name__ == "__main__":
    import sys
    if len(sys.argv) > 1 and sys.argv[1] == "selftest":
        for row in selftest()[1]:
            print("%-75s %s" % row)
    else:
        sys.stdout.write(translate(read_sources()))
