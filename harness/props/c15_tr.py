"""C15 — translator T5 (method bodies): reads the bodies of the `MultiKeyDict` / `StrategyDict` methods from the source of
the repo under test with `ast` (nothing is imported) and writes them, STATEMENT BY STATEMENT and in source order, as Lean
functions over the state records and dictionary primitives of the hand-written model (`lean/ALV/Gen/C15Src.lean`,
vocabulary in `lean/ALV/Model/C15Src.lean`).  `Props/C15.lean` proves `src_<f>_is_model`: each regenerated function IS the
model function the coherence / refinement / atomicity theorems are about.

Shape of the translation (shallow embedding, monad `Except Err`):
  * the receiver's state is the variable `s` (`St K V` for MultiKeyDict, `SD K V` for StrategyDict); a statement that
    changes one of the three dicts / `vars(self)` rebinds `s`;  a local assignment is a `let`
  * an expression that can raise is an action (`keyErr (dget …)`, a call of a translated method) bound with `←` at the
    place Python evaluates it;  `A and B` with a raising `B` is `if A then B else false`
  * `if` / `for` / `try … except KeyError` rebind the ONE variable their bodies change (`if … then … else …`,
    `List.foldl` / `List.foldlM`, `tryKey`); more than one changed variable is a TranslationError
  * types are inferred from the declared parameter kinds (K key / name, T key tuple, V value, …); `isinstance(x, tuple)`
    and `isinstance(k, STR_TYPES)` are decided on those kinds and the dead branch is dropped, so `__getitem__` yields two
    functions (`getitem` for a key, `getTuple` for a key tuple)
  * `self[...]`, `del self[...]`, `self.m(...)`, `super(C, self).m(...)`, `C.m(self, ...)` are resolved along the MRO
    StrategyDict -> MultiKeyDict -> dict/object among the translated methods, else to the dict / object primitive
  * BAD-OPERAND variants (`setitemBadKey`, `setitemUnhashable`, `sdSetBadKey`, `sdSetUnhashable`): the same body with a
    parameter that cannot be hashed; the statements in front of the first one that hashes it are translated, that
    statement ends the function with `(s, Res.rejected)` — so "refused before anything is changed" is read off the ORDER
    of the statements in the source
Anything outside this subset raises TranslationError (= broken obligation), never a silent skip."""
import ast
import os
from collections import namedtuple

import common

GEN_REL = os.path.join("ALV", "Gen", "C15Src.lean")
SRC_REL = os.path.join("audiolazy", "lazy_core.py")
MRO = ("StrategyDict", "MultiKeyDict")          # then dict / object (primitives)


class TranslationError(Exception):
    pass


class _Reject(Exception):
    """bad-operand mode: the statement being translated hashes the operand that cannot be hashed"""


# (class, method, generated name, kinds of the parameters after self)
#   K key / strategy name   T key tuple   V value   DN the attribute name "default"
#   BT key tuple holding an unhashable item   BV unhashable value
SPECS = [
    ("MultiKeyDict", "__getitem__", "getitem", ("K",)),
    ("MultiKeyDict", "__getitem__", "getTuple", ("T",)),
    ("MultiKeyDict", "key2keys", "key2keys", ("K",)),
    ("MultiKeyDict", "value2keys", "value2keys", ("V",)),
    ("MultiKeyDict", "__iter__", "iterValues", ()),
    ("MultiKeyDict", "__delitem__", "delitem", ("K",)),
    ("MultiKeyDict", "__setitem__", "setitem", ("T", "V")),
    ("MultiKeyDict", "__setitem__", "setitemBadKey", ("BT", "V")),
    ("MultiKeyDict", "__setitem__", "setitemUnhashable", ("T", "BV")),
    ("StrategyDict", "__delitem__", "sdDelitem", ("K",)),
    ("StrategyDict", "__setitem__", "sdSetitem", ("T", "V")),
    ("StrategyDict", "__setitem__", "sdSetBadKey", ("BT", "V")),
    ("StrategyDict", "__setitem__", "sdSetUnhashable", ("T", "BV")),
    ("StrategyDict", "__delattr__", "sdDelattrName", ("K",)),
    ("StrategyDict", "__delattr__", "sdDelattrDefault", ("DN",)),
    ("StrategyDict", "__call__", "sdCall", ()),
    ("StrategyDict", "__iter__", "sdIter", ()),
]
NOT_TRANSLATED = {
    "MultiKeyDict.__init__": "the loop `for key, value in iteritems(dict(*args, **kwargs)): self[key] = value` decides "
                             "key-or-key-tuple per item at run time (mixed kinds in one mapping); modelled by `ofPairs` "
                             "over `run`, tied by the constructor cases",
    "StrategyDict.__new__": "builds a class at run time (docstring personalisation); outside the property",
    "StrategyDict.strategy": "decorator factory: closures, `func.__name__` assignment, keyword popping; its effect on the "
                             "dict is the one statement `self[names] = func`, tied by the decorator routes",
}
LEAN_TY = {"K": "K", "T": "List K", "L": "List K", "V": "V", "N": "Nat", "B": "Bool", "OV": "Option V", "LV": "List V"}
BAD = ("BT", "BV")
RESERVED = {"s", "fun", "do", "let", "if", "then", "else", "match", "with", "at", "from", "end", "in", "open", "def",
            "pure", "some", "none", "id", "show", "have", "by", "where", "instance", "class", "structure", "type", "Type"}

E = namedtuple("E", "text ty lifts action")


def ev(text, ty, lifts=False, action=None):
    return E(text, ty, lifts, action)


def act(action, ty):
    return E("(← %s)" % action, ty, True, action)


def lname(n):
    if n == "$s":
        return "s"          # the receiver's state
    return n + "_" if n in RESERVED else n


def src_line(node):
    return " ".join(ast.unparse(node).split("\n")[0].split())


class Ctx(object):
    def __init__(self, cls, spec, env, depth=0, in_try=False, star=None):
        self.cls, self.spec, self.env, self.depth, self.in_try, self.star = cls, spec, env, depth, in_try, star

    def sub(self, **kw):
        c = Ctx(self.cls, self.spec, dict(self.env), self.depth + 1, self.in_try, self.star)
        for k, v in kw.items():
            setattr(c, k, v)
        return c


class Block(object):
    """translated statement list: `lines` (relative indentation), does it raise, which outer variables it rebinds,
    and the value it returns (a `return` is accepted as the last live statement only)"""
    def __init__(self):
        self.lines, self.raises, self.written, self.ret = [], False, [], None

    def write(self, v):
        if v not in self.written:
            self.written.append(v)


class Translator(object):
    def __init__(self, text):
        self.tree = ast.parse(text)
        self.methods = {}
        for node in self.tree.body:
            if isinstance(node, ast.ClassDef) and node.name in MRO:
                for f in node.body:
                    if isinstance(f, ast.FunctionDef):
                        self.methods[(node.name, f.name)] = f
        for cls in MRO:
            if not any(c == cls for c, _ in self.methods):
                raise TranslationError("class %s not found" % cls)
        self.done = {}       # generated name -> dict(cls, meth, kinds, ret, raises, mutates)

    # ---------------------------------------------------------------- method resolution
    def resolve(self, start_cls, meth, after=False):
        """the class among the translated ones whose `meth` Python would run for a receiver of class `start_cls`
        (`after` = super(start_cls, self)); None = dict / object"""
        i = MRO.index(start_cls) + (1 if after else 0)
        for cls in MRO[i:]:
            if (cls, meth) in self.methods:
                return cls
        return None

    def dynamic(self, c, meth):
        """`self.meth` looked up on the receiver: the receiver may be a StrategyDict even inside a MultiKeyDict
        method, so a method the subclass overrides cannot be resolved statically"""
        cls = self.resolve(c.cls, meth)
        if c.cls != MRO[0] and self.resolve(MRO[0], meth) != cls:
            raise TranslationError("%s: `self.%s` is overridden in %s (dynamic dispatch not modelled)"
                                   % (c.spec[2], meth, MRO[0]))
        return cls

    def callee(self, cls, meth, kinds):
        for name, d in self.done.items():
            if d["cls"] == cls and d["meth"] == meth and d["kinds"] == tuple(kinds):
                return name, d
        raise TranslationError("no translated variant of %s.%s for argument kinds %s" % (cls, meth, list(kinds)))

    def st_of(self, c, cls):
        """the state a method of class `cls` sees, from a context of class c.cls"""
        if cls == c.cls:
            return "s", None
        if c.cls == "StrategyDict" and cls == "MultiKeyDict":
            return "s.mkd", "mkd"
        raise TranslationError("call from %s into %s" % (c.cls, cls))

    def call_method(self, c, cls, meth, args, node):
        """a call of a translated method as an expression (value returning) or a statement (mutating)"""
        for a in args:
            if a.ty in BAD:
                raise TranslationError("%s: unhashable operand passed on to %s.%s" % (c.spec[2], cls, meth))
        name, d = self.callee(cls, meth, [a.ty for a in args])
        st, field = self.st_of(c, cls)
        lifts = any(a.lifts for a in args)
        call = " ".join([name, st] + [a.text for a in args])
        return d, field, call, lifts

    # ---------------------------------------------------------------- expressions
    def is_self(self, n):
        return isinstance(n, ast.Name) and n.id == "self"

    def self_dict(self, c, n):
        """`self._keys_dict` / `self._inv_dict` -> (Lean field, key kind, value kind)"""
        if isinstance(n, ast.Attribute) and self.is_self(n.value) and c.cls == "MultiKeyDict":
            if n.attr == "_keys_dict":
                return "keysDict", "K", "T"
            if n.attr == "_inv_dict":
                return "invDict", "V", "T"
        return None

    def is_super(self, n):
        """`super(C, self)` -> C"""
        if (isinstance(n, ast.Call) and isinstance(n.func, ast.Name) and n.func.id == "super" and len(n.args) == 2
                and isinstance(n.args[0], ast.Name) and self.is_self(n.args[1]) and not n.keywords):
            if n.args[0].id not in MRO:
                raise TranslationError("super(%s, self)" % n.args[0].id)
            return n.args[0].id
        return None

    def attr_name(self, e, who):
        """an attribute-name operand of getattr / setattr / hasattr / delattr / `in vars(self)`"""
        if e.ty == "K":
            return "(some %s)" % e.text
        if e.ty == "DN":
            return "none"
        raise TranslationError("%s: attribute name of kind %s" % (who, e.ty))

    def hashed(self, e):
        """is an unhashable object inside what gets hashed?"""
        if e.ty in BAD:
            return True
        if isinstance(e.ty, tuple):
            return any(self.hashed(x) for x in e.ty[1])
        return False

    def prop(self, e, who):
        if e.ty == "P":
            return e.text
        if e.ty == "B":
            return "(%s = true)" % e.text
        raise TranslationError("%s: a test of kind %s" % (who, e.ty))

    def ex(self, n, c):
        who = c.spec[2]
        if isinstance(n, ast.Name):
            if n.id in c.env:
                ty = c.env[n.id]
                return ev(None if ty in BAD else lname(n.id), ty)
            raise TranslationError("%s: name `%s`" % (who, n.id))
        if isinstance(n, ast.Constant):
            if n.value == "default" and c.cls == "StrategyDict":
                return ev(None, "DN")
            if isinstance(n.value, int) and not isinstance(n.value, bool) and n.value >= 0:
                return ev(str(n.value), "N")
            raise TranslationError("%s: constant %r" % (who, n.value))
        if isinstance(n, ast.Tuple):
            xs = [self.ex(x, c) for x in n.elts]
            if len(xs) == 1 and xs[0].ty == "K":
                return ev("[%s]" % xs[0].text, "T", xs[0].lifts)
            return ev(None, ("PAIR", tuple(xs)), any(x.lifts for x in xs))
        if isinstance(n, ast.List) and not n.elts:
            return ev("([] : List K)", "L")
        if isinstance(n, ast.Attribute):
            if self.is_self(n.value) and n.attr == "default" and c.cls == "StrategyDict":
                # instance attribute, else the class-level lambda (never equal to a stored strategy): Option V
                return ev("(dget s.attrs none)", "OV")
            raise TranslationError("%s: attribute `%s`" % (who, ast.unparse(n)))
        if isinstance(n, ast.Subscript):
            return self.ex_subscript(n, c)
        if isinstance(n, ast.Call):
            return self.ex_call(n, c)
        if isinstance(n, ast.Compare):
            return self.ex_compare(n, c)
        if isinstance(n, ast.UnaryOp) and isinstance(n.op, ast.Not):
            x = self.ex(n.operand, c)
            if x.ty == "STATIC":
                return ev("False" if x.text == "True" else "True", "STATIC")
            return ev("(¬ %s)" % self.prop(x, who), "P", x.lifts)
        if isinstance(n, ast.BoolOp):
            xs = [self.ex(x, c.sub()) for x in n.values]
            if any(x.ty == "STATIC" for x in xs):
                raise TranslationError("%s: statically decided operand of and / or" % who)
            sym, unit = ("∧", "false") if isinstance(n.op, ast.And) else ("∨", "true")
            out = xs[-1]
            for x in reversed(xs[:-1]):
                if out.lifts:       # short circuit: the right operand is evaluated only when needed
                    rhs = "(do pure (decide %s))" % self.prop(out, who)
                    first = self.prop(x, who)
                    branch = ("if %s then %s else pure false" if unit == "false" else "if %s then pure true else %s")
                    out = ev("((← (%s)) = true)" % (branch % (first, rhs)), "P", True)
                else:
                    out = ev("(%s %s %s)" % (self.prop(x, who), sym, self.prop(out, who)), "P", x.lifts)
            return out
        if isinstance(n, ast.IfExp):
            t = self.ex(n.test, c)
            if t.ty == "STATIC":
                return self.ex(n.body if t.text == "True" else n.orelse, c)
            a, b = self.ex(n.body, c.sub()), self.ex(n.orelse, c.sub())
            if a.lifts or b.lifts or t.lifts or a.ty != b.ty or a.ty in BAD:
                raise TranslationError("%s: conditional expression `%s`" % (who, src_line(n)))
            return ev("(if %s then %s else %s)" % (self.prop(t, who), a.text, b.text), a.ty)
        if isinstance(n, ast.BinOp) and isinstance(n.op, ast.Add):
            a, b = self.ex(n.left, c), self.ex(n.right, c)
            if a.ty == "T" and b.ty == "T":
                return ev("(%s ++ %s)" % (a.text, b.text), "T", a.lifts or b.lifts)
            if {a.ty, b.ty} == {"T", "BT"}:
                return ev(None, "BT", a.lifts or b.lifts)
            raise TranslationError("%s: `+` of kinds %s, %s" % (who, a.ty, b.ty))
        if isinstance(n, ast.GeneratorExp):
            return self.ex_genexp(n, c)
        raise TranslationError("%s: expression `%s`" % (who, src_line(n)))

    def ex_genexp(self, n, c):
        who = c.spec[2]
        if len(n.generators) != 1 or n.generators[0].is_async or not isinstance(n.generators[0].target, ast.Name):
            raise TranslationError("%s: generator expression `%s`" % (who, src_line(n)))
        g = n.generators[0]
        it = self.ex(g.iter, c)
        if it.ty not in ("T", "L"):
            raise TranslationError("%s: generator over kind %s" % (who, it.ty))
        v = g.target.id
        ci = c.sub()
        ci.env[v] = "K"
        text = it.text
        for cond in g.ifs:
            t = self.ex(cond, ci)
            if t.lifts or t.ty == "STATIC":
                raise TranslationError("%s: raising / static filter in `%s`" % (who, src_line(n)))
            text = "(%s.filter (fun %s => %s))" % (text, lname(v), self.prop(t, who))
        elt = self.ex(n.elt, ci)
        if elt.lifts:
            raise TranslationError("%s: raising element in `%s`" % (who, src_line(n)))
        if not (isinstance(n.elt, ast.Name) and n.elt.id == v):
            if elt.ty != "K":
                raise TranslationError("%s: generator element of kind %s" % (who, elt.ty))
            text = "(%s.map (fun %s => %s))" % (text, lname(v), elt.text)
        return ev(text, "L", it.lifts)

    def ex_subscript(self, n, c):
        who = c.spec[2]
        d = self.self_dict(c, n.value)
        idx = self.ex(n.slice, c)
        if d:
            if self.hashed(idx):
                raise _Reject()
            if idx.ty != d[1]:
                raise TranslationError("%s: `%s` with an index of kind %s" % (who, src_line(n), idx.ty))
            return act("keyErr (dget s.%s %s)" % (d[0], idx.text), d[2])._replace(lifts=True)
        if self.is_self(n.value):                      # self[idx] -> __getitem__
            if self.hashed(idx):
                raise TranslationError("%s: `self[...]` with an unhashable operand" % who)
            cls = self.dynamic(c, "__getitem__")
            if cls is None:
                raise TranslationError("%s: dict.__getitem__ on self" % who)
            if idx.ty == "DN":       # assumption: "default" is never a strategy name, so the lookup raises KeyError
                return act("(Except.error Err.key : Except Err V)", "V")
            dd, _f, call, lifts = self.call_method(c, cls, "__getitem__", [idx], n)
            return act(call, dd["ret"]) if dd["raises"] else ev("(%s)" % call, dd["ret"], lifts)
        raise TranslationError("%s: subscript `%s`" % (who, src_line(n)))

    def ex_call(self, n, c):
        who = c.spec[2]
        f = n.func
        if n.keywords and not (isinstance(f, ast.Attribute) and self.is_self(f.value) and f.attr == "default"):
            raise TranslationError("%s: keyword arguments in `%s`" % (who, src_line(n)))
        if isinstance(f, ast.Name):
            a = n.args
            if f.id == "isinstance" and len(a) == 2 and isinstance(a[1], ast.Name):
                x = self.ex(a[0], c)
                if a[1].id == "tuple" and x.ty in ("K", "T", "BT"):
                    return ev(str(x.ty != "K"), "STATIC")
                if a[1].id == "STR_TYPES" and x.ty == "K" and c.cls == "StrategyDict":
                    return ev("True", "STATIC")        # assumption: strategy names are strings
                raise TranslationError("%s: `%s` on kind %s" % (who, src_line(n), x.ty))
            if f.id == "len" and len(a) == 1:
                x = self.ex(a[0], c)
                if x.ty in ("T", "L"):
                    return ev("%s.length" % x.text, "N", x.lifts)
            if f.id == "reversed" and len(a) == 1:
                x = self.ex(a[0], c)
                if x.ty in ("T", "L"):
                    return ev("%s.reverse" % x.text, "L", x.lifts)
            if f.id == "tuple" and len(a) == 0:
                return ev("([] : List K)", "T")
            if f.id == "tuple" and len(a) == 1:
                x = self.ex(a[0], c)
                if x.ty in ("T", "L"):
                    return ev(x.text, "T", x.lifts)
            if f.id == "iter" and len(a) == 1 and self.self_dict(c, a[0]):
                d = self.self_dict(c, a[0])
                if d[1] == "V":
                    return ev("(s.%s.map (·.1))" % d[0], "LV")
            if f.id == "itervalues" and len(a) == 1 and self.is_self(a[0]) and self.resolve(c.cls, "values") is None:
                return ev("(%s.store.map (·.2))" % self.st_of(c, "MultiKeyDict")[0], "LV")
            if f.id == "hasattr" and len(a) == 2 and self.is_self(a[0]) and c.cls == "StrategyDict":
                x = self.ex(a[1], c)
                if x.ty == "K":
                    return ev("(dhas s.attrs %s = true)" % self.attr_name(x, who), "P", x.lifts)
            if f.id == "getattr" and len(a) == 2 and self.is_self(a[0]) and c.cls == "StrategyDict":
                if self.resolve(c.cls, "__getattr__") or self.resolve(c.cls, "__getattribute__"):
                    raise TranslationError("%s: the class defines __getattr__" % who)
                x = self.ex(a[1], c)
                if x.ty == "K":
                    return act("attrErr (dget s.attrs %s)" % self.attr_name(x, who), "V")
                if x.ty == "DN":
                    return ev("(dget s.attrs none)", "OV")
            raise TranslationError("%s: call `%s`" % (who, src_line(n)))
        if isinstance(f, ast.Attribute):
            args = [self.ex(a, c) for a in n.args if not isinstance(a, ast.Starred)]
            sup = self.is_super(f.value)
            if sup:
                cls = self.resolve(sup, f.attr, after=True)
                if sup != c.cls:
                    raise TranslationError("%s: super(%s, self) inside %s" % (who, sup, c.cls))
                if cls is None and c.cls == "MultiKeyDict" and f.attr == "__getitem__" and len(args) == 1:
                    if self.hashed(args[0]):
                        raise _Reject()
                    if args[0].ty == "T":
                        return act("keyErr (dget s.store %s)" % args[0].text, "V")
                if cls is not None:
                    return self.method_value(c, cls, f.attr, args, n)
                raise TranslationError("%s: call `%s`" % (who, src_line(n)))
            if self.is_self(f.value):
                if f.attr == "default" and c.cls == "StrategyDict":
                    ok = (c.star and len(n.args) == 1 and isinstance(n.args[0], ast.Starred)
                          and isinstance(n.args[0].value, ast.Name) and n.args[0].value.id == c.star[0]
                          and len(n.keywords) == 1 and n.keywords[0].arg is None
                          and isinstance(n.keywords[0].value, ast.Name) and n.keywords[0].value.id == c.star[1])
                    if not ok:
                        raise TranslationError("%s: `%s` does not pass the caller's arguments on unchanged" % (who, src_line(n)))
                    # what the call returns is the strategy's business; the model keeps WHICH strategy is called
                    return ev("(dget s.attrs none)", "OV")
                cls = self.dynamic(c, f.attr)
                if cls is not None:
                    return self.method_value(c, cls, f.attr, args, n)
                raise TranslationError("%s: call `%s`" % (who, src_line(n)))
            d = self.self_dict(c, f.value)
            if d and f.attr == "get" and len(n.args) == 2:
                if self.hashed(args[0]):
                    raise _Reject()
                if args[0].ty == d[1] and args[1].ty == d[2] and not args[1].lifts:
                    return ev("((dget s.%s %s).getD %s)" % (d[0], args[0].text, args[1].text), d[2], args[0].lifts)
        raise TranslationError("%s: call `%s`" % (who, src_line(n)))

    def method_value(self, c, cls, meth, args, n):
        dd, _f, call, lifts = self.call_method(c, cls, meth, args, n)
        if dd["mutates"]:
            raise TranslationError("%s: the mutating method %s.%s used as a value" % (c.spec[2], cls, meth))
        return act(call, dd["ret"]) if dd["raises"] else ev("(%s)" % call, dd["ret"], lifts)

    def ex_compare(self, n, c):
        who = c.spec[2]
        if len(n.ops) != 1:
            raise TranslationError("%s: chained comparison `%s`" % (who, src_line(n)))
        op, rn = n.ops[0], n.comparators[0]
        a = self.ex(n.left, c)
        if isinstance(op, (ast.In, ast.NotIn)):
            neg = isinstance(op, ast.NotIn)
            d = self.self_dict(c, rn)
            if d:
                if self.hashed(a):
                    raise _Reject()
                if a.ty != d[1]:
                    raise TranslationError("%s: `%s` with a key of kind %s" % (who, src_line(n), a.ty))
                text = "(dhas s.%s %s = true)" % (d[0], a.text)
            elif (isinstance(rn, ast.Call) and isinstance(rn.func, ast.Name) and rn.func.id == "vars"
                  and len(rn.args) == 1 and self.is_self(rn.args[0]) and c.cls == "StrategyDict"):
                text = "(dhas s.attrs %s = true)" % self.attr_name(a, who)
            else:
                b = self.ex(rn, c)
                if b.ty not in ("T", "L") or a.ty != "K" or b.lifts:
                    raise TranslationError("%s: membership `%s`" % (who, src_line(n)))
                text = "(%s ∈ %s)" % (a.text, b.text)          # `==` on the items, nothing is hashed
            return ev("(¬ %s)" % text if neg else text, "P", a.lifts)
        b = self.ex(rn, c)
        lifts = a.lifts or b.lifts
        if isinstance(op, (ast.Eq, ast.NotEq)):
            if a.ty == b.ty and a.ty in ("K", "V", "N", "T"):
                text = "(%s = %s)" % (a.text, b.text)
            elif (a.ty, b.ty) == ("V", "OV"):
                text = "(%s = some %s)" % (b.text, a.text)
            elif (a.ty, b.ty) == ("OV", "V"):
                text = "(%s = some %s)" % (a.text, b.text)
            else:
                raise TranslationError("%s: `%s` between kinds %s, %s" % (who, src_line(n), a.ty, b.ty))
            return ev("(¬ %s)" % text if isinstance(op, ast.NotEq) else text, "P", lifts)
        sym = {ast.Gt: ">", ast.GtE: "≥", ast.Lt: "<", ast.LtE: "≤"}.get(type(op))
        if sym and a.ty == "N" and b.ty == "N":
            return ev("(%s %s %s)" % (a.text, sym, b.text), "P", lifts)
        raise TranslationError("%s: comparison `%s`" % (who, src_line(n)))

    # ---------------------------------------------------------------- statements
    def set_state(self, c, blk, field, value, raising):
        st = "s" if field is None else None
        if field is None:
            line = "let s %s %s" % ("←" if raising == "action" else ":=", value)
        else:
            line = "let s := { s with %s := %s }" % (field, value)
        blk.lines.append(line)
        if raising:
            blk.raises = True
        blk.write("$s")

    def bind(self, c, blk, name, e):
        """`name = e`"""
        if e.ty in BAD:
            c.env[name] = e.ty
            return
        if e.ty == "STATIC" or isinstance(e.ty, tuple) or e.ty == "DN":
            raise TranslationError("%s: assignment of a value of kind %s" % (c.spec[2], e.ty))
        if name in c.env and c.env[name] != e.ty and not {c.env[name], e.ty} <= {"T", "L"}:
            raise TranslationError("%s: `%s` changes its kind from %s to %s" % (c.spec[2], name, c.env[name], e.ty))
        text, ty = e.text, e.ty
        if ty == "P":
            text, ty = "decide %s" % text, "B"
        if e.action is not None:
            blk.lines.append("let %s ← %s" % (lname(name), e.action))
        else:
            blk.lines.append("let %s := %s" % (lname(name), text))
        blk.raises = blk.raises or e.lifts
        if name in c.env:
            blk.write(name)
        c.env[name] = ty

    def nested(self, text_lines, res, raises):
        """a translated block as ONE term: `(do … pure res)` / `(… res)`"""
        if not text_lines:
            return "pure %s" % res if raises else res
        body = ["    " + l.replace("\n", "\n    ") for l in text_lines]
        if raises:
            return "(do\n%s\n    pure %s)" % ("\n".join(body), res)
        return "(\n%s\n    %s)" % ("\n".join(body), res)

    def indent(self, text, k):
        return text.replace("\n", "\n" + " " * k)

    def rebinds(self, c, blks, what, node):
        ws = []
        for b in blks:
            for w in b.written:
                if w not in ws:
                    ws.append(w)
            if b.ret is not None:
                raise TranslationError("%s: `return` inside `%s`" % (c.spec[2], what))
        if len(ws) > 1:
            raise TranslationError("%s: `%s` changes more than one variable (%s): `%s`"
                                   % (c.spec[2], what, ", ".join(ws), src_line(node)))
        return ws

    def block(self, stmts, c):
        blk = Block()
        mutated = False
        for i, n in enumerate(stmts):
            if blk.ret is not None:
                break                                   # dead code after a `return` that is always taken
            if i == 0 and isinstance(n, ast.Expr) and isinstance(n.value, ast.Constant) and isinstance(n.value.value, str):
                continue                                # docstring
            before = (len(blk.lines), blk.raises)
            blk.lines.append("-- " + src_line(n))
            r0 = blk.raises
            blk.raises = False
            self.stmt(n, c, blk)
            if c.in_try and mutated and blk.raises:
                raise TranslationError("%s: inside `try`, `%s` can raise after the state was changed"
                                       % (c.spec[2], src_line(n)))
            mutated = mutated or "$s" in blk.written
            blk.raises = blk.raises or r0
        return blk

    def stmt(self, n, c, blk):
        who = c.spec[2]
        if isinstance(n, ast.Pass):
            return
        if isinstance(n, ast.Return):
            if n.value is None:
                raise TranslationError("%s: bare return" % who)
            e = self.ex(n.value, c)
            if e.ty in BAD or e.ty in ("STATIC", "DN", "P") or isinstance(e.ty, tuple):
                raise TranslationError("%s: return of kind %s" % (who, e.ty))
            blk.ret = e
            blk.raises = blk.raises or e.lifts
            return
        if isinstance(n, ast.Assign) and len(n.targets) == 1:
            t = n.targets[0]
            if isinstance(t, ast.Name):
                if t.id == "self":
                    raise TranslationError("%s: assignment to self" % who)
                return self.bind(c, blk, t.id, self.ex(n.value, c))
            v = self.ex(n.value, c)
            if isinstance(t, ast.Subscript):
                d = self.self_dict(c, t.value)
                k = self.ex(t.slice, c)
                if d:
                    if self.hashed(k):
                        raise _Reject()
                    if (k.ty, v.ty) != (d[1], d[2]):
                        raise TranslationError("%s: `%s` with kinds %s, %s" % (who, src_line(n), k.ty, v.ty))
                    blk.raises = blk.raises or k.lifts or v.lifts
                    return self.set_state(c, blk, d[0], "dset s.%s %s %s" % (d[0], k.text, v.text), False)
            if isinstance(t, ast.Attribute) and self.is_self(t.value) and t.attr == "default" and c.cls == "StrategyDict":
                if self.resolve(c.cls, "__setattr__"):
                    raise TranslationError("%s: the class defines __setattr__" % who)
                if v.ty == "V":
                    blk.raises = blk.raises or v.lifts
                    return self.set_state(c, blk, "attrs", "dset s.attrs none %s" % v.text, False)
            raise TranslationError("%s: assignment `%s`" % (who, src_line(n)))
        if isinstance(n, ast.Delete) and len(n.targets) == 1 and isinstance(n.targets[0], ast.Subscript):
            t = n.targets[0]
            k = self.ex(t.slice, c)
            d = self.self_dict(c, t.value)
            if d:
                if self.hashed(k):
                    raise _Reject()
                if k.ty != d[1]:
                    raise TranslationError("%s: `%s` with a key of kind %s" % (who, src_line(n), k.ty))
                return self.set_state(c, blk, d[0], "(← keyErr (ddel s.%s %s))" % (d[0], k.text), True)
            if self.is_self(t.value):
                cls = self.dynamic(c, "__delitem__")
                if cls is None:
                    raise TranslationError("%s: dict.__delitem__ on self" % who)
                if k.ty == "DN":
                    return self.set_state(c, blk, None, "(Except.error Err.key : Except Err (SD K V))", "action")
                return self.method_stmt(c, blk, cls, "__delitem__", [k], n)
            raise TranslationError("%s: `%s`" % (who, src_line(n)))
        if isinstance(n, ast.Expr) and isinstance(n.value, ast.Call):
            return self.call_stmt(n.value, c, blk)
        if isinstance(n, ast.If):
            return self.if_stmt(n, c, blk)
        if isinstance(n, ast.For):
            return self.for_stmt(n, c, blk)
        if isinstance(n, ast.Try):
            return self.try_stmt(n, c, blk)
        if isinstance(n, ast.Raise):
            raise TranslationError("%s: reachable `%s`" % (who, src_line(n)))
        raise TranslationError("%s: statement `%s`" % (who, src_line(n)))

    def method_stmt(self, c, blk, cls, meth, args, n):
        dd, field, call, lifts = self.call_method(c, cls, meth, args, n)
        if not dd["mutates"]:
            raise TranslationError("%s: value of `%s` thrown away" % (c.spec[2], src_line(n)))
        blk.raises = blk.raises or lifts
        if dd["raises"]:
            if field is None:
                return self.set_state(c, blk, None, call, "action")
            return self.set_state(c, blk, field, "(← %s)" % call, True)
        return self.set_state(c, blk, field, call if field else "(%s)" % call, False)

    def call_stmt(self, n, c, blk):
        who = c.spec[2]
        f = n.func
        if n.keywords:
            raise TranslationError("%s: keyword arguments in `%s`" % (who, src_line(n)))
        args = [ev("s", "SELF") if self.is_self(a) else self.ex(a, c) for a in n.args]
        lifts = any(a.lifts for a in args)
        if isinstance(f, ast.Name) and f.id == "hash" and len(args) == 1:
            if self.hashed(args[0]):
                raise _Reject()
            blk.raises = blk.raises or lifts
            return                                       # hashable operands: no effect
        if isinstance(f, ast.Name) and f.id == "setattr" and len(args) == 3 and self.is_self(n.args[0]) \
                and c.cls == "StrategyDict" and args[2].ty == "V":
            if self.resolve(c.cls, "__setattr__"):
                raise TranslationError("%s: the class defines __setattr__" % who)
            blk.raises = blk.raises or lifts
            return self.set_state(c, blk, "attrs", "dset s.attrs %s %s" % (self.attr_name(args[1], who), args[2].text), False)
        if isinstance(f, ast.Attribute):
            if isinstance(f.value, ast.Name) and f.attr == "append" and c.env.get(f.value.id) == "L" and len(args) == 1 \
                    and args[0].ty == "K":
                return self.bind(c, blk, f.value.id, ev("(%s ++ [%s])" % (lname(f.value.id), args[0].text), "L", lifts))
            sup = self.is_super(f.value)
            if sup:
                if sup != c.cls:
                    raise TranslationError("%s: super(%s, self) inside %s" % (who, sup, c.cls))
                cls = self.resolve(sup, f.attr, after=True)
                if cls is not None:
                    return self.method_stmt(c, blk, cls, f.attr, args, n)
                blk.raises = blk.raises or lifts
                if c.cls == "MultiKeyDict":            # dict primitives on the key-tuple storage
                    if any(self.hashed(a) for a in args):
                        raise _Reject()
                    kinds = [a.ty for a in args]
                    if f.attr == "__setitem__" and kinds == ["T", "V"]:
                        return self.set_state(c, blk, "store", "dset s.store %s %s" % (args[0].text, args[1].text), False)
                    if f.attr == "__delitem__" and kinds == ["T"]:
                        return self.set_state(c, blk, "store", "(← keyErr (ddel s.store %s))" % args[0].text, True)
                    if f.attr == "__init__" and not args:
                        return
                if f.attr == "__delattr__" and len(args) == 1:     # object.__delattr__
                    return self.set_state(c, blk, "attrs", "(← attrErr (ddel s.attrs %s))" % self.attr_name(args[0], who), True)
                raise TranslationError("%s: call `%s`" % (who, src_line(n)))
            if isinstance(f.value, ast.Name) and f.value.id in MRO and n.args and self.is_self(n.args[0]):
                if MRO.index(f.value.id) < MRO.index(c.cls) or (f.value.id, f.attr) not in self.methods:
                    raise TranslationError("%s: call `%s`" % (who, src_line(n)))
                return self.method_stmt(c, blk, f.value.id, f.attr, args[1:], n)     # C.m(self, ...): no dispatch
            if self.is_self(f.value):
                cls = self.dynamic(c, f.attr)
                if cls is not None:
                    return self.method_stmt(c, blk, cls, f.attr, args, n)
        raise TranslationError("%s: call `%s`" % (who, src_line(n)))

    def if_stmt(self, n, c, blk):
        who = c.spec[2]
        t = self.ex(n.test, c)
        if t.ty == "STATIC":
            blk.lines.append("--   (decided by the kind of the operand: %s)" % t.text)
            live = n.body if t.text == "True" else n.orelse
            inner = self.block(live, c)          # same scope
            blk.lines += inner.lines
            blk.raises = blk.raises or inner.raises
            for w in inner.written:
                blk.write(w)
            blk.ret = inner.ret
            return
        ca, cb = c.sub(), c.sub()
        a, b = self.block(n.body, ca), self.block(n.orelse, cb)
        ws = self.rebinds(c, [a, b], "if", n)
        cond = self.prop(t, who)
        if not ws:
            if a.raises or b.raises:
                raise TranslationError("%s: `if` that only raises: `%s`" % (who, src_line(n)))
            blk.raises = blk.raises or t.lifts
            return
        w = ws[0]
        if w != "$s" and ca.env.get(w) != cb.env.get(w) and not {ca.env.get(w), cb.env.get(w)} <= {"T", "L"}:
            raise TranslationError("%s: `%s` has different kinds after the branches" % (who, w))
        if w != "$s":
            c.env[w] = ca.env[w]
        raises = a.raises or b.raises
        lw = lname(w)
        text = "(if %s then %s else %s)" % (cond, self.nested(a.lines, lw, raises), self.nested(b.lines, lw, raises))
        blk.lines.append("let %s %s %s" % (lw, "←" if raises else ":=", text))
        blk.raises = blk.raises or raises or t.lifts
        blk.write(w)

    def for_stmt(self, n, c, blk):
        who = c.spec[2]
        if n.orelse or not isinstance(n.target, ast.Name):
            raise TranslationError("%s: loop `%s`" % (who, src_line(n)))
        it = self.ex(n.iter, c)
        if it.ty not in ("T", "L"):
            raise TranslationError("%s: loop over kind %s: `%s`" % (who, it.ty, src_line(n)))
        ci = c.sub()
        if n.target.id in c.env:
            raise TranslationError("%s: loop variable `%s` shadows a variable" % (who, n.target.id))
        ci.env[n.target.id] = "K"
        body = self.block(n.body, ci)
        ws = self.rebinds(c, [body], "for", n)
        if not ws:
            if body.raises:
                raise TranslationError("%s: loop that only raises: `%s`" % (who, src_line(n)))
            blk.lines.append("--   (no effect for operands of these kinds)")
            blk.raises = blk.raises or it.lifts
            return
        w = ws[0]
        if w != "$s" and ci.env.get(w) != c.env.get(w):
            raise TranslationError("%s: `%s` changes its kind inside the loop" % (who, w))
        lw, lv = lname(w), lname(n.target.id)
        inner = self.nested(body.lines, lw, body.raises)
        if body.raises:
            blk.lines.append("let %s ← %s.foldlM (fun %s %s => %s) %s" % (lw, it.text, lw, lv, inner, lw))
        else:
            blk.lines.append("let %s := %s.foldl (fun %s %s => %s) %s" % (lw, it.text, lw, lv, inner, lw))
        blk.raises = blk.raises or body.raises or it.lifts
        blk.write(w)

    def try_stmt(self, n, c, blk):
        who = c.spec[2]
        if n.finalbody or n.orelse or len(n.handlers) != 1:
            raise TranslationError("%s: `try` with else / finally / several handlers" % who)
        h = n.handlers[0]
        if not (isinstance(h.type, ast.Name) and h.type.id == "KeyError" and h.name is None):
            raise TranslationError("%s: handler `except %s`" % (who, ast.unparse(h.type) if h.type else ""))
        ca, cb = c.sub(in_try=True), c.sub()
        a, b = self.block(n.body, ca), self.block(h.body, cb)
        ws = self.rebinds(c, [a, b], "try", n)
        if not a.raises:
            raise TranslationError("%s: `try` around statements that cannot raise" % who)
        if ws != ["$s"]:
            raise TranslationError("%s: `try` that rebinds %s" % (who, ws))
        blk.lines.append("let s ← tryKey %s %s" % (self.nested(a.lines, "s", True),
                                                   self.nested(b.lines, "s", True)))
        blk.raises = True
        blk.write("$s")

    # ---------------------------------------------------------------- functions
    def function(self, spec):
        cls, meth, name, kinds = spec
        fn = self.methods.get((cls, meth))
        if fn is None:
            raise TranslationError("%s.%s not found" % (cls, meth))
        a = fn.args
        if a.kwonlyargs or getattr(a, "posonlyargs", None) or a.defaults or not a.args or a.args[0].arg != "self":
            raise TranslationError("%s.%s: signature" % (cls, meth))
        star = None
        if a.vararg or a.kwarg:
            if not (a.vararg and a.kwarg and len(a.args) == 1):
                raise TranslationError("%s.%s: signature" % (cls, meth))
            star = (a.vararg.arg, a.kwarg.arg)
        if fn.decorator_list:
            raise TranslationError("%s.%s: decorators" % (cls, meth))
        params = [x.arg for x in a.args[1:]]
        if len(params) != len(kinds):
            raise TranslationError("%s.%s: %d parameters, %d expected" % (cls, meth, len(params), len(kinds)))
        c = Ctx(cls, spec, dict(zip(params, kinds)), star=star)
        state_ty = "St K V" if cls == "MultiKeyDict" else "SD K V"
        sig = "(s : %s)" % state_ty + "".join(" (%s : %s)" % (lname(p), LEAN_TY[k]) for p, k in zip(params, kinds)
                                             if k in LEAN_TY)
        bad = [k for k in kinds if k in BAD]
        head = "/-- `%s.%s`%s -/" % (cls, meth, "".join(
            ", `%s` %s" % (p, {"K": "a key", "T": "a key tuple", "V": "a (hashable) value", "DN": "= \"default\"",
                               "BT": "a key tuple holding an UNHASHABLE item", "BV": "an UNHASHABLE value"}[k])
            for p, k in zip(params, kinds)))
        if bad:
            blk = Block()
            rejected = False
            try:
                for i, n in enumerate(fn.body):
                    if i == 0 and isinstance(n, ast.Expr) and isinstance(n.value, ast.Constant):
                        continue
                    blk.lines.append("-- " + src_line(n))
                    self.stmt(n, c, blk)
                    if blk.ret is not None:
                        break
            except _Reject:
                if c.depth != 0:
                    raise TranslationError("%s: rejection inside a nested block" % name)
                rejected = True
            if not rejected:
                raise TranslationError("%s: no statement of %s.%s hashes the unhashable operand" % (name, cls, meth))
            if blk.raises:
                raise TranslationError("%s: a statement in front of the rejecting one can raise" % name)
            blk.lines.append("--   ^ hashes the operand: raises, with the state as it is now")
            text = "%s\ndef %s %s : %s × Res K V :=\n%s\n  (s, Res.rejected)\n" % (
                head, name, sig, state_ty, "\n".join("  " + self.indent(l, 2) for l in blk.lines))
            self.done[name] = dict(cls=cls, meth=meth, kinds=tuple(kinds), ret=None, raises=False, mutates=False, bad=True)
            return text
        try:
            blk = self.block(fn.body, c)
        except _Reject:
            raise TranslationError("%s: internal (rejection outside the bad-operand mode)" % name)
        mutates = "$s" in blk.written
        if blk.ret is not None and mutates:
            raise TranslationError("%s: a method that changes the dict and returns a value" % name)
        if blk.ret is None and not mutates:
            raise TranslationError("%s: no effect and no value" % name)
        if blk.ret is not None:
            res, rty = blk.ret.text, LEAN_TY[blk.ret.ty]
            ret = blk.ret.ty
        else:
            res, rty, ret = "s", state_ty, None
        lines = "\n".join("  " + self.indent(l, 2) for l in blk.lines)
        if blk.raises:
            last = ("  %s" % blk.ret.action) if (blk.ret is not None and blk.ret.action is not None) else "  pure %s" % res
            text = "%s\ndef %s %s : Except Err (%s) := do\n%s\n%s\n" % (head, name, sig, rty, lines, last)
        else:
            text = "%s\ndef %s %s : %s :=\n%s\n  %s\n" % (head, name, sig, rty, lines, res)
        self.done[name] = dict(cls=cls, meth=meth, kinds=tuple(kinds), ret=ret, raises=blk.raises, mutates=mutates, bad=False)
        return text

    def translate(self):
        out = ["/-",
               "  GENERATED by harness/props/c15_tr.py from audiolazy/lazy_core.py (classes MultiKeyDict, StrategyDict) — do not edit.",
               "  Each definition is the body of one method, statement by statement in source order (the Python statement is",
               "  quoted above its translation); vocabulary: ALV/Model/C15.lean (dget / dhas / dset / ddel, St, SD) and",
               "  ALV/Model/C15Src.lean (keyErr / attrErr / tryKey).  `ALV.Props.C15.src_*_is_model` prove that these ARE the",
               "  functions of the hand-written model.",
               "-/",
               "import ALV.Model.C15Src",
               "",
               "set_option linter.unusedVariables false",
               "",
               "namespace ALV.Gen.C15",
               "open ALV.C15",
               "variable {K V : Type} [DecidableEq K] [DecidableEq V]",
               ""]
        for spec in SPECS:
            out.append(self.function(spec))
        out.append("/-- the translated functions: (generated name, class, method, parameter kinds) -/")
        out.append("def translated : List (String × String × String × List String) := [\n%s]\n" % ",\n".join(
            '  ("%s", "%s", "%s", [%s])' % (s[2], s[0], s[1], ", ".join('"%s"' % k for k in s[3])) for s in SPECS))
        out.append("end ALV.Gen.C15")
        return "\n".join(out) + "\n"


def read_source():
    with open(os.path.join(common.REPO, SRC_REL)) as f:
        return f.read()


def translate(text):
    return Translator(text).translate()


def regenerate(eng=None):
    """Rewrite lean/ALV/Gen/C15Src.lean from the repo under test.  On a translation failure the last COMMITTED file is put
    back (so that the build speaks about the last translatable state) and the error propagates (= broken obligation)."""
    path = os.path.join(common.LEAN, GEN_REL)
    try:
        text = translate(read_source())
    except Exception:
        try:
            import subprocess
            good = subprocess.run(["git", "-C", common.VERIF, "show", "HEAD:lean/" + GEN_REL.replace(os.sep, "/")],
                                  capture_output=True, text=True, timeout=30)
            if good.returncode == 0 and good.stdout and (not os.path.exists(path) or open(path).read() != good.stdout):
                with open(path, "w") as f:
                    f.write(good.stdout)
        except Exception:
            pass
        raise
    old = open(path).read() if os.path.exists(path) else None
    if old != text:
        os.makedirs(os.path.dirname(path), exist_ok=True)
        with open(path, "w") as f:
            f.write(text)
        return "rewritten (%d bytes)" % len(text)
    return "unchanged (%d bytes)" % len(text)


if __name__ == "__main__":
    print(translate(read_source()))
