"""C20 — the CALL LAYER stream of the tie: every tool x every call shape (each parameter positional / keyword /
omitted, the input by keyword), parameter spellings (Fraction / int / float / bool / None / inf), input kinds (list / tuple /
generator / iterator / Stream / thub / endless with a capped read), every strategy of every StrategyDict through its
names, its aliases, attribute and item access, and the dictionary's default call.

The driver entries `<tool>_call` run the Lean `...Call` models (`ALV/Model/C20Call.lean`): a parameter that the case does
not pass is ABSENT from the request, and the model fills it in from the documented defaults table.  So a call that omits
a parameter is compared with the documented default of exactly that parameter, whatever the other parameters are."""
import itertools
import math
from fractions import Fraction as F

import common
from common import err_kind

INF = float("inf")
PI = math.pi

# tool -> (name of the input parameter, [parameters after it, in signature order])
PARAMS = {
    "unwrap": ("sig", ["max_delta", "step"]),
    "zcross": ("seq", ["hysteresis", "first_sign"]),
    "clip": ("sig", ["low", "high"]),
    "envelope": ("sig", ["cutoff"]),
}
STRATS = {
    "maverage": [None, "deque", "recursive", "feedback", "fir"],
    "accumulate": [None, "accumulate", "itertools", "func", "pure_python", "z"],
    "envelope": [None, "rms", "abs", "squared"],
}
INPUTS = ["list", "tuple", "deque", "gen", "iter", "Stream", "thub", "endless"]
REUSE = ["fresh", "fresh", "fresh", "second", "interleaved"]
DECOY = [F(5), F(-7, 2), F(9), F(1, 4), F(-6), F(2), F(8), F(-1, 2), F(3)]


# ----------------------------------------------------------------------------------------------
# numbers
# ----------------------------------------------------------------------------------------------
def _enc(x):
    return common.enc(x)


def _dec(j):
    return common.dec(j)


def _is_dy(v):
    v = F(v)
    return v.denominator & (v.denominator - 1) == 0


def spell(j, how):
    """encoded value -> the Python object handed to the real function"""
    if j == "None":
        return None
    if j in ("inf", "-inf"):
        return float(j)
    v = _dec(j)
    if how == "int":
        return int(v)
    if how == "bool":
        return bool(v)
    if how == "float":
        return float(v)
    return v


def spellings(v, allow_float=True):
    """spellings under which the value stays exactly the same number"""
    out = ["frac"]
    if v.denominator == 1:
        out.append("int")
        if v in (0, 1):
            out.append("bool")
    if allow_float and _is_dy(v):
        out.append("float")
    return out


# ----------------------------------------------------------------------------------------------
# generation
# ----------------------------------------------------------------------------------------------
def shapes(n):
    """all ways of passing n optional parameters (signature order): each 'pos' / 'kw' / 'omit'; a positional one needs
    every earlier one positional"""
    out = []
    for k in range(n + 1):                      # k leading positionals
        for rest in itertools.product(("kw", "omit"), repeat=n - k):
            out.append(("pos",) * k + rest)
    return out


def _fr(rng):
    return F(rng.randint(-30, 30), rng.randint(1, 12))


def _dy(rng):
    return F(rng.randint(-40, 40), 2 ** rng.choice([0, 0, 1, 2, 3]))


def _xs(rng, dyadic, n=None):
    n = rng.choice([0, 1, 2, 3, 5, 8, 13]) if n is None else n
    g = _dy if dyadic else _fr
    return [g(rng) for _ in range(n)]


def _pick_input(rng, xs):
    k = rng.choice(INPUTS)
    if k == "endless" and not xs:
        k = "gen"
    return k


def _finish(rng, c, vals, allow_float=True, allow_none=(), allow_inf=None):
    """vals: {param: Fraction} in signature order of the tool; chooses a call shape and the spellings"""
    names = list(vals)
    sh = rng.choice(shapes(len(names)))
    c["shape"], c["spell"] = {}, {}
    for nme, how in zip(names, sh):
        if how == "omit":
            continue
        c["shape"][nme] = how
        v = vals[nme]
        r = rng.random()
        if nme in allow_none and r < 0.12:
            c[nme] = "None"
        elif allow_inf and nme in allow_inf and r < 0.2:
            c[nme] = rng.choice(allow_inf[nme])
        else:
            c[nme] = _enc(v)
            c["spell"][nme] = rng.choice(spellings(v, allow_float))
    c["sigkw"] = (not any(h == "pos" for h in c["shape"].values())) and rng.random() < 0.15
    c["input"] = _pick_input(rng, c["xs"])
    if c["input"] == "endless":
        c["take"] = len(c["xs"]) + rng.randint(0, len(c["xs"]) + 2)
    c["reuse"] = rng.choice(REUSE)
    # how the samples are spelled: Fraction (default), int, binary float (only when every number is dyadic: exact)
    nums = [_dec(j) for j in c["xs"]] + [v for v in vals.values()]
    r = rng.random()
    if r < 0.2 and c["xs"] and all(v.denominator == 1 for v in nums[:len(c["xs"])]):
        c["xs_how"] = "int"
    elif r < 0.45 and allow_float and all(_is_dy(v) for v in nums):
        c["xs_how"] = "float"
    return c


def gen_unwrap_call(rng, tier):
    mode = rng.random()
    if mode < 0.12:
        return gen_unwrap_float(rng)
    # steps below and above 2*pi, thresholds below and above pi; jumps on both sides of pi, of step/2, of max_delta
    step = rng.choice([F(1), F(2), F(3), F(1, 2), F(3, 2), F(5), F(6), F(7), F(13, 2), F(10), F(360), abs(_fr(rng)) + F(1, 12)])
    md = rng.choice([step / 2, step / 3, step, F(3), F(7, 2), F(1), F(0), F(22, 7), _fr(rng)])
    dyadic = rng.random() < 0.5
    n = rng.choice([0, 1, 2, 3, 5, 8, 13])
    cur, xs = (_dy(rng) if dyadic else _fr(rng)), []
    marks = [F(3), F(13, 4), F(25, 8), F(7, 2), step / 2, step / 2 + F(1, 8), md, md + F(1, 16), step, F(6), F(13, 2)]
    for _ in range(n):
        xs.append(cur)
        r = rng.random()
        if r < 0.55:
            d = rng.choice(marks) * rng.choice([1, -1])
        elif r < 0.75:
            d = rng.randint(-3, 3) * step + rng.choice([F(0), F(1, 8), -F(1, 8), step / 2])
        else:
            d = _dy(rng) / 4
        cur += d if dyadic or r >= 0.75 else d + F(1, 3)
    c = {"entry": "unwrap_call", "xs": [_enc(x) for x in xs]}
    dy = all(_is_dy(x) for x in xs) and _is_dy(step) and _is_dy(md)
    return _finish(rng, c, {"max_delta": md, "step": step}, allow_float=dy,
                   allow_none=("max_delta", "step"), allow_inf={"max_delta": ["inf"]})


def gen_unwrap_float(rng):
    """binary floats right at the default threshold pi (Float twin of the model)"""
    near = [PI, math.nextafter(PI, 4), math.nextafter(PI, 0), -PI, -math.nextafter(PI, 4), 2 * PI, PI / 2,
            math.nextafter(2 * PI, 7), 3.0, 3.25, -3.5, 0.5]
    xs, cur = [], rng.choice([0.0, 0.0, 0.5, -1.0])
    for _ in range(rng.choice([2, 3, 4, 6])):
        xs.append(cur)
        cur = cur + rng.choice(near) if rng.random() < 0.7 else rng.choice([0.0, 1.0, -2.0])
    c = {"entry": "unwrap_call", "float_twin": True, "xs": [_enc(x) for x in xs], "shape": {}, "spell": {}, "sigkw": False,
         "input": rng.choice(["list", "gen", "Stream"])}
    which = rng.choice(["none", "step", "md", "both"])
    if which in ("step", "both"):
        c["step"] = _enc(rng.choice([1.0, 0.5, 2.0, 4.0, 8.0]))
        c["shape"]["step"], c["spell"]["step"] = "kw", "float"
    if which in ("md", "both"):
        c["max_delta"] = _enc(rng.choice([PI, 3.0, 1.0, math.nextafter(PI, 0)]))
        c["shape"]["max_delta"], c["spell"]["max_delta"] = rng.choice(["kw", "pos"]), "float"
    return c


def gen_zcross_call(rng, tier):
    h = rng.choice([F(0), F(0), F(1), F(1, 2), F(3, 2), F(2), abs(_fr(rng))])
    fs = rng.choice([F(0), F(1), F(-1), F(5, 2), F(-1, 3), F(1, 4), F(-3)])
    eps = rng.choice([F(1, 8), F(1), F(1, 100)])
    # also the thresholds of the DEFAULT hysteresis (0) for the calls that omit it
    pool = [F(0), h, -h, h + eps, -h - eps, h - eps, -h + eps, 2 * h + 1, -2 * h - 1, eps, -eps, F(0), eps / 2, -eps / 2]
    xs = [rng.choice(pool) for _ in range(rng.choice([0, 1, 2, 3, 5, 8, 13]))]
    c = {"entry": "zcross_call", "xs": [_enc(x) for x in xs]}
    return _finish(rng, c, {"hysteresis": h, "first_sign": fs}, allow_none=("hysteresis", "first_sign"),
                   allow_inf={"hysteresis": ["inf"], "first_sign": ["inf", "-inf"]})


def gen_clip_call(rng, tier):
    a, b = sorted([_fr(rng), _fr(rng)])
    if rng.random() < 0.4:          # limits on both sides of the defaults -1 / 1 (a given limit against the other's default)
        a, b = rng.choice([(F(-3), F(-2)), (F(2), F(3)), (F(-1), F(1)), (F(-1, 2), F(1, 2)), (F(-2), F(2)), (F(1), F(1)),
                           (F(-1), F(-1)), (F(3, 2), F(5, 2)), (F(-5, 2), F(-3, 2))])
    if rng.random() < 0.08:
        a, b = b + 1, a
    xs = _xs(rng, rng.random() < 0.5)
    for v in (a, b, F(-1), F(1)):
        if xs and rng.random() < 0.5:
            xs[rng.randrange(len(xs))] = v + rng.choice([F(0), F(1, 7), -F(1, 7)])
    c = {"entry": "clip_call", "xs": [_enc(x) for x in xs]}
    return _finish(rng, c, {"low": a, "high": b}, allow_none=("low", "high"), allow_inf={"low": ["-inf"], "high": ["inf"]})


def _strategy(rng, c, dict_name):
    s = rng.choice(STRATS[dict_name])
    if s is not None:
        c["strategy"] = s
        c["via"] = rng.choice(["attr", "item"])
    return c


def gen_maverage_call(rng, tier):
    exact = rng.random() < 0.6
    size = rng.choice([1, 2, 4, 8]) if exact else rng.choice([1, 2, 3, 5, 6, 7])
    xs = _xs(rng, exact, rng.choice([0, 1, size - 1, size, size + 1, 2 * size + 1, 9]))
    zero = rng.choice([F(0), F(1), _dy(rng), _dy(rng) if exact else _fr(rng)])
    c = _strategy(rng, {"entry": "maverage_call", "size": size, "xs": [_enc(x) for x in xs]}, "maverage")
    c["size_how"] = rng.choice(["pos", "pos", "kw"] + (["bool"] if size == 1 else []))
    return _finish(rng, c, {"zero": zero})


def gen_accumulate_call(rng, tier):
    xs = _xs(rng, rng.random() < 0.6)
    c = _strategy(rng, {"entry": "accumulate_call", "xs": [_enc(x) for x in xs]}, "accumulate")
    # accumulate.z(sig, zero=v): the memory value of the 1/(1 - z**-1) filter - the running sums start at v
    vals = {"zero": rng.choice([F(0), F(0), F(2), _dy(rng), _fr(rng)])} if c.get("strategy") == "z" else {}
    return _finish(rng, c, vals)


def gen_amdf_call(rng, tier):
    exact = rng.random() < 0.6
    size = rng.choice([1, 2, 4, 8]) if exact else rng.choice([1, 2, 3, 5, 6])
    lag = rng.choice([1, 1, 2, 3, 5, 0])
    xs = _xs(rng, exact, rng.choice([0, 1, lag, lag + 1, lag + size + 1, 9]))
    zero = rng.choice([F(0), F(0), _dy(rng)]) if lag > 0 else F(0)
    c = {"entry": "amdf_call", "lag": lag, "size": size, "xs": [_enc(x) for x in xs],
         "outer": rng.choice(["pos", "pos", "kw", "kw_swapped", "pos_kw", "bool" if (lag <= 1 and size == 1) else "pos"])}
    return _finish(rng, c, {"zero": zero})


def gen_envelope_call(rng, tier):
    xs = [float(_dy(rng)) for _ in range(rng.choice([0, 1, 2, 5, 12, 40]))]
    c = _strategy(rng, {"entry": "envelope_call", "xs": [_enc(x) for x in xs]}, "envelope")
    cut = rng.choice([PI / 512, 0.5, 1.0, rng.uniform(0.01, 3.0)])
    sh = rng.choice(["omit", "omit", "pos", "kw"])
    c["shape"], c["spell"] = {}, {}
    if sh != "omit":
        c["cutoff"] = _enc(cut)
        c["shape"]["cutoff"], c["spell"]["cutoff"] = sh, "float"
    c["sigkw"] = sh != "pos" and rng.random() < 0.15
    c["input"] = _pick_input(rng, xs)
    c["reuse"] = rng.choice(REUSE)
    if c["input"] == "endless":
        c["take"] = len(xs) + rng.randint(0, 5)
    return c


def gen_huge_call(rng, tier):
    """samples far beyond 2**53 (exact ints / Fractions): nothing may pass through a float on the way"""
    B = rng.choice([10 ** 20, 2 ** 70, 10 ** 30 + 7, -(10 ** 25)])
    n = rng.choice([1, 2, 3, 5, 8])
    small = lambda: F(rng.randint(-12, 12), rng.choice([1, 1, 2, 3]))
    tool = rng.choice(["clip", "zcross", "unwrap", "accumulate"])
    if tool == "clip":
        xs = [B + small() for _ in range(n)]
        c = {"entry": "clip_call", "xs": [_enc(x) for x in xs]}
        return _finish(rng, c, {"low": B - 3, "high": B + F(5, 2)}, allow_float=False, allow_none=("low", "high"))
    if tool == "zcross":
        xs = [rng.choice([1, -1]) * (abs(B) + small()) for _ in range(n)]
        c = {"entry": "zcross_call", "xs": [_enc(x) for x in xs]}
        return _finish(rng, c, {"hysteresis": F(abs(B)) + rng.choice([0, 1, -1]), "first_sign": F(rng.choice([0, 1, -B]))},
                       allow_float=False)
    if tool == "unwrap":
        # exact inputs must come out exact (`%` on the given types, theorem rat_unwrap_exact): steps and samples with
        # denominators that are no power of two, JUMPS (not only samples) beyond 2**53, int samples kept as ints
        step = rng.choice([F(1), F(2), F(3), F(7), F(3, 2), F(1, 3), F(7, 3), F(22, 7), F(5, 6), F(3), F(7)])
        ints = rng.random() < 0.4
        if ints:
            step = F(max(1, int(step)) + rng.choice([0, 2]))
        big = [2 ** 60 + 1, -(2 ** 55 + 3), 10 ** 17 + 1, 2 ** 53 + 1, -(10 ** 20 + 7), 3 * 2 ** 70 + 5]
        xs, cur = [], F(rng.choice([B, 0, 1]))
        for _ in range(n):
            xs.append(cur)
            r = rng.random()
            if r < 0.45:
                d = F(rng.choice(big)) + (0 if ints else small())
            elif r < 0.7:
                d = rng.randint(-3, 3) * step + (F(rng.choice([0, 1, -1])) if ints else rng.choice([F(0), step / 2, F(1, 8), F(1, 7)]))
            else:
                d = F(rng.randint(-9, 9)) if ints else rng.choice([small(), F(13, 4), F(-7, 2)])
            cur += d
        c = {"entry": "unwrap_call", "xs": [_enc(x) for x in xs]}
        md = rng.choice([step / 2, F(1), F(3)])
        c = _finish(rng, c, {"max_delta": F(int(md)) if ints else md, "step": step}, allow_float=False)
        if "step" not in c:       # the default step is the DOUBLE 2*pi: `%` then runs in floats, where a jump beyond 2**53 is
            c["step"] = _enc(step)  # not even representable - outside the exact regime this stream is about
            c["shape"]["step"], c["spell"]["step"] = "kw", "frac"
        if ints:
            c["xs_how"] = "int"
            for k in ("max_delta", "step"):
                if k in c.get("spell", {}):
                    c["spell"][k] = "int"
        return c
    xs = [B + small() for _ in range(n)]
    c = {"entry": "accumulate_call", "xs": [_enc(x) for x in xs]}
    s = rng.choice([None, "accumulate", "itertools", "func", "pure_python"])
    if s:
        c["strategy"], c["via"] = s, rng.choice(["attr", "item"])
    return _finish(rng, c, {}, allow_float=False)


CALL_GENS = [(gen_unwrap_call, 30), (gen_zcross_call, 16), (gen_clip_call, 16), (gen_maverage_call, 12),
             (gen_accumulate_call, 8), (gen_amdf_call, 8), (gen_envelope_call, 6), (gen_huge_call, 6)]


def generate(rng, tier):
    total = 4000 if tier == "quick" else 24000
    wsum = sum(w for _, w in CALL_GENS)
    cases = []
    for g, w in CALL_GENS:
        for _ in range(total * w // wsum):
            cases.append(g(rng, tier))
    return cases


def exhaustive():
    """every tool x every call shape x a few fixed inputs that separate each default from its neighbours"""
    cases = []
    E = lambda xs: [_enc(x) for x in xs]

    def add(entry, xs, vals, sh, **kw):
        for sigkw in ((False, True) if "pos" not in sh else (False,)):
            c = dict({"entry": entry, "xs": E(xs), "shape": {}, "spell": {}, "sigkw": sigkw, "input": "list"}, **kw)
            for (nme, v), how in zip(vals.items(), sh):
                if how != "omit":
                    c[nme] = _enc(v) if not isinstance(v, str) else v
                    c["shape"][nme] = how
                    if not isinstance(v, str):
                        c["spell"][nme] = "frac"
            cases.append(c)

    walk = [F(0), F(2), F(4), F(1), F(3), F(3), F(0), F(13, 4), F(-1, 4), F(25, 4), F(0), F(7, 2)]
    for sh in shapes(2):
        for step in (F(1), F(2), F(5), F(13, 2), F(10)):
            for md in (step / 2, F(3), F(7, 2)):
                add("unwrap_call", walk, {"max_delta": md, "step": step}, sh)
        for h, fs in ((F(0), F(0)), (F(1), F(0)), (F(1), F(-1)), (F(0), F(1)), (F(1, 2), F(1, 4)), (F(1, 2), F(-3))):
            add("zcross_call", [F(1, 4), F(-1, 4), F(-3, 4), F(2), F(-2), F(0), F(3, 4), F(-1)], {"hysteresis": h, "first_sign": fs}, sh)
        for lo, hi in ((F(-2), F(2)), (F(-1, 2), F(1, 2)), (F(2), F(3)), (F(-3), F(-2)), (F(-1), F(1)), ("None", "None"),
                       (F(0), "None"), ("None", F(0))):
            add("clip_call", [F(-5, 2), F(-1), F(-3, 4), F(0), F(3, 4), F(1), F(5, 2)], {"low": lo, "high": hi}, sh)
    for inp in INPUTS:
        for sh in (("omit", "omit"), ("omit", "kw"), ("pos", "pos")):
            add("unwrap_call", walk, {"max_delta": F(3, 2), "step": F(2)}, sh, input=inp, **({"take": 17} if inp == "endless" else {}))
            add("zcross_call", walk, {"hysteresis": F(1), "first_sign": F(-1)}, sh, input=inp, **({"take": 17} if inp == "endless" else {}))
            add("clip_call", walk, {"low": F(1), "high": F(3)}, sh, input=inp, **({"take": 17} if inp == "endless" else {}))
    xs = [F(1), F(3), F(-2), F(5), F(0), F(1, 2)]
    for inp in INPUTS:
        extra = {"take": 9} if inp == "endless" else {}
        for s in STRATS["maverage"]:
            for via in (("attr", "item") if s else ("attr",)):
                for sh in (("omit",), ("pos",), ("kw",)):
                    for size_how in ("pos", "kw"):
                        add("maverage_call", xs, {"zero": F(3, 2)}, sh, size=2, size_how=size_how, input=inp,
                            **dict(extra, **({"strategy": s, "via": via} if s else {})))
        for s in STRATS["accumulate"]:
            for via in (("attr", "item") if s else ("attr",)):
                for sh in ((("omit",), ("pos",), ("kw",)) if s == "z" else ((),)):
                    add("accumulate_call", xs, {"zero": F(0)} if s == "z" else {}, sh, input=inp,
                        **dict(extra, **({"strategy": s, "via": via} if s else {})))
                    if s == "z" and sh != ("omit",):
                        add("accumulate_call", xs, {"zero": F(2)}, sh, input=inp, **dict(extra, strategy=s, via=via))
        for outer in ("pos", "kw", "kw_swapped", "pos_kw"):
            for sh in (("omit",), ("pos",), ("kw",)):
                add("amdf_call", xs, {"zero": F(1, 2)}, sh, lag=1, size=2, outer=outer, input=inp, **extra)
        fx = [1.0, -2.0, 0.5, 0.0, 3.0]
        for s in STRATS["envelope"]:
            for via in (("attr", "item") if s else ("attr",)):
                for sh, cut in ((("omit",), None), (("pos",), 0.5), (("kw",), PI / 512), (("kw",), 0.25)):
                    c = {"entry": "envelope_call", "xs": E(fx), "shape": {}, "spell": {}, "sigkw": False, "input": inp}
                    c.update(extra)
                    if s:
                        c["strategy"], c["via"] = s, via
                    if cut is not None:
                        c["cutoff"], c["shape"]["cutoff"], c["spell"]["cutoff"] = _enc(cut), sh[0], "float"
                    cases.append(c)
    # the same callable used before / still in use (a second stream read alternately)
    for reuse in ("second", "interleaved"):
        for s in STRATS["maverage"]:
            add("maverage_call", xs, {"zero": F(3, 2)}, ("kw",), size=2, size_how="pos", reuse=reuse, **({"strategy": s, "via": "attr"} if s else {}))
            add("maverage_call", xs, {"zero": F(3, 2)}, ("omit",), size=4, size_how="pos", reuse=reuse, **({"strategy": s, "via": "attr"} if s else {}))
        for s in STRATS["accumulate"]:
            add("accumulate_call", xs, {}, (), reuse=reuse, **({"strategy": s, "via": "attr"} if s else {}))
        add("amdf_call", xs, {"zero": F(1, 2)}, ("omit",), lag=1, size=2, outer="pos", reuse=reuse)
        add("amdf_call", xs, {"zero": F(1, 2)}, ("pos",), lag=2, size=4, outer="pos", reuse=reuse)
        add("unwrap_call", walk, {"max_delta": F(3, 2), "step": F(2)}, ("omit", "kw"), reuse=reuse)
        add("zcross_call", walk, {"hysteresis": F(1), "first_sign": F(-1)}, ("pos", "omit"), reuse=reuse)
        add("clip_call", walk, {"low": F(1), "high": F(3)}, ("omit", "kw"), reuse=reuse)
        for s in STRATS["envelope"]:
            c = {"entry": "envelope_call", "xs": E([1.0, -2.0, 0.5, 0.0, 3.0]), "shape": {}, "spell": {}, "sigkw": False, "input": "list",
                 "reuse": reuse}
            if s:
                c["strategy"], c["via"] = s, "attr"
            cases.append(c)
    return cases


# ----------------------------------------------------------------------------------------------
# the real code
# ----------------------------------------------------------------------------------------------
def _samples(c):
    xs = [_dec(j) for j in c["xs"]]
    if c.get("float_twin") or c["entry"] == "envelope_call" or c.get("xs_how") == "float":
        return [float(x) for x in xs]
    if c.get("xs_how") == "int":
        return [int(x) for x in xs]
    return xs


def _endless(xs):
    while True:
        for x in xs:
            yield x


def make_input(c, al):
    xs = _samples(c)
    k = c.get("input", "list")
    if k == "list":
        return list(xs)
    if k == "tuple":
        return tuple(xs)
    if k == "deque":
        import collections
        return collections.deque(xs)
    if k == "gen":
        return (x for x in xs)
    if k == "iter":
        return iter(xs)
    if k == "Stream":
        return al.Stream(xs)
    if k == "thub":
        return al.thub(xs, 1)
    if k == "endless":
        return _endless(xs)
    raise ValueError(k)


def _read(c, out, other=None):
    if other is not None:            # a second stream made by the SAME callable, read alternately
        res, it = [], iter(out)
        n = c["take"] if c.get("input") == "endless" else None
        while n is None or len(res) < n:
            try:
                res.append(next(it))
            except StopIteration:
                break
            next(other, None)
        return res
    if c.get("input") == "endless":
        n = c["take"]
        return list(out.take(n)) if hasattr(out, "take") and n % 2 else list(itertools.islice(out, n))
    return list(out)


def _decoy(c):
    return [float(x) for x in DECOY] if (c.get("float_twin") or c["entry"] == "envelope_call" or c.get("xs_how") == "float") else list(DECOY)


def _args(c, names, first):
    """positional and keyword arguments of the optional parameters `names`, the input as `first`"""
    pos, kw = [], {}
    for nme in names:
        how = c.get("shape", {}).get(nme)
        if how is None:
            continue
        v = spell(c[nme], c.get("spell", {}).get(nme, "frac"))
        if how == "pos":
            pos.append(v)
        else:
            kw[nme] = v
    return pos, kw


def _strategy_obj(c, d):
    s = c.get("strategy")
    if s is None:
        return d
    return getattr(d, s) if c.get("via", "attr") == "attr" else d[s]


_QUIET = []


def _call(c):
    import audiolazy as al
    if not _QUIET:       # a thub handed to a call that fails before reading it is never used: not this property's business
        import warnings
        warnings.filterwarnings("ignore", category=al.MemoryLeakWarning)
        _QUIET.append(1)
    e = c["entry"]
    inp = make_input(c, al)

    def invoke(f, first_name, names, pre_pos=()):
        pos, kw = _args(c, names, first_name)
        reuse = c.get("reuse", "fresh")
        other = None
        if reuse != "fresh" and not any(v is None for v in list(kw.values()) + pos):
            # the callable has been used before (same arguments, another input): fully read, or still being read
            other = iter(f(_decoy(c), *(list(pre_pos) + pos if pos else []), **kw))
            if reuse == "second":
                list(other)
                other = None
        if c.get("sigkw"):
            kw[first_name] = inp
            return f(*pos, **kw), other
        return f(inp, *(list(pre_pos) + pos if pos else []), **kw), other

    if e in ("unwrap_call", "zcross_call", "clip_call"):
        tool = e[:-5]
        first, names = PARAMS[tool]
        return invoke(getattr(al, tool), first, names)
    if e == "envelope_call":
        return invoke(_strategy_obj(c, al.envelope), "sig", ["cutoff"])
    if e == "maverage_call":
        f = _strategy_obj(c, al.maverage)
        how = c.get("size_how", "pos")
        size = c["size"]
        flt = f(size=size) if how == "kw" else f(bool(size)) if how == "bool" else f(size)
        if isinstance(flt, al.LinearFilter):          # ZFilter.__call__(seq, memory=None, zero=0.)
            return invoke(flt, "seq", ["zero"], pre_pos=(None,))
        return invoke(flt, "sig", ["zero"])
    if e == "accumulate_call":
        f = _strategy_obj(c, al.accumulate)
        if isinstance(f, al.LinearFilter):
            return invoke(f, "seq", ["zero"], pre_pos=(None,))
        return invoke(f, "iterable", [])
    if e == "amdf_call":
        lag, size, outer = c["lag"], c["size"], c.get("outer", "pos")
        g = (al.amdf(lag, size) if outer == "pos" else al.amdf(lag=lag, size=size) if outer == "kw" else
             al.amdf(size=size, lag=lag) if outer == "kw_swapped" else al.amdf(lag, size=size) if outer == "pos_kw" else
             al.amdf(bool(lag), bool(size)))
        return invoke(g, "sig", ["zero"])
    raise ValueError(e)


_DOC = {}


def documented_default(fn, param):
    """a default of the documented table the Lean model uses (driver entry `defaults`), as a Fraction"""
    if not _DOC:
        r = common.Driver().batch([{"id": "C20", "entry": "defaults"}])[0]["ok"]
        for s in r["signatures"]:
            for p in s["params"]:
                if "default" in p:
                    _DOC[(s["fn"], p["name"])] = p["default"]
    return _dec(_DOC[(fn, param)])


def _envelope_definition(c):
    """the defining expression of the strategy - the impl's own low-pass of |x| / x^2 (square root for rms) - at the cutoff
    given, or at the DOCUMENTED default cutoff when the call omits it"""
    import audiolazy as al
    s = c.get("strategy") or "rms"
    cut = spell(c["cutoff"], "float") if "cutoff" in c else float(documented_default("envelope." + s, "cutoff"))
    xs = _samples(c)
    if c.get("input") == "endless":
        xs = [xs[i % len(xs)] for i in range(c["take"])]
    f = al.lowpass(cut)
    if s == "abs":
        return list(f(abs(x) for x in xs))
    sq = list(f(x ** 2 for x in xs))
    return sq if s == "squared" else [v ** .5 for v in sq]


def impl(c):
    try:
        out = _read(c, *_call(c))
        obs = {"out": [_enc(x) for x in out]}
    except Exception as ex:      # noqa
        obs = {"out": {"err": err_kind(ex)}}
    if c["entry"] == "envelope_call":
        try:
            obs["def"] = [_enc(x) for x in _envelope_definition(c)]
        except Exception as ex:      # noqa
            obs["def"] = {"err": err_kind(ex)}
    return obs


def _bound(c):
    nums = [abs(_dec(j)) for j in c["xs"]]
    for k in ("max_delta", "step", "hysteresis", "first_sign", "low", "high"):
        if k in c and c[k] not in ("None", "inf", "-inf"):
            nums.append(abs(_dec(c[k])))
    return 2 * max(nums + [F(1)]) + 2


def request(c):
    r = {"entry": c["entry"]}
    xs = c["xs"]
    if c.get("input") == "endless":
        n = c["take"]
        xs = (xs * (n // max(1, len(xs)) + 1))[:n]
    r["xs"] = xs
    if c.get("float_twin"):
        r["entry"] = "unwrap_call_float"
    for k in ("max_delta", "step", "hysteresis", "first_sign", "low", "high", "zero", "cutoff", "size", "lag", "strategy"):
        if k in c:
            v = c[k]
            if v in ("inf", "-inf"):        # a value beyond every sample (theorems clip_limit_beyond_samples,
                b = _bound(c)               # zcross_all_inside, unwrap_identity: any such value gives the same output)
                v = _enc(b if v == "inf" else -b)
            r[k] = v
    return r


# ----------------------------------------------------------------------------------------------
# comparison
# ----------------------------------------------------------------------------------------------
def exact(c):
    e = c["entry"]
    if e in ("clip_call", "zcross_call"):
        return True
    if e == "envelope_call" or c.get("float_twin"):
        return False
    dy = all(_is_dy(_dec(j)) for j in c["xs"])
    if e == "unwrap_call":
        return "step" in c            # given steps are exact numbers; the default step is the double 2*pi
    if e in ("maverage_call", "amdf_call"):
        z = _dec(c["zero"]) if "zero" in c else F(0)
        return dy and _is_dy(z) and c["size"] & (c["size"] - 1) == 0
    if e == "accumulate_call":
        return dy or c.get("strategy") != "z" or ("zero" in c and c["spell"].get("zero") != "float")
    return False


def compare(c, io, drv, _cmp, tol):
    out = []
    e = c["entry"]
    t = 0 if exact(c) else tol
    what = describe(c)
    _cmp(out, "model", what, io["out"], drv["model"], t)
    if "spec" in drv:
        _cmp(out, "spec", what + " vs defining formula with the documented defaults", io["out"], drv["spec"], t)
    if e == "unwrap_call" and not c.get("float_twin"):
        if drv.get("untouched_expected") and isinstance(io["out"], list):
            xs = request(c)["xs"]
            _cmp(out, "spec", what + ": no jump above max_delta (default pi), yet changed", io["out"], xs, 0)
        if "multiple" in drv and not (drv["multiple"] and drv["adjacent"]):
            out.append(("spec", "unwrap model output violates multiple-of-step / adjacent-jump bound"))
    if e == "envelope_call":
        _cmp(out, "spec", what + " vs the documented low-pass (cutoff given or the documented default pi/512) of |x| / x^2",
             io["out"], io["def"], tol)
    if e == "clip_call" and not drv["bounded"]:
        out.append(("spec", "clip output outside the limits"))
    return out


def describe(c):
    """the call as Python text (for messages and signatures)"""
    e = c["entry"][:-5]
    s = c.get("strategy")
    head = e + ("" if s is None else ".%s" % s if c.get("via", "attr") == "attr" else "[%r]" % s)
    if e == "maverage":
        head += "(%s)" % ("size=%d" % c["size"] if c.get("size_how") == "kw" else c["size"])
    if e == "amdf":
        head += "(%d, %d)" % (c["lag"], c["size"])
    parts = ["sig=x" if c.get("sigkw") else "x"]
    for nme in ("max_delta", "step", "hysteresis", "first_sign", "low", "high", "zero", "cutoff"):
        how = c.get("shape", {}).get(nme)
        if how:
            parts.append(("%s=" % nme if how == "kw" else "") + "<%s>" % (c[nme] if c[nme] in ("None", "inf", "-inf")
                                                                          else c.get("spell", {}).get(nme, "frac")))
    reuse = c.get("reuse", "fresh")
    return "%s(%s)%s" % (head, ", ".join(parts), "" if reuse == "fresh" else " [callable used before: %s]" % reuse)


def shape_key(c):
    names = {"unwrap_call": ["max_delta", "step"], "zcross_call": ["hysteresis", "first_sign"], "clip_call": ["low", "high"],
             "envelope_call": ["cutoff"], "maverage_call": ["zero"], "amdf_call": ["zero"],
             "accumulate_call": ["zero"] if c.get("strategy") == "z" else []}[c["entry"]]
    return ",".join("%s:%s" % (n, c.get("shape", {}).get(n, "omit")) for n in names) + (",sig:kw" if c.get("sigkw") else "")


def tally(eng, c, io):
    e = c["entry"]
    eng.count("call_shape", "%s(%s)" % (e[:-5], shape_key(c)))
    eng.count("call_input_kind", "%s:%s" % (e[:-5], c.get("input", "list")))
    eng.count("call_reuse", "%s:%s" % (e[:-5], c.get("reuse", "fresh")))
    if c["xs"] and max(abs(_dec(j)) for j in c["xs"]) > 2 ** 53:
        eng.count("call_magnitude", "%s:samples beyond 2**53" % e[:-5])
    for nme, how in c.get("spell", {}).items():
        eng.count("call_spelling", "%s.%s:%s" % (e[:-5], nme, how))
    for nme in ("max_delta", "step", "hysteresis", "first_sign", "low", "high"):
        if c.get(nme) in ("None", "inf", "-inf"):
            eng.count("call_spelling", "%s.%s:%s" % (e[:-5], nme, c[nme]))
    if e in ("maverage_call", "accumulate_call", "envelope_call"):
        s = c.get("strategy")
        eng.count("call_strategy", "%s:%s" % (e[:-5], "<dictionary default>" if s is None else "%s via %s" % (s, c.get("via"))))
    if e == "unwrap_call":
        st = _dec(c["step"]) if c.get("step") not in (None, "None") else None
        eng.count("unwrap_call_regime", ("float twin" if c.get("float_twin") else "exact" if exact(c) else "default step (float)") +
                  ("" if "max_delta" in c else ", max_delta omitted" +
                   ("" if st is None else ", step<2pi" if st < 2 * F(PI) else ", step>=2pi")))
        if "max_delta" not in c and st is not None and isinstance(io.get("out"), list):
            xs = [_dec(j) for j in request(c)["xs"]]
            ds = [abs(b - a) for a, b in zip(xs, xs[1:])]
            eng.count("unwrap_call_jumps(max_delta omitted)", "jump in (step/2, pi]", sum(1 for d in ds if st / 2 < d <= F(PI)))
            eng.count("unwrap_call_jumps(max_delta omitted)", "jump in (pi, step/2]", sum(1 for d in ds if F(PI) < d <= st / 2))
            eng.count("unwrap_call_jumps(max_delta omitted)", "jump > max(pi, step/2)", sum(1 for d in ds if d > max(F(PI), st / 2)))
    if e == "clip_call":
        for nme, dflt in (("low", F(-1)), ("high", F(1))):
            if nme not in c and isinstance(io.get("out"), list):
                xs = [_dec(j) for j in c["xs"]]
                eng.count("clip_call_default_limit", "%s omitted: %s" % (nme, "binds" if any(
                    (x < dflt) if nme == "low" else (x > dflt) for x in xs) else "does not bind"))
    if e in ("maverage_call", "amdf_call") or (e == "accumulate_call" and c.get("strategy") == "z"):
        z = "omitted" if "zero" not in c else "zero=0" if _dec(c["zero"]) == 0 else "zero!=0"
        s = c.get("strategy")
        eng.count("call_memory_value", "%s%s:%s" % (e[:-5], "" if e == "amdf_call" else "(default)" if s is None else "." + s, z))
    if e == "unwrap_call" and not c.get("float_twin") and "step" in c and c["step"] != "None":
        xs = [_dec(j) for j in request(c)["xs"]]
        if any(abs(b - a) > 2 ** 53 for a, b in zip(xs, xs[1:])):
            eng.count("unwrap_call_exactness", "jump beyond 2**53 (%s samples)" % c.get("xs_how", "Fraction"))
        if not _is_dy(_dec(c["step"])) or not all(_is_dy(x) for x in xs):
            eng.count("unwrap_call_exactness", "step or samples with a non-power-of-two denominator")
    if isinstance(io.get("out"), dict):
        eng.count("impl_error", "%s:%s" % (e, io["out"]["err"]))


def nontrivial(c, io):
    out = io.get("out")
    if isinstance(out, dict):
        return True
    if not c["xs"]:
        return False
    e = c["entry"]
    xs = request(c)["xs"]
    if e in ("clip_call", "unwrap_call"):
        return out != xs or bool(c.get("shape")) is False
    if e == "zcross_call":
        return any(out) or bool(c.get("shape"))
    return any(v != 0 for v in out)


def shrink(c):
    xs = c["xs"]
    n = len(xs)
    if c.get("input") == "endless":
        yield dict({k: v for k, v in c.items() if k != "take"}, input="list", xs=request(c)["xs"])
        return
    if n:
        yield dict(c, xs=xs[:-1])
        yield dict(c, xs=xs[1:])
        for i in range(min(n, 16)):
            yield dict(c, xs=xs[:i] + xs[i + 1:])
        for i in range(min(n, 16)):
            v = _dec(xs[i])
            for w in (F(0), F(int(v)), F(round(v))):
                if w != v:
                    yield dict(c, xs=xs[:i] + [_enc(w)] + xs[i + 1:])
    if c.get("input", "list") != "list":
        yield dict(c, input="list")
    if c.get("reuse", "fresh") != "fresh":
        yield dict(c, reuse="fresh")
    if c.get("sigkw"):
        yield dict(c, sigkw=False)
    if c.get("via") == "item":
        yield dict(c, via="attr")
    for nme, how in list(c.get("spell", {}).items()):
        if how != "frac":
            yield dict(c, spell=dict(c["spell"], **{nme: "frac"}))
    for nme in ("max_delta", "step", "hysteresis", "first_sign", "low", "high", "zero"):
        if nme in c and c[nme] not in ("None", "inf", "-inf"):
            v = _dec(c[nme])
            for w in (F(0), F(1), F(int(v)), F(round(v))):
                if w != v and not (nme == "step" and w <= 0) and w in [F(x) for x in (0, 1, int(v), round(v))]:
                    ok_spell = c.get("spell", {}).get(nme, "frac")
                    if ok_spell in spellings(w):
                        yield dict(c, **{nme: _enc(w)})
    for k in ("size", "lag"):
        if k in c and c[k] > (1 if k == "size" else 0) and c.get("size_how") != "bool" and c.get("outer") != "bool":
            yield dict(c, **{k: c[k] - 1})


def neighbours(c):
    xs = c["xs"]
    for i in range(min(len(xs), 12)):
        v = _dec(xs[i])
        for w in (F(0), -v, v + 1, v - 1, v * 2, v + F(7, 2), v - F(13, 4)):
            if w != v and (not (c.get("float_twin") or c["entry"] == "envelope_call" or c.get("xs_how") == "float") or _is_dy(w)):
                yield dict(c, xs=xs[:i] + [_enc(w)] + xs[i + 1:])
    yield dict(c, xs=xs + [_enc(_dec(xs[-1]) + F(13, 4) if xs else F(1))])
    yield dict(c, xs=xs + [_enc(_dec(xs[-1]) - F(5, 2) if xs else F(-1))])
    for nme in ("step", "max_delta", "hysteresis", "low", "high"):
        if nme in c and c[nme] not in ("None", "inf", "-inf") and c.get("spell", {}).get(nme, "frac") == "frac":
            v = _dec(c[nme])
            for w in (v / 2, v * 2, v + 1, F(1), F(2), F(5)):
                if w != v and w > 0:
                    yield dict(c, **{nme: _enc(w)})
